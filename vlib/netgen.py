"""Random netlist generator shared by the circuit-analysis checks (C01, C02, C03,
C04, C05, C14, C15).  All randomness comes from the `random.Random` passed in.

gen_netlist(rng, profile) -> dict(lines=[...], tags=set(...))
Profiles steer the source kinds so that the analysis kind is predictable:
  'dc'   : all independent sources DC, no initial conditions
  's'    : causal step / s-domain sources, no initial conditions (kind 's'/'laplace')
  'ivp'  : some L/C carry initial conditions
  'mixed': dc + step sources together (two sub-analyses)
  'res'  : resistors only with dc / step sources (Lcapy analyses these in the time domain, kind 'time')
  'noise': noise sources `noise V` (one noise analysis per source)
  'ac'   : ac sources `ac V phase omega` with quarter-turn phases (so every phasor is a
           Gaussian rational), one or two angular frequencies, sometimes a dc source too
Structure: a random spanning tree over nodes 0..n built from two-terminal
elements (so the graph is connected), a few extra chords, optional controlled
sources / transformer / gyrator / mutual inductance / two-ports, optional wires
that merge nodes, optional named nodes; every element gets a random
orientation.  Circuits that Lcapy rejects as singular are skipped by callers.
"""
from fractions import Fraction


def val(rng, lo=1, hi=9, dens=(1, 1, 1, 2, 3)):
    return Fraction(rng.randint(lo, hi), rng.choice(dens))


def fs(x):
    x = Fraction(x)
    return str(x.numerator) if x.denominator == 1 else '{%d/%d}' % (x.numerator, x.denominator)


def gen_netlist(rng, profile='s', size=None, extras=True, allow=None):
    n = size or rng.randint(2, 5)          # number of non-ground nodes
    names = ['0'] + [str(i) for i in range(1, n + 1)]
    if rng.random() < 0.25:                 # some named nodes
        for i in range(1, n + 1):
            if rng.random() < 0.4:
                names[i] = rng.choice(['a', 'b', 'in', 'out', 'x_1', 'mid'])+ str(i)
    lines = []
    tags = set()
    cnt = {}
    omegas = []
    if profile == 'ac':      # (no draws for the other profiles: their random streams stay as they were)
        omegas = [rng.choice(['2', '3', '{1/2}', '1'])]
        if rng.random() < 0.3:
            omegas.append(rng.choice(['5', '{3/2}']))

    def acspec(v):
        if rng.random() < 0.15:
            return 'dc %s' % v
        return 'ac %s %s %s' % (v, rng.choice(['0', '{pi/2}', '{-pi/2}', '{pi}', '{pi/2}', '{-pi/2}']), rng.choice(omegas))

    def name(prefix):
        cnt[prefix] = cnt.get(prefix, 0) + 1
        return '%s%d' % (prefix, cnt[prefix])

    def orient(a, b):
        return (a, b) if rng.random() < 0.5 else (b, a)

    def passive(a, b):
        k = rng.choice(['R'] if profile == 'res' else (['R', 'R', 'R', 'C', 'L'] if profile != 'dc' else ['R', 'R', 'R', 'R', 'C', 'L']))
        a, b = orient(a, b)
        if k == 'R':
            lines.append('%s %s %s %s' % (name('R'), a, b, fs(val(rng))))
        elif k == 'C':
            ic = ''
            if profile == 'ivp' and rng.random() < 0.6:
                ic = ' ' + fs(val(rng, -5, 5))
                tags.add('ic')
            lines.append('%s %s %s %s%s' % (name('C'), a, b, fs(val(rng)), ic))
            tags.add('C')
        else:
            ic = ''
            if profile == 'ivp' and rng.random() < 0.6:
                ic = ' ' + fs(val(rng, -5, 5))
                tags.add('ic')
            lines.append('%s %s %s %s%s' % (name('L'), a, b, fs(val(rng)), ic))
            tags.add('L')

    def vsource(a, b):
        a, b = orient(a, b)
        nm = name('V')
        v = fs(val(rng, -6, 6) or 1)
        kind = {'dc': 'dc', 's': rng.choice(['step', 'step', 'sexp']), 'ivp': rng.choice(['step', 'dc0']),
                'mixed': rng.choice(['dc', 'step']), 'ac': 'ac', 'res': None, 'noise': 'noise'}[profile]
        if profile == 'res':       # (drawn only for this profile: the random streams of the others stay as they were)
            kind = rng.choice(['dc', 'step', 'dc0'])
        if kind == 'noise':
            lines.append('%s %s %s noise %s' % (nm, a, b, fs(abs(Fraction(v.strip('{}'))))))
            tags.add('noise')
            return nm
        if kind == 'ac':
            lines.append('%s %s %s %s' % (nm, a, b, acspec(v)))
            tags.add('ac')
        elif kind == 'dc':
            lines.append('%s %s %s dc %s' % (nm, a, b, v))
        elif kind == 'dc0':
            lines.append('%s %s %s %s' % (nm, a, b, v))
        elif kind == 'step':
            lines.append('%s %s %s step %s' % (nm, a, b, v))
        else:
            lines.append('%s %s %s {%s*exp(-%d*t)*u(t)}' % (nm, a, b, v.strip('{}'), rng.randint(1, 3)))
        return nm

    def isource(a, b):
        a, b = orient(a, b)
        nm = name('I')
        v = fs(val(rng, -6, 6) or 1)
        kind = {'dc': 'dc', 's': 'step', 'ivp': 'step', 'mixed': rng.choice(['dc', 'step']), 'ac': 'ac', 'res': None,
                'noise': 'noise'}[profile]
        if profile == 'res':
            kind = rng.choice(['dc', 'step'])
        if kind == 'noise':
            v = fs(abs(Fraction(v.strip('{}'))))
        if kind == 'ac':
            lines.append('%s %s %s %s' % (nm, a, b, acspec(v)))
            tags.add('ac')
        else:
            lines.append('%s %s %s %s %s' % (nm, a, b, kind, v))
        tags.add('I')
        return nm

    # spanning tree: node i attaches to a random earlier node
    vnames = []
    for i in range(1, n + 1):
        j = rng.randint(0, i - 1)
        if rng.random() < (0.35 if not vnames else 0.12):
            vnames.append(vsource(names[i], names[j]))
        else:
            passive(names[i], names[j])
    if not vnames and rng.random() < 0.8:
        # a source with series resistor across two nodes (keeps things solvable)
        i, j = rng.sample(range(0, n + 1), 2)
        mid = 'm%d' % rng.randint(10, 99)
        vnames.append(vsource(names[i], mid))
        lines.append('%s %s %s %s' % (name('R'), mid, names[j], fs(val(rng))))
    # chords
    for _ in range(rng.randint(0, 3)):
        i, j = rng.sample(range(0, n + 1), 2)
        r = rng.random()
        if r < (0.5 if profile == 'ac' else 0.2):
            isource(names[i], names[j])
        else:
            passive(names[i], names[j])
    if profile == 'ac' and not (tags & {'L', 'C'}):
        # a purely resistive ac circuit is analysed in the time domain: force a phasor analysis
        lines.append('%s %s 0 %s' % (name('C'), names[rng.randint(1, n)], fs(val(rng))))
        tags.add('C')
    # ground resistors so that dc solutions exist
    for i in range(1, n + 1):
        if rng.random() < 0.3:
            lines.append('%s %s 0 %s' % (name('R'), names[i], fs(val(rng))))
    if extras:
        kinds = allow or ['E', 'G', 'H', 'F', 'TF', 'GY', 'K', 'W', 'AM', 'dup', 'TPA', 'TPY', 'TR', 'Hctl']
        for _ in range(rng.randint(0, 2)):
            k = rng.choice(kinds)
            if k in ('E', 'G', 'TF', 'GY', 'TPA', 'TPY') and n >= 2:
                out = 'o%d' % rng.randint(10, 99)
                outm = rng.choice(['0', '0', names[rng.randint(0, n)]])
                ci, cj = rng.sample(range(0, n + 1), 2)
                if k == 'E':
                    ac = (' ' + fs(val(rng, 1, 3))) if rng.random() < 0.3 else ''
                    lines.append('%s %s %s %s %s %s%s' % (name('E'), out, outm, names[ci], names[cj], fs(val(rng, -4, 4) or 2), ac))
                elif k == 'G':
                    lines.append('%s %s %s %s %s %s' % (name('G'), out, outm, names[ci], names[cj], fs(val(rng, -4, 4) or 2)))
                elif k == 'TF':
                    lines.append('%s %s %s %s %s %s' % (name('TF'), out, outm, names[ci], names[cj], fs(val(rng, 1, 4))))
                    outm = outm if outm != '0' else '0'
                elif k == 'GY':
                    lines.append('%s %s %s %s %s %s' % (name('GY'), out, outm, names[ci], names[cj], fs(val(rng, 1, 4))))
                elif k == 'TPA':
                    lines.append('%s %s 0 %s 0 A %s %s %s %s' % (name('TP'), out, names[max(ci, 1)], fs(val(rng)), fs(val(rng)), fs(val(rng)), fs(val(rng))))
                elif k == 'TPY':
                    lines.append('%s %s 0 %s 0 Y %s %s %s %s' % (name('TP'), out, names[max(ci, 1)], fs(val(rng)), fs(val(rng, -3, 3)), fs(val(rng, -3, 3)), fs(val(rng))))
                lines.append('%s %s %s %s' % (name('R'), out, rng.choice(['0', outm if outm != out else '0']), fs(val(rng))))
                if outm != '0':
                    lines.append('%s %s 0 %s' % (name('R'), out, fs(val(rng))))
                tags.add(k)
            elif k in ('H', 'F') and vnames:
                out = 'o%d' % rng.randint(10, 99)
                lines.append('%s %s 0 %s %s' % (name(k), out, rng.choice(vnames), fs(val(rng, -4, 4) or 2)))
                lines.append('%s %s 0 %s' % (name('R'), out, fs(val(rng))))
                if rng.random() < 0.4 and lines:
                    # list the controlled source BEFORE its controlling source
                    lines.insert(0, lines.pop(-2))
                tags.add(k)
            elif k == 'K':
                ls = [l for l in lines if l.startswith('L')]
                if len(ls) >= 2 and profile != 'dc':
                    l1, l2 = rng.sample(ls, 2)
                    # choose K so that K*sqrt(L1 L2) is rational: force both L values equal
                    v = fs(val(rng))
                    for l in (l1, l2):
                        idx = lines.index(l)
                        parts = l.split()
                        parts[3] = v
                        lines[idx] = ' '.join(parts)
                    lines.append('%s %s %s %s' % (name('K'), l1.split()[0], l2.split()[0], fs(Fraction(rng.randint(1, 3), 4))))
                    tags.add('K')
            elif k == 'W' and n >= 2:
                i, j = rng.sample(range(0, n + 1), 2)
                lines.append('W %s %s' % (names[i], names[j]))
                tags.add('W')
            elif k == 'AM':
                # ammeter in series with a new resistor to ground
                i = rng.randint(1, n)
                mid = 'q%d' % rng.randint(10, 99)
                lines.append('%s %s %s' % (name('AM'), names[i], mid))
                lines.append('%s %s 0 %s' % (name('R'), mid, fs(val(rng))))
                tags.add('AM')
            elif k == 'dup':
                rl = [l for l in lines if l[0] in 'RCL']
                if rl:
                    p = rng.choice(rl).split()
                    a, b = orient(p[1], p[2])
                    lines.append('%s %s %s %s' % (name(p[0][0]), a, b, fs(val(rng))))
                    tags.add('dup')
            elif k == 'TR':
                i = rng.randint(1, n)
                out = 'o%d' % rng.randint(10, 99)
                lines.append('%s %s %s %s' % (name('TR'), names[i], out, fs(val(rng, -3, 3) or 2)))
                lines.append('%s %s 0 %s' % (name('R'), out, fs(val(rng))))
                tags.add('TR')
            elif k == 'Hctl' and False:
                pass
    tags.add(profile)
    return {'lines': lines, 'tags': sorted(tags)}


def targeted(rng, owner):
    """small circuits that exercise one stamp-defining class in many grounding /
    orientation patterns (used by the failing-input search when the Coq lemma
    about that class no longer checks)"""
    out = []
    four = {'VCVS': 'E', 'VCCS': 'G', 'TF': 'TF', 'GY': 'GY'}
    if owner in four or owner in ('TPA', 'TPB', 'TPG', 'TPH', 'TPY', 'TPZ', 'TL'):
        pats = [('o', '0', 'b', '0'), ('o', 'p', 'b', 'c'), ('0', 'o', 'b', 'c'), ('o', 'p', '0', 'c'), ('o', 'p', 'c', 'b'), ('o', '0', 'b', 'c'),
                ('o', 'b', 'b', 'c'), ('o', 'p', 'c', '0')]
        for (a1, a2, c1, c2) in pats:
            base = ['V1 a 0 step 2', 'R1 a b 1', 'R2 b 0 2', 'R3 b c 3', 'R4 c 0 5', 'R5 o 0 2', 'R6 p 0 3', 'R7 o p 4', 'R8 o b 7']
            v = fs(val(rng, 1, 4))
            if owner in four:
                cpt = '%s1 %s %s %s %s %s' % (four[owner], a1, a2, c1, c2, v)
            elif owner in ('TPY', 'TPZ'):
                k = 'Y' if owner == 'TPY' else 'Z'
                cpt = 'TP1 %s %s %s %s %s %s %s %s %s' % (a1, a2, c1, c2, k, fs(val(rng)), fs(val(rng, 1, 3)), fs(val(rng, 1, 3)), fs(val(rng, 4, 9)))
            elif owner == 'TL':
                continue
            else:
                k = owner[2]
                cpt = 'TP1 %s %s %s %s %s %s %s %s %s' % (a1, a2, c1, c2, k, fs(val(rng)), fs(val(rng, 1, 3)), fs(val(rng, 1, 3)), fs(val(rng, 4, 9)))
            out.append(base + [cpt])
    elif owner in ('RC', 'L', 'V', 'I', 'AM'):
        for (n1, n2) in [('b', 'c'), ('c', 'b'), ('b', '0'), ('0', 'b'), ('b', 'b2')]:
            base = ['V1 a 0 step 2', 'R1 a b 1', 'R2 c 0 2', 'R3 b c 3']
            if (n1, n2) == ('b', 'b2'):
                base.append('W b b2')
            for cpt in {'RC': ['R9 %s %s 2', 'C9 %s %s 3 4', 'C9 %s %s 2'], 'L': ['L9 %s %s 2 3', 'L9 %s %s 2'],
                        'V': ['V9 %s %s step 3'], 'I': ['I9 %s %s step 3'], 'AM': ['AM9 %s %s']}[owner]:
                if owner in ('V', 'AM') and 'b2' in (n1, n2):
                    continue
                out.append(base + [cpt % (n1, n2)])
    elif owner in ('CCVS', 'CCCS'):
        k = 'H' if owner == 'CCVS' else 'F'
        for (n1, n2) in [('o', '0'), ('0', 'o'), ('o', 'p'), ('o', 'b')]:
            for order in (0, 1):
                base = ['V1 a 0 step 2', 'R1 a b 1', 'R2 b 0 2', 'R5 o 0 2', 'R6 p 0 3', 'R7 o p 4']
                cpt = '%s1 %s %s V1 %s' % (k, n1, n2, fs(val(rng, 1, 4)))
                out.append(([cpt] + base) if order else (base + [cpt]))
    elif owner == 'K':
        out.append(['V1 a 0 step 2', 'R1 a b 1', 'L1 b 0 2', 'L2 c 0 2', 'R2 c 0 3', 'K1 L1 L2 {1/2}'])
        out.append(['V1 a 0 step 2', 'R1 a b 1', 'L1 b c 3', 'L2 0 d 3', 'R2 c 0 3', 'R3 d 0 1', 'K1 L2 L1 {1/4}'])
    elif owner == 'TR':
        for (n1, n2) in [('b', 'o'), ('b', 'c')]:
            out.append(['V1 a 0 step 2', 'R1 a b 1', 'R2 b 0 2', 'R3 c 0 2', 'R5 o 0 2', 'TR1 %s %s 3' % (n1, n2)])
    elif owner == 'RV':
        out.append(['V1 a 0 step 2', 'RV1 a 0 w 4 {1/4}', 'R1 w 0 3'])
        out.append(['V1 a 0 step 2', 'R0 a b 1', 'RV1 b c w 4 {1/3}', 'R1 w 0 3', 'R2 c 0 2'])
    elif owner.startswith('SP'):
        sig = owner[2:]
        ins = ['b', 'c', 'd'][:len(sig) - 0 if len(sig) == 3 else 2]
        if len(sig) == 2:
            out.append(['V1 a 0 step 2', 'R1 a b 1', 'R2 b 0 2', 'R3 b c 1', 'R4 c 0 1', 'SP1 %s b c o' % sig, 'R5 o 0 2'])
        else:
            out.append(['V1 a 0 step 2', 'R1 a b 1', 'R2 b 0 2', 'R3 b c 1', 'R4 c 0 1', 'R6 c d 2', 'R7 d 0 2', 'SP1 %s b c o d' % sig, 'R5 o 0 2'])
    # a reactive element forces a Laplace-domain analysis (exact rational values at s0)
    return [l + ['C0 b 0 1'] if any(x.split()[1] == 'b' or x.split()[2] == 'b' for x in l if len(x.split()) > 2) else l + ['C0 a 0 1'] for l in out]
