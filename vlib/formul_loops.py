"""C15 - loop selection of mesh analysis (CircuitGraph.loops) as a checked contract.

For the loops a real run of cct.mesh_analysis() recorded (node lists) and the edges of its circuit graph:
  * Python (untrusted) finds a certificate: an elimination order (every loop owns an edge no later loop uses) when the
    signed incidence rows are independent, or a non-zero vanishing combination when they are dependent;
  * Coq (props/C15loops.v) rebuilds the incidence rows from edges + loops itself and checks the certificate, that every loop
    is a cycle of the graph, and the number of loops against the cyclomatic number E - V + 1;
  * the verdict (oracle, exact Fractions): dependent loops / too few loops / a loop that is not a cycle.
"""
from fractions import Fraction

from . import core


def _inc(loop, uv):
    st = list(zip(loop, loop[1:] + loop[:1]))
    if (uv[0], uv[1]) in st:
        return 1
    if (uv[1], uv[0]) in st:
        return -1
    return 0


def _nullvec(rows, ne):
    """a non-zero c with sum_i c_i rows[i] = 0, or None (exact)"""
    nl = len(rows)
    M = [[Fraction(rows[i][e]) for i in range(nl)] for e in range(ne)]
    piv = []
    r = 0
    for c in range(nl):
        p = next((k for k in range(r, ne) if M[k][c] != 0), None)
        if p is None:
            continue
        M[r], M[p] = M[p], M[r]
        pv = M[r][c]
        M[r] = [x / pv for x in M[r]]
        for k in range(ne):
            if k != r and M[k][c] != 0:
                f = M[k][c]
                M[k] = [x - f * y for x, y in zip(M[k], M[r])]
        piv.append(c)
        r += 1
        if r == ne:
            break
    free = [c for c in range(nl) if c not in piv]
    if not free:
        return None
    f = free[0]
    v = [Fraction(0)] * nl
    v[f] = Fraction(1)
    for k, c in enumerate(piv):
        v[c] = -M[k][f]
    return v


def _peel(rows, ne):
    rem = list(range(len(rows)))
    perm, wit = [], []
    while rem:
        hit = None
        for i in rem:
            for e in range(ne):
                if rows[i][e] != 0 and all(rows[j][e] == 0 for j in rem if j != i):
                    hit = (i, e)
                    break
            if hit:
                break
        if hit is None:
            return None
        perm.append(hit[0])
        wit.append(hit[1])
        rem.remove(hit[0])
    return perm, wit


def analyse(r):
    """None when there is nothing to check, else a dict with the graph, the loops and the certificates"""
    ms = r.get('mesh')
    if not ms or not ms.get('loops') or not ms.get('planar', True):
        return None
    edges = [(u, v) for u, v, nm in ms['edges']]
    loops = [list(l) for l in ms['loops']]
    if any(x is None for uv in edges for x in uv) or any(x is None for l in loops for x in l):
        return None
    if len(set(frozenset(uv) for uv in edges)) != len(edges) or any(u == v for u, v in edges):
        return None         # not a simple graph: outside what nx.Graph hands out
    nodes = sorted(set(x for uv in edges for x in uv))
    par = {n: n for n in nodes}

    def find(x):
        while par[x] != x:
            par[x] = par[par[x]]
            x = par[x]
        return x
    for u, v in edges:
        par[find(u)] = find(v)
    ncomp = len(set(find(n) for n in nodes))
    es = set(frozenset(uv) for uv in edges)
    cyc = [len(l) >= 3 and len(set(l)) == len(l) and all(frozenset(p) in es for p in zip(l, l[1:] + l[:1])) for l in loops]
    rows = [[_inc(l, uv) for uv in edges] for l in loops]
    ne = len(edges)
    kern = _nullvec(rows, ne)
    peel = _peel(rows, ne) if kern is None else None
    return {'edges': edges, 'loops': loops, 'loop_names': ms.get('loop_names'), 'nodes': nodes, 'ncomp': ncomp, 'cycles': cyc, 'rows': rows,
            'kernel': kern, 'peel': peel, 'expected': ne - len(nodes) + ncomp}


def span_cert(a):
    """P (loops x edges), Q (edges x nodes) with I - R^T P = Q Inc, or None.  P by back-substitution along the elimination order
    (the owner edge of a loop carries that loop's current alone once the earlier loops are subtracted), Q[i] = node potentials of row i."""
    if a['peel'] is None or a['ncomp'] != 1:
        return None
    rows, edges, nodes = a['rows'], a['edges'], a['nodes']
    ne, nl = len(edges), len(rows)
    perm, wit = a['peel']
    P = [[Fraction(0)] * ne for _ in range(nl)]
    for t, (i, e) in enumerate(zip(perm, wit)):
        v = [Fraction(1 if j == e else 0) for j in range(ne)]
        for i2 in perm[:t]:
            if rows[i2][e] != 0:
                v = [x - rows[i2][e] * y for x, y in zip(v, P[i2])]
        P[i] = [x / rows[i][e] for x in v]
    D = [[Fraction(1 if i == j else 0) - sum(rows[k][i] * P[k][j] for k in range(nl)) for j in range(ne)] for i in range(ne)]
    adj = {n: [] for n in nodes}
    for j, (u, v) in enumerate(edges):
        adj[u].append((v, j, 1))        # q[u] - q[v] = D[i][j]
        adj[v].append((u, j, -1))
    Q = []
    for i in range(ne):
        q = {nodes[0]: Fraction(0)}
        todo = [nodes[0]]
        while todo:
            x = todo.pop()
            for y, j, sg in adj[x]:
                if y not in q:
                    q[y] = q[x] - D[i][j] if sg == 1 else q[x] + D[i][j]
                    todo.append(y)
        if any(q[u] - q[v] != D[i][j] for j, (u, v) in enumerate(edges)):
            return None
        Q.append([q[n] for n in nodes])
    return P, Q


def oracle(r):
    """exact verdicts on the loop set: list of dict(key, what), stats"""
    st = {'checked': 0, 'independent': 0, 'dependent': 0}
    a = analyse(r)
    bad = []
    if a is None:
        return bad, st
    st['checked'] = 1
    nl = len(a['loops'])
    names = a['loop_names'] or a['loops']
    if not all(a['cycles']):
        k = a['cycles'].index(False)
        bad.append({'key': 'mesh:loops-not-cycles',
                    'what': 'mesh analysis records the loop %s, which is not a cycle of the circuit graph (repeated node, fewer than 3 nodes, or consecutive nodes not joined by a branch)' % (names[k],)})
        return bad, st
    if a['kernel'] is not None:
        st['dependent'] = 1
        sets = [set(l) for l in a['loops']]
        sup = any(i != j and sets[j] <= sets[i] for i in range(nl) for j in range(nl))
        # the selection rule of chordless_loops held (no loop's node set contains another's) and the set is still dependent: a face
        # too many (K4, wheels); anything else is a different defect
        bad.append({'key': 'mesh:loops-dependent:%s' % ('superset-loop-kept' if sup else 'minimal-node-sets(outer-face-kept)'),
                    'what': 'mesh analysis records %d loops %s for a circuit graph with %d branches, %d nodes (cyclomatic number %d): the loops are linearly dependent '
                            '(combination %s of their branch incidences vanishes), so the mesh currents are not determined and the printed system A y = b is singular' % (
                                nl, names, len(a['edges']), len(a['nodes']), a['expected'], [str(x) for x in a['kernel']])})
        return bad, st
    st['independent'] = 1
    if nl < a['expected']:
        bad.append({'key': 'mesh:loops-incomplete',
                    'what': 'mesh analysis records %d independent loops %s for a circuit graph with cyclomatic number %d (%d branches, %d nodes): some branch currents cannot be '
                            'expressed by the mesh currents' % (nl, names, a['expected'], len(a['edges']), len(a['nodes']))})
    return bad, st


def _zl(xs):
    return '[%s]' % '; '.join('%d' % x for x in xs)


def _nl(xs):
    return '[%s]' % '; '.join('%d%%nat' % x for x in xs)


def checks(ci, r):
    """Coq boolean expressions (expected true): the contract evaluated inside Coq on the loops of the real run"""
    a = analyse(r)
    if a is None or not all(a['cycles']):
        return []
    E = '[%s]' % '; '.join('(%d, %d)' % uv for uv in a['edges'])
    L = '[%s]' % '; '.join(_zl(l) for l in a['loops'])
    cnt = 'Bool.eqb (count_okb %s %s) %s' % (E, L, 'true' if len(a['loops']) == a['expected'] else 'false') if a['ncomp'] == 1 else 'true'
    out = []
    if a['kernel'] is not None:
        cs = '[%s]' % '; '.join(core.qc_lit(x) for x in a['kernel'])
        out.append(('meshloops/%d/dependence-certificate' % ci, None, 'andb (cycles_okb %s %s) (andb (%s) (kernel_certb %s %s %s))' % (E, L, cnt, E, L, cs)))
    elif a['peel'] is not None:
        perm, wit = a['peel']
        sc = span_cert(a) if len(a['loops']) == a['expected'] else None
        if sc is not None:
            ml = lambda M: '[%s]' % '; '.join('[%s]' % '; '.join(core.qc_lit(x) for x in row) for row in M)
            out.append(('meshloops/%d/spanning-certificate' % ci, None, 'span_certb %s %s %s %s %s' % (E, L, _zl(a['nodes']), ml(sc[0]), ml(sc[1]))))
        out.append(('meshloops/%d/independence-certificate' % ci, None, 'andb (cycles_okb %s %s) (andb (%s) (peel_certb %s %s %s %s))' % (E, L, cnt, E, L, _nl(perm), _nl(wit))))
    else:
        out.append(('meshloops/%d/cycles' % ci, None, 'andb (cycles_okb %s %s) (%s)' % (E, L, cnt)))
    return out


def gen_wheel(rng, mode):
    """a wheel (hub + rim of 3 or 4 nodes; 3 = K4 = Wheatstone bridge / bridged T) of R, L, C with one voltage source on a spoke or on
    the rim, random orientations - the graphs on which every face, the outer one included, is a chordless cycle"""
    n = rng.choice([3, 3, 4])
    names = [str(i) for i in range(n + 1)]
    rng.shuffle(names)                          # ground ('0') is the hub or a rim node
    hub, rim = names[0], names[1:]
    pairs = [(hub, x) for x in rim] + [(rim[i], rim[(i + 1) % n]) for i in range(n)]
    vs = rng.randrange(len(pairs))
    lines = []
    nreact = 0
    for k, (a, b) in enumerate(pairs):
        if rng.random() < 0.5:
            a, b = b, a
        if k == vs:
            amp = rng.choice([2, 3, 4, -5, 6])
            lines.append('V1 %s %s %s' % (a, b, {'laplace': 'step %d' % amp, 'dc': 'dc %d' % amp, 'ac': 'ac %d 0 3' % amp}[mode]))
            continue
        kind = 'R'
        if mode != 'dc' and nreact < 2 and rng.random() < 0.3:
            kind = rng.choice('LC')
            nreact += 1
        v = Fraction(rng.randint(1, 9), rng.choice([1, 1, 2]))
        lines.append('%s%d %s %s %s' % (kind, k + 1, a, b, str(v.numerator) if v.denominator == 1 else '{%d/%d}' % (v.numerator, v.denominator)))
    return lines
