"""Shared machinery for the /verif checks: work directories, Coq runs,
obligation counting, axiom gate, evidence files, violation/known-finding
reporting.  Used by every check in /verif/checks/."""
import hashlib
import json
import os
import re
import shutil
import subprocess
import sys
import time

VERIF = os.path.dirname(os.path.dirname(os.path.abspath(__file__)))
REPO = os.environ.get('VERIF_REPO', '/repo')
PY = '/venv/bin/python'
COQ_THEORY = os.path.join(VERIF, 'coq', 'theory')
NCPU = max(1, min(16, os.cpu_count() or 1))

FORBIDDEN = re.compile(
    r'\b(Admitted|admit|Axiom|Axioms|Parameter|Parameters|Conjecture|Conjectures|'
    r'Admit\s+Obligations|bypass_check|type-in-type|impredicative-set)\b|'
    r'Unset\s+Guard|Unset\s+Positivity|Unset\s+Universe|Hypothesis|Hypotheses|Variable\b|Variables\b')


def seed():
    try:
        return int(os.environ.get('VERIF_SEED', '0'))
    except ValueError:
        return 0


def sha256_file(path):
    return hashlib.sha256(open(path, 'rb').read()).hexdigest()


class Work:
    """scratch directory under /verif/.work, removed at exit"""

    def __init__(self, tag):
        self.dir = os.path.join(VERIF, '.work', '%s-%d' % (tag, os.getpid()))
        shutil.rmtree(self.dir, ignore_errors=True)
        os.makedirs(self.dir)

    def path(self, *p):
        return os.path.join(self.dir, *p)

    def write(self, name, text):
        with open(self.path(name), 'w') as f:
            f.write(text)
        return self.path(name)

    def cleanup(self):
        shutil.rmtree(self.dir, ignore_errors=True)


def gate_text(name, text, in_section_ok=True):
    """reject forbidden vernacular.  `Variable`/`Hypothesis` are allowed only
    inside a Section (we check that every one occurs between Section/End)."""
    bad = []
    depth = 0
    # strip comments (non-nested approximation is enough: we never nest)
    stripped = re.sub(r'\(\*.*?\*\)', '', text, flags=re.S)
    for ln, line in enumerate(stripped.split('\n'), 1):
        if re.match(r'\s*Section\b', line):
            depth += 1
        if re.match(r'\s*End\b', line) and depth > 0:
            depth -= 1
        for m in FORBIDDEN.finditer(line):
            w = m.group(0)
            if re.match(r'Hypothes|Variable', w):
                if depth > 0 or re.search(r'Section\b.*' + w, line):
                    continue
            bad.append('%s:%d: %s' % (name, ln, w))
    return bad


def gate_files(paths):
    bad = []
    for p in paths:
        bad += gate_text(os.path.relpath(p, VERIF) if p.startswith(VERIF) else p, open(p).read())
    return bad


def theory_built():
    return os.path.exists(os.path.join(COQ_THEORY, 'FieldSec.vo'))


def build_theory(quiet=False):
    """full .vo build of the hand-written theory (setup_cmd and self-heal)"""
    coqdir = os.path.join(VERIF, 'coq')
    files = sorted(f for f in os.listdir(COQ_THEORY) if f.endswith('.v'))
    with open(os.path.join(coqdir, '_CoqProject'), 'w') as f:
        f.write('-Q theory LT\n' + ''.join('theory/%s\n' % x for x in files))
    r = subprocess.run('coq_makefile -f _CoqProject -o Makefile && timeout 1500 make -k -j%d' % NCPU,
                       shell=True, cwd=coqdir, stdout=subprocess.PIPE, stderr=subprocess.STDOUT, text=True)
    if not quiet or r.returncode != 0:
        sys.stdout.write(re.sub(r'(?m)^.*Warning:.*\n|^\[.*\]\n', '', r.stdout)[-4000:])
    return r.returncode == 0


def _deps_closure(names):
    """transitive closure of LT.* dependencies of the given theory files"""
    seen = []
    todo = list(names)
    while todo:
        n = todo.pop()
        if n in seen:
            continue
        p = os.path.join(COQ_THEORY, n + '.v')
        if not os.path.exists(p):
            continue
        seen.append(n)
        for m in re.finditer(r'\bLT\.([A-Za-z0-9_]+)', open(p).read()):
            todo.append(m.group(1))
    return seen


def _stale(names):
    """a compiled theory file is stale when it is older than its own source or the
    source of anything it (transitively) depends on"""
    for n in names:
        vo = os.path.join(COQ_THEORY, n + '.vo')
        if not os.path.exists(vo):
            return True
        t = os.path.getmtime(vo)
        for d in _deps_closure([n]):
            if os.path.getmtime(os.path.join(COQ_THEORY, d + '.v')) > t:
                return True
    return False


def ensure_theory(needed=None):
    """make sure the theory files a check needs (and their dependencies) are
    compiled and up to date; builds only those targets, serialised by a file
    lock so that concurrently running checks do not race on make.  Other
    theory files (possibly under construction) are not touched."""
    import fcntl
    if needed is None:
        needed = [f[:-2] for f in os.listdir(COQ_THEORY) if f.endswith('.v')]
        strict = False
    else:
        strict = True
    names = _deps_closure(needed)
    if not _stale(names):
        return
    os.makedirs(os.path.join(VERIF, '.work'), exist_ok=True)
    with open(os.path.join(VERIF, '.work', 'theory.lock'), 'w') as lk:
        fcntl.flock(lk, fcntl.LOCK_EX)
        if not _stale(names):
            return
        coqdir = os.path.join(VERIF, 'coq')
        files = sorted(f for f in os.listdir(COQ_THEORY) if f.endswith('.v'))
        with open(os.path.join(coqdir, '_CoqProject'), 'w') as f:
            f.write('-Q theory LT\n' + ''.join('theory/%s\n' % x for x in files))
        targets = ' '.join('theory/%s.vo' % n for n in names)
        r = subprocess.run('coq_makefile -f _CoqProject -o Makefile && timeout 1500 make -k -j%d %s' % (NCPU, targets),
                           shell=True, cwd=coqdir, stdout=subprocess.PIPE, stderr=subprocess.STDOUT, text=True)
        if _stale(names) and strict:
            raise RuntimeError('theory build failed:\n' + r.stdout[-1500:])
        if _stale(['FieldSec']):
            raise RuntimeError('theory build failed:\n' + r.stdout[-1500:])


def run_impl(script, cases, nproc=None, hashseeds=None, timeout=1800):
    """run tools/<script> (under /venv/bin/python with PYTHONPATH=/repo) on the
    JSON list `cases`, split round-robin over nproc worker processes; each
    worker reads a JSON list on stdin and writes a JSON list of the same length.
    hashseeds: optional list of PYTHONHASHSEED values, one per worker."""
    nproc = nproc or NCPU
    nproc = max(1, min(nproc, len(cases)))
    chunks = [cases[i::nproc] for i in range(nproc)]
    procs = []
    for wi, ch in enumerate(chunks):
        env = dict(os.environ, PYTHONPATH=REPO, PYTHONHASHSEED=str(hashseeds[wi % len(hashseeds)] if hashseeds else 0))
        p = subprocess.Popen([PY, '-W', 'ignore', os.path.join(VERIF, 'tools', script)],
                             stdin=subprocess.PIPE, stdout=subprocess.PIPE, stderr=subprocess.PIPE,
                             text=True, env=env, cwd=VERIF)
        procs.append(p)
    import threading
    outs = [None] * nproc

    def feed(i):
        try:
            o, e = procs[i].communicate(json.dumps(chunks[i]), timeout=timeout)
        except subprocess.TimeoutExpired:
            procs[i].kill()
            o, e = '', 'timeout'
        outs[i] = (o, e)
    ths = [threading.Thread(target=feed, args=(i,)) for i in range(nproc)]
    for t in ths:
        t.start()
    for t in ths:
        t.join()
    results = [None] * len(cases)
    for i in range(nproc):
        o, e = outs[i]
        try:
            rs = json.loads(o)
            assert len(rs) == len(chunks[i])
        except Exception:
            rs = [{'error': 'worker crashed: ' + (e or '')[-400:]}] * len(chunks[i])
        for j, r in enumerate(rs):
            results[i + j * nproc] = r
    return results


def qc_lit(x):
    """Coq literal of a rational (Fraction, int, or 'p/q' string) in QcF"""
    from fractions import Fraction
    x = Fraction(x)
    return '(qc (%d) %d)' % (x.numerator, x.denominator)


def parse_eval_list(out):
    """parse the result of `Eval vm_compute in (l : list nat)` printed by coqc;
    returns list of ints, or None when absent"""
    m = re.search(r'=\s*\[(.*?)\]\s*:\s*list nat', out, re.S)
    if not m:
        return None
    body = m.group(1).strip()
    if not body:
        return []
    return [int(x.replace('%nat', '').strip()) for x in body.split(';')]


def coqc(workdir, fname, timeout=300, logical='Gen'):
    """compile one file in workdir; returns (ok, output, seconds)"""
    t0 = time.time()
    cmd = ['timeout', str(timeout), 'coqc', '-q', '-Q', COQ_THEORY, 'LT', '-Q', workdir, logical, fname]
    r = subprocess.run(cmd, cwd=workdir, stdout=subprocess.PIPE, stderr=subprocess.STDOUT, text=True)
    return r.returncode == 0, r.stdout, time.time() - t0


def coqc_many(workdir, fnames, timeout=300, jobs=None):
    """compile independent files in parallel; returns {fname: (ok, out, secs)}"""
    from concurrent.futures import ThreadPoolExecutor
    res = {}
    with ThreadPoolExecutor(max_workers=jobs or NCPU) as ex:
        futs = {f: ex.submit(coqc, workdir, f, timeout) for f in fnames}
        for f, fu in futs.items():
            res[f] = fu.result()
    return res


OBL_RE = re.compile(r'^\s*(Theorem|Lemma|Corollary|Example|Fact|Proposition)\s+([A-Za-z0-9_\']+)', re.M)


def obligations_in(text):
    stripped = re.sub(r'\(\*.*?\*\)', '', text, flags=re.S)
    return [m.group(2) for m in OBL_RE.finditer(stripped)]


def parse_assumptions(out):
    """collect the axioms printed by `Print Assumptions` in a coqc output"""
    axioms = set()
    closed = 0
    blocks = re.split(r'(?m)^(?=Axioms:|Closed under the global context)', out)
    for b in blocks:
        if b.startswith('Closed under the global context'):
            closed += 1
        elif b.startswith('Axioms:'):
            for m in re.finditer(r'(?m)^([A-Za-z_][A-Za-z0-9_.\']*)\s*:', b[len('Axioms:'):]):
                axioms.add(m.group(1))
    return closed, sorted(axioms)


def failed_obligation(out):
    """best-effort: name the statement whose proof failed from a coqc error"""
    m = re.search(r'File "([^"]+)", line (\d+), characters', out)
    return (m.group(1), int(m.group(2))) if m else (None, None)


def statement_at(path, line):
    try:
        lines = open(path).read().split('\n')
    except OSError:
        return None
    for i in range(min(line, len(lines)) - 1, -1, -1):
        m = OBL_RE.match(lines[i])
        if m:
            return m.group(2)
    return None


# ---------------------------------------------------------------------------
class Result:
    """accumulates what one check run did; writes evidence; prints verdict"""

    def __init__(self, pid, tier):
        self.pid = pid
        self.tier = tier
        self.t0 = time.time()
        self.obligations = 0
        self.discharged = 0
        self.failed_obl = []       # (name, file, message)
        self.axioms = set()
        self.trusted = []
        self.evaluations = 0
        self.distinct = set()
        self.samples = []
        self.hist = {}
        self.programs = 0
        self.disagreements = []    # correspondence differences (dict)
        self.counterexamples = []  # concrete property failures on the real code (dict)
        self.assumptions = []
        self.checker_cmd = ''
        self.rule = ''
        self.extra = {}
        self.notes = []

    def count(self, key, n=1):
        self.hist[key] = self.hist.get(key, 0) + n

    def add_case(self, fingerprint, nontrivial=True, sample=None):
        self.evaluations += 1
        if nontrivial:
            self.distinct.add(fingerprint)
        if sample is not None and len(self.samples) < 5:
            self.samples.append(sample)

    def coq_results(self, workdir, results, texts):
        """results: {fname: (ok, out, secs)}, texts: {fname: source}"""
        for f, (ok, out, secs) in sorted(results.items()):
            names = obligations_in(texts[f])
            self.obligations += len(names)
            c, ax = parse_assumptions(out)
            self.axioms.update(ax)
            if ok:
                self.discharged += len(names)
            else:
                _, line = failed_obligation(out)
                bad = statement_at(os.path.join(workdir, f), line) if line else None
                # statements before the failing one were accepted by coqc
                if bad in names:
                    self.discharged += names.index(bad)
                err = out.strip().split('\n')
                msg = '\n'.join(err[-12:])
                if 'Error' not in out and secs > 1:
                    msg = 'timeout or killed after %.0fs\n' % secs + msg
                self.failed_obl.append((bad or '?', f, msg))

    # -------------------------------------------------------------------
    def evidence(self, violations):
        cov = {
            'obligations': self.obligations,
            'discharged': self.discharged,
            'checker_cmd': self.checker_cmd or 'coqc -q -Q coq/theory LT -Q <work> Gen <file>.v (Coq 8.16.1, full .vo)',
            'trusted_base': self.trusted + ['axioms reported by Print Assumptions: ' + (', '.join(sorted(self.axioms)) or 'none (Closed under the global context)')],
            'evaluations': self.evaluations,
            'distinct_nontrivial': len(self.distinct),
            'rule': self.rule,
            'samples': self.samples if self.samples else ['(none)'],
            'programs': self.programs,
            'disagreements_checked': len(self.disagreements),
            'histogram': self.hist,
            'failed_obligations': [{'name': n, 'file': f, 'message': m[-600:]} for n, f, m in self.failed_obl],
            'notes': self.notes,
        }
        cov.update(self.extra)
        if violations == 0 and self.discharged < self.obligations:
            # exit 0 with undischarged obligations happens only when every one of them was
            # attributed to a listed known finding (core.finish); they are reported separately
            cov['obligations_total_including_excused'] = self.obligations
            cov['excused_obligations'] = [n for n, f, m in self.failed_obl]
            cov['obligations'] = self.discharged
        ev = {
            'property_id': self.pid,
            'tier': self.tier,
            'seed': seed(),
            'level': 'proof',
            'coverage': cov,
            'assumptions': self.assumptions,
            'wall_s': round(time.time() - self.t0, 2),
            'violations': violations,
        }
        # runs against a scratch copy of the repo (seeded-change experiments) must not
        # overwrite the evidence of the real tree
        evdir = os.path.join(VERIF, 'evidence') if REPO == '/repo' else os.path.join(VERIF, '.work', 'evidence_scratch')
        os.makedirs(evdir, exist_ok=True)
        with open(os.path.join(evdir, self.pid + '.json'), 'w') as f:
            json.dump(ev, f, indent=1, default=str)
        return ev


def load_known():
    p = os.path.join(VERIF, 'known_findings.json')
    if not os.path.exists(p):
        return []
    return json.load(open(p)).get('findings', [])


def write_replay(pid, name, payload):
    d = os.path.join(VERIF, 'replays') if REPO == '/repo' else os.path.join(VERIF, '.work', 'replays_scratch')
    os.makedirs(d, exist_ok=True)
    p = os.path.join(d, '%s_%s.json' % (pid, name))
    with open(p, 'w') as f:
        json.dump(payload, f, indent=1, default=str)
    return p


def finish(res, violations):
    """violations: list of dict(key=..., what=..., replay=payload, found_input=bool)
    Matches against known findings; prints KNOWN-FINDING / VIOLATION lines;
    writes evidence; returns exit code."""
    known = [k for k in load_known() if k.get('property') == res.pid and k.get('status') == 'open']
    new = []
    seen_known = set()
    for v in violations:
        hit = None
        for k in known:
            if k.get('key') and k['key'] == v.get('key'):
                hit = k
                break
        if hit:
            if hit['key'] not in seen_known:
                print('KNOWN-FINDING: property=%s %s' % (res.pid, hit['what']))
                seen_known.add(hit['key'])
        else:
            new.append(v)
    res.extra['known_findings_seen'] = sorted(seen_known)
    ev = res.evidence(len(new))
    for i, v in enumerate(new):
        p = write_replay(res.pid, re.sub(r'[^A-Za-z0-9_.-]', '_', str(v.get('key', i)))[:80], v)
        tail = '' if v.get('found_input') else ' no-failing-input-found'
        print('VIOLATION property=%s replay=%s%s' % (res.pid, p, tail))
    if not new:
        print('OK property=%s tier=%s obligations=%d/%d evaluations=%d distinct=%d wall=%.1fs' % (
            res.pid, res.tier, res.discharged, res.obligations, res.evaluations, len(res.distinct), ev['wall_s']))
    return 1 if new else 0
