"""C15 helpers for the circuit formulations (nodal, mesh, state space, MNA
equations): case generation, Coq literals for the models of props/C15model.v,
and the independent exact oracle (Fractions / Gaussian rationals only)."""
from fractions import Fraction
from vlib import core, netgen

LKIND = {'t': 'Kt', 'time': 'Ktime', 'super': 'Ksuper', 's': 'Ks', 'laplace': 'Klaplace', 'ivp': 'Kivp', 'dc': 'Kdc', 'ac': 'Kac',
         'transient': 'Ktransient'}
TGROUP = ('t', 'time', 'super')
SGROUP = ('s', 'laplace')
LCLS = {'R': 'LR', 'G': 'LG', 'L': 'LL', 'C': 'LC', 'Y': 'LY', 'Z': 'LZ', 'VoltageSourceBase': 'LV', 'CurrentSourceBase': 'LI'}


# ---- exact numbers: Fraction, or (re, im) pairs of Fractions for phasors ------------
class Num:
    """Gaussian rational"""
    __slots__ = ('re', 'im')

    def __init__(self, re=0, im=0):
        self.re = Fraction(re)
        self.im = Fraction(im)

    @staticmethod
    def of(x):
        if isinstance(x, Num):
            return x
        if x is None:
            return None
        if isinstance(x, (list, tuple)):
            return Num(Fraction(x[0]), Fraction(x[1]))
        return Num(Fraction(x), 0)

    def __add__(self, o):
        o = Num.of(o)
        return Num(self.re + o.re, self.im + o.im)
    __radd__ = __add__

    def __sub__(self, o):
        o = Num.of(o)
        return Num(self.re - o.re, self.im - o.im)

    def __neg__(self):
        return Num(-self.re, -self.im)

    def __mul__(self, o):
        o = Num.of(o)
        return Num(self.re * o.re - self.im * o.im, self.re * o.im + self.im * o.re)
    __rmul__ = __mul__

    def __truediv__(self, o):
        o = Num.of(o)
        n = o.re * o.re + o.im * o.im
        return self * Num(o.re / n, -o.im / n)

    def __eq__(self, o):
        o = Num.of(o)
        return self.re == o.re and self.im == o.im

    def __hash__(self):
        return hash((self.re, self.im))

    def is_zero(self):
        return self.re == 0 and self.im == 0

    def __repr__(self):
        return '%s%s' % (self.re, ('%+sj' % self.im) if self.im else '')


def solve_any(rows, rhs, nunk):
    """exact: some solution x of rows x = rhs (free unknowns = 0), or None when inconsistent"""
    M = [[Num.of(a) for a in r] + [Num.of(b)] for r, b in zip(rows, rhs)]
    piv = []
    r = 0
    for c in range(nunk):
        p = None
        for i in range(r, len(M)):
            if not M[i][c].is_zero():
                p = i
                break
        if p is None:
            continue
        M[r], M[p] = M[p], M[r]
        pv = M[r][c]
        M[r] = [x / pv for x in M[r]]
        for i in range(len(M)):
            if i != r and not M[i][c].is_zero():
                f = M[i][c]
                M[i] = [x - f * y for x, y in zip(M[i], M[r])]
        piv.append(c)
        r += 1
        if r == len(M):
            break
    for i in range(r, len(M)):
        if not M[i][nunk].is_zero():
            return None
    x = [Num(0)] * nunk
    for i, c in enumerate(piv):
        x[c] = M[i][nunk]
    return x


def kgroup(kind):
    return 't' if kind in TGROUP else ('s' if kind in SGROUP else 'other')


# ---- Coq literals --------------------------------------------------------------------
def lit(x, cplx):
    if x is None:
        x = ['0/1', '0/1'] if cplx else '0/1'
    if cplx:
        if not isinstance(x, (list, tuple)):
            x = [x, '0/1']
        a, b = Fraction(x[0]), Fraction(x[1])
        return '(qi (%d) %d (%d) %d)' % (a.numerator, a.denominator, b.numerator, b.denominator)
    return core.qc_lit(x)


def lcls_of(e):
    for k in e['mro']:
        if k in LCLS:
            return LCLS[k]
    return None


def lelt_lit(e, cplx):
    cl = lcls_of(e)
    lp = e['lp']
    n = e['n']
    if cl is None or n[0] is None or n[1] is None:
        return None
    F = 'QcIF' if cplx else 'QcF'
    return '(LE (K:=%s) %s (%d) (%d) (LP (K:=%s) %s %s %s %s %s %s %s %s %s))' % (
        F, cl, n[0], n[1], F, lit(lp.get('Z'), cplx), lit(lp.get('Zk'), cplx), lit(lp.get('L'), cplx), lit(lp.get('C'), cplx),
        lit(lp.get('i0'), cplx), lit(lp.get('v0'), cplx), 'true' if lp.get('ic') else 'false',
        lit(lp.get('srcV'), cplx), lit(lp.get('srcI'), cplx))


def netlist_lit(r, cplx):
    parts = []
    for e in r['elements']:
        l = lelt_lit(e, cplx)
        if l is None:
            return None
        parts.append(l)
    return '[%s]' % ';\n   '.join(parts)


def nodal_checks(ci, r):
    """[(label, definitions, coq bool expr)] for the nodal equations of one circuit"""
    out = []
    if 'nodal' not in r or r.get('kind') not in LKIND:
        return out
    cplx = r['kind'] == 'ac'
    F = 'QcIF' if cplx else 'QcF'
    eqb = 'qci_eqb' if cplx else 'qc_eqb'
    nl = netlist_lit(r, cplx)
    if nl is None:
        return out
    nd = r['nodal']
    nidx = r['node_index']
    pos = {e['name']: i for i, e in enumerate(r['elements'])}
    name = 'net_%d' % ci
    defn = 'Definition %s : list (lelt %s) :=\n  %s.' % (name, F, nl)
    s = lit(r.get('omega') if cplx else r['s0'], cplx) if False else None
    for q in nd['equations']:
        if q['error'] or any(v is None for v in q['vals']):
            continue
        node = q['label']
        pick = nd['picks'].get(node)
        probes = []
        for (env, env0), val in zip(nd['probes'], q['vals']):
            u = '[%s]' % '; '.join('(%d, %s)' % (nidx[k], lit(v, cplx)) for k, v in env.items())
            u0 = '[%s]' % '; '.join('(%d, %s)' % (nidx[k], lit(v, cplx)) for k, v in env0.items())
            probes.append('(%s, %s, %s)' % (u, u0, lit(val, cplx)))
        expr = 'check_node (K:=%s) %s %s %s %s (%d) %d%%nat [%s]' % (
            F, eqb, LKIND[r['kind']], lit(r['s0'], cplx), name, nidx[node], pos.get(pick, 0) if pick else 0, ';\n    '.join(probes))
        out.append(('nodal/%d/%s' % (ci, node), defn, expr))
    return out


def mesh_checks(ci, r):
    out = []
    if 'mesh' not in r or r.get('kind') not in LKIND:
        return out
    cplx = r['kind'] == 'ac'
    F = 'QcIF' if cplx else 'QcF'
    eqb = 'qci_eqb' if cplx else 'qc_eqb'
    nl = netlist_lit(r, cplx)
    if nl is None:
        return out
    ms = r['mesh']
    pos = {e['name']: i for i, e in enumerate(r['elements'])}
    name = 'net_%d' % ci
    defn = 'Definition %s : list (lelt %s) :=\n  %s.' % (name, F, nl)
    edges = '[%s]' % '; '.join('(%d, %d, %d%%nat)' % (u, v, pos[nm]) for u, v, nm in ms['edges'] if nm in pos)
    loops = '[%s]' % '; '.join('[%s]' % '; '.join('%d' % x for x in l) for l in ms['loops'])
    nm_ = len(ms['loops'])
    for q in ms['equations']:
        if q['error'] or any(v is None for v in q['vals']):
            continue
        probes = []
        for (env, env0), val in zip(ms['probes'], q['vals']):
            im = '[%s]' % '; '.join(lit(env[str(m)], cplx) for m in range(nm_))
            im0 = '[%s]' % '; '.join(lit(env0[str(m)], cplx) for m in range(nm_))
            probes.append('(%s, %s, %s)' % (im, im0, lit(val, cplx)))
        expr = 'check_mesh (K:=%s) %s %s %s %s %s %s %d%%nat [%s]' % (
            F, eqb, LKIND[r['kind']], lit(r['s0'], cplx), name, edges, loops, q['label'], ';\n    '.join(probes))
        out.append(('mesh/%d/%d' % (ci, q['label']), defn, expr))
    return out


# ---- oracle: substitute the reported solution into the printed equations -------------------
def affine_at(vals, keys, sol, sol0, tdom):
    """value of the printed (affine) residual at the assignment sol / sol0, from its values at the probes"""
    n = len(keys)
    c0 = Num.of(vals[0])
    tot = c0
    for i, k in enumerate(keys):
        tot = tot + (Num.of(vals[1 + i]) - c0) * sol[k]
    if tdom:
        for i, k in enumerate(keys):
            tot = tot + (Num.of(vals[1 + n + i]) - c0) * sol0[k]
    return tot


def probe_consistent(vals, keys, probes, tdom):
    """the random probe agrees with the affine map determined by the unit probes"""
    env, env0 = probes[-1]
    sol = {k: Num.of(env[str(k)]) for k in keys}
    sol0 = {k: Num.of(env0[str(k)]) for k in keys}
    return affine_at(vals, keys, sol, sol0, tdom) == Num.of(vals[-1])


def features_at_node(r, node):
    """structural features of the elements incident on `node` (used to fingerprint a failing equation)"""
    idx = r['node_index'][node]
    feats = []
    for e in r['elements']:
        cl = lcls_of(e)
        if idx not in e['n']:
            continue
        where = 'n1' if e['n'][0] == idx else 'n2'
        lp, mp = e['lp'], e['mna']
        if cl == 'LI':
            feats.append('I@' + where)
            if lp.get('srcI') is not None and mp.get('pIsc') is not None and Num.of(lp['srcI']) != Num.of(mp['pIsc']):
                feats.append('I.source-value')
        if cl in ('LL', 'LC') and lp.get('ic'):
            feats.append('%s.ic_%s@%s' % (cl[1], kgroup(r['kind']), where))
        if cl in ('LL', 'LC') and not lp.get('ic'):
            feats.append('%s.noic@%s' % (cl[1], where))
        if cl in ('LR', 'LG', 'LY', 'LZ'):
            feats.append('%s@%s' % (cl[1], where))
        if cl in ('LL', 'LC') and r['kind'] not in TGROUP:
            zk, pz = lp.get('Zk'), mp.get('pZ')
            if zk is not None and pz is not None and Num.of(zk) != Num.of(pz):
                feats.append('%s.Zkind' % cl[1])
    return feats


def nodal_oracle(r):
    """returns list of dict(node, residual, features, vsrc) for printed nodal equations violated by the reported solution"""
    bad = []
    stats = {'checked': 0, 'skipped': 0}
    if 'nodal' not in r:
        return bad, stats
    nd = r['nodal']
    keys = nd['unknowns']
    tdom = r['kind'] in TGROUP
    if any(r['refV'].get(k) is None for k in keys):
        stats['skipped'] += len(nd['equations'])
        return bad, stats
    sol = {k: Num.of(r['refV'][k]) for k in keys}
    sol0 = {k: Num(0) for k in keys}
    if tdom:
        # pre-initial node potentials: any assignment with v(a) - v(b) = v0 across every capacitor
        rows, rhs = [], []
        for e in r['elements']:
            if lcls_of(e) == 'LC':
                row = [0] * len(keys)
                for nd_, sg in ((e['nodes'][0], 1), (e['nodes'][1], -1)):
                    if nd_ in keys:
                        row[keys.index(nd_)] += sg
                rows.append(row)
                rhs.append(Fraction(e['lp']['v0']) if (e['lp'].get('ic') and e['lp'].get('v0') is not None) else 0)
        x = solve_any(rows, rhs, len(keys)) if rows else [Num(0)] * len(keys)
        if x is None:
            stats['skipped'] += len(nd['equations'])
            return bad, stats
        sol0 = {k: x[i] for i, k in enumerate(keys)}
    for q in nd['equations']:
        if q['error'] or any(v is None for v in q['vals']):
            stats['skipped'] += 1
            continue
        if not probe_consistent(q['vals'], keys, nd['probes'], tdom):
            stats['skipped'] += 1
            continue
        stats['checked'] += 1
        res = affine_at(q['vals'], keys, sol, sol0, tdom)
        if not res.is_zero():
            node = q['label']
            pick = nd['picks'].get(node)
            d = {'node': node, 'residual': repr(res), 'lhs': q['lhs'], 'rhs': q['rhs']}
            if pick:
                e = [x for x in r['elements'] if x['name'] == pick][0]
                sv, pv = e['lp'].get('srcV'), e['mna'].get('pVoc')
                d['vsrc'] = pick
                d['features'] = ['V.source-value:%s' % e['cls']] if (sv is not None and pv is not None and Num.of(sv) != Num.of(pv)) else []
            else:
                d['features'] = features_at_node(r, node)
            bad.append(d)
    return bad, stats


def true_incidence(r):
    """T[e][m] = how often mesh m runs through element e from its first to its second node (graph edges, incl. dummy nodes)"""
    ms = r['mesh']
    pos = {e['name']: i for i, e in enumerate(r['elements'])}
    T = {}
    for u, v, nm in ms['edges']:
        if nm not in pos:
            continue
        e = r['elements'][pos[nm]]
        n1, n2 = e['n']
        row = [0] * len(ms['loops'])
        for m, lp in enumerate(ms['loops']):
            cl = lp + [lp[0]]
            for a, b in zip(cl, cl[1:]):
                if {a, b} != {u, v} or a == b:
                    continue
                if u < 1000 and v < 1000:
                    row[m] += 1 if a == n1 else -1
                else:
                    real = u if u < 1000 else v
                    leaving_real = (a == real)
                    if real == n1:
                        row[m] += 1 if leaving_real else -1
                    else:
                        row[m] += -1 if leaving_real else 1
        T[nm] = row
    return T


def code_credit(r):
    """incidence of meshes on elements as LoopAnalysis._add_mesh_currents determines it: adjacency of the element's
    equipotential node names in the node list of every mesh (+1 along n1 -> n2); the property needs it to be the true incidence"""
    ms = r['mesh']
    out = {}
    for e in r['elements']:
        n1, n2 = e['n']
        row = []
        for lp in ms['loops']:
            cl = lp + [lp[0]]
            c = 0
            if n1 in cl and n2 in cl:
                for a, b in zip(cl, cl[1:]):
                    if (a, b) == (n1, n2):
                        c = 1
                        break
                    if (a, b) == (n2, n1):
                        c = -1
                        break
            row.append(c)
        out[e['name']] = row
    return out


def mesh_oracle(r):
    bad = []
    stats = {'checked': 0, 'skipped': 0}
    if 'mesh' not in r:
        return bad, stats
    ms = r['mesh']
    nm_ = len(ms['loops'])
    keys = list(range(nm_))
    tdom = r['kind'] in TGROUP
    T = true_incidence(r)
    names = [n for n in T]
    if any(r['refI'].get(n) is None for n in names):
        stats['skipped'] += len(ms['equations'])
        return bad, stats
    x = solve_any([T[n] for n in names], [Num.of(r['refI'][n]) for n in names], nm_)
    if x is None:
        stats['skipped'] += len(ms['equations'])
        stats['no_mesh_currents'] = 1
        return bad, stats
    sol = {m: x[m] for m in keys}
    sol0 = {m: Num(0) for m in keys}
    if tdom:
        rows, rhs = [], []
        for e in r['elements']:
            if lcls_of(e) == 'LL' and e['name'] in T:
                rows.append(T[e['name']])
                rhs.append(Fraction(e['lp']['i0']) if (e['lp'].get('ic') and e['lp'].get('i0') is not None) else 0)
        y = solve_any(rows, rhs, nm_) if rows else [Num(0)] * nm_
        if y is None:
            stats['skipped'] += len(ms['equations'])
            return bad, stats
        sol0 = {m: y[m] for m in keys}
    credit = code_credit(r)
    for q in ms['equations']:
        if q['error'] or any(v is None for v in q['vals']):
            stats['skipped'] += 1
            continue
        if not probe_consistent(q['vals'], keys, ms['probes'], tdom):
            stats['skipped'] += 1
            continue
        stats['checked'] += 1
        res = affine_at(q['vals'], keys, sol, sol0, tdom)
        if not res.is_zero():
            m = q['label']
            feats = []
            lp = ms['loops'][m]
            cl = lp + [lp[0]]
            pos = {e['name']: i for i, e in enumerate(r['elements'])}
            on_loop = []
            for a, b in zip(cl, cl[1:]):
                for u, v, nm in ms['edges']:
                    if {a, b} == {u, v} and nm in pos:
                        on_loop.append(r['elements'][pos[nm]])
            for e in on_loop:
                c = lcls_of(e)
                lp_, mp = e['lp'], e['mna']
                if c in ('LL', 'LC') and lp_.get('ic'):
                    feats.append('%s.ic_%s' % (c[1], kgroup(r['kind'])))
                if c in ('LL', 'LC') and not lp_.get('ic'):
                    feats.append('%s.noic' % c[1])
                if c in ('LR', 'LG', 'LY', 'LZ', 'LV'):
                    feats.append(c[1])
                if c in ('LL', 'LC') and r['kind'] not in TGROUP:
                    zk, pz = lp_.get('Zk'), mp.get('pZ')
                    if zk is not None and pz is not None and Num.of(zk) != Num.of(pz):
                        feats.append('%s.Zkind' % c[1])
                if c == 'LV':
                    sv, pv = lp_.get('srcV'), mp.get('pVoc')
                    if sv is not None and pv is not None and Num.of(sv) != Num.of(pv):
                        feats.append('V.source-value:%s' % e['cls'])
            if any(credit.get(e['name']) != T.get(e['name'], []) for e in on_loop if lcls_of(e) != 'LV'):
                feats.append('parallel-branches(dummy-node)' if any(n >= 1000 for l_ in ms['loops'] for n in l_) else 'mesh-current-crediting')
            if r['kind'] == 'ac':
                feats.append('ac-phasor')
            bad.append({'mesh': m, 'residual': repr(res), 'lhs': q['lhs'], 'rhs': q['rhs'], 'features': feats, 'loop': ms['loop_names'][m]})
    return bad, stats


# ---- generation ------------------------------------------------------------------------------
def fs(x):
    return netgen.fs(x)


def gen_circuit(rng, profile, for_mesh=False, parallel=False, size=None):
    """planar-ish netlist of R, L, C, V (and I unless for_mesh) with no dependent sources.
    profile: 'step' (causal, no ICs), 'ivp' (ICs), 'skw' (s-keyword sources), 'skw-ivp', 'ac', 'dc'"""
    base = {'step': 's', 'ivp': 'ivp', 'skw': 's', 'skw-ivp': 'ivp', 'ac': 's', 'dc': 'dc'}[profile]
    for _ in range(50):
        nl = netgen.gen_netlist(rng, base, size=size or rng.randint(2, 4), extras=False)
        lines = nl['lines']
        if for_mesh:
            lines = [l if not l.startswith('I') else 'R9%s %s %s %s' % (l.split()[0][1:], l.split()[1], l.split()[2], fs(netgen.val(rng))) for l in lines]
        if not any(l.startswith('V') or l.startswith('I') for l in lines):
            continue
        break
    out = []
    for l in lines:
        t = l.split()
        if t[0][0] in 'VI':
            amp = t[-1]
            if 'exp' in l:
                amp = l.split('{')[1].split('*')[0]
                if profile in ('step', 'ivp'):
                    out.append(l)
                    continue
            if profile in ('skw', 'skw-ivp'):
                l = '%s %s %s s {%s/(s+%d)}' % (t[0], t[1], t[2], amp.strip('{}'), rng.randint(1, 3))
            elif profile == 'ac':
                l = '%s %s %s ac %s 0 3' % (t[0], t[1], t[2], amp)
            elif profile in ('step', 'ivp'):
                if rng.random() < 0.3:
                    l = '%s %s %s {%s*u(t)}' % (t[0], t[1], t[2], amp.strip('{}'))
                else:
                    l = '%s %s %s step %s' % (t[0], t[1], t[2], amp)
        out.append(l)
    if parallel:
        cand = [l for l in out if l[0] in 'RLC']
        if cand:
            p = rng.choice(cand).split()
            a, b = (p[1], p[2]) if rng.random() < 0.5 else (p[2], p[1])
            k = rng.choice('RRC' if profile != 'dc' else 'RR')
            out.append('%s8 %s %s %s' % (k, a, b, fs(netgen.val(rng))))
    return out


# ---- state space of a circuit -------------------------------------------------------------------
def frac_mat(M):
    return [[Fraction(x) for x in row] for row in M]


def mat_ok(M):
    return M is not None and all(x is not None for row in M for x in row)


def det_frac(M):
    M = [list(r) for r in M]
    n = len(M)
    d = Fraction(1)
    for c in range(n):
        p = None
        for i in range(c, n):
            if M[i][c] != 0:
                p = i
                break
        if p is None:
            return Fraction(0)
        if p != c:
            M[c], M[p] = M[p], M[c]
            d = -d
        d *= M[c][c]
        for i in range(c + 1, n):
            f = M[i][c] / M[c][c]
            if f:
                M[i] = [x - f * y for x, y in zip(M[i], M[c])]
    return d


def ss_expected_subst(d, conv):
    """what the hand model (Gen.C15ss.subst with the regenerated conventions) says the substituted netlist line is"""
    nm, n = d['name'], d['nodes']
    if d['is_L']:
        return 'I_%s %s %s {%si_%s(t)}' % (nm, n[0], n[1], '-' if conv['L_src'] != '1' else '', nm)
    if d['is_C']:
        return 'V_%s %s %s {%sv_%s(t)}' % (nm, n[0], n[1], '-' if conv['C_src'] != '1' else '', nm)
    return None


def ss_checks(ci, r):
    """Coq items: extraction contract on Lcapy-solved excitations of the substituted circuit"""
    out = []
    ss = r.get('ss')
    if not ss or not all(mat_ok(ss.get(k)) for k in 'ABCD'):
        return out

    def m(M):
        return '[%s]' % '; '.join('[%s]' % '; '.join(core.qc_lit(x) for x in row) for row in M)

    def v(xs):
        return '[%s]' % '; '.join(core.qc_lit(x) for x in xs)
    for k, e in enumerate(ss.get('excitations', [])):
        if 'error' in e or any(x is None for x in e['dotx']):
            continue
        keep = [i for i, y_ in enumerate(e['y']) if y_ is not None]      # outputs with a reference (see worker)
        out.append(('ss/%d/excitation%d' % (ci, k), None,
                    'ss_exc_ok %s %s %s %s %s %s %s %s' % (m(ss['A']), m(ss['B']), m([ss['C'][i] for i in keep]), m([ss['D'][i] for i in keep]),
                                                         v(e['X']), v(e['U']), v(e['dotx']), v([e['y'][i] for i in keep]))))
    return out


def reactive_class(ss, yn):
    """'L' / 'C' when the output named yn is the branch current of an inductor / capacitor (components that the
    state-space maker replaces by sources), else None"""
    if not yn.startswith('i_'):
        return None
    for d in ss.get('ssnet', []):
        if d['name'] == yn[2:-3]:
            return 'L' if d['is_L'] else ('C' if d['is_C'] else None)
    return None


def ss_oracle(r, conv):
    """independent exact checks of the state-space model of one circuit.  returns (violations, contract failures, stats)"""
    bad, contract = [], []
    st = {'checked': 0, 'skipped': 0}
    ss = r.get('ss')
    if not ss:
        return bad, contract, st
    if not all(mat_ok(ss.get(k)) for k in 'ABCD') or any(x is None for x in ss['x0']):
        st['skipped'] += 1
        return bad, contract, st
    A, B, C, D = [frac_mat(ss[k]) for k in 'ABCD']
    n = len(A)
    s0 = Fraction(ss['points'][0])
    # extraction contract on the excitations Lcapy solved itself (also evaluated inside Coq): A X + B U = dx/dt, C X + D U = y
    extraction_bad = False
    dot_rows = []       # (state name, exactly negated?) of every row of A X + B U that differs from the physical derivative
    conv_ = r.get('convention', 'passive')
    for e in ss.get('excitations', []):
        if 'error' in e or any(x is None for x in e['dotx']):
            continue
        X_, U_ = [Fraction(x) for x in e['X']], [Fraction(x) for x in e['U']]
        for k in range(n):
            got_ = sum(A[k][j] * X_[j] for j in range(n)) + sum(B[k][j] * U_[j] for j in range(len(U_)))
            if got_ != Fraction(e['dotx'][k]):
                extraction_bad = True
                dot_rows.append((ss['x'][k], got_ == -Fraction(e['dotx'][k])))
        for k in range(len(C)):
            if e['y'][k] is None:
                continue
            if sum(C[k][j] * X_[j] for j in range(n)) + sum(D[k][j] * U_[j] for j in range(len(U_))) != Fraction(e['y'][k]):
                extraction_bad = True
    unit_neg = any(u.replace(' ', '').startswith('-') for u in ss.get('u', []))
    pairs = [frozenset(e['n']) for e in r.get('elements', []) if lcls_of(e) == 'LR']
    par_r = len(pairs) != len(set(pairs))
    cap_sign = bool(dot_rows) and conv_ != 'passive' and all(nm.startswith('v_') and neg for nm, neg in dot_rows)
    ext_key = (('ss:capacitor-derivative-sign:%s' % conv_) if cap_sign else
               ('ss:extraction:parallel-resistors(symbolic-solve)' if par_r else
                ('ss:extraction:negated-source-expression' if unit_neg else 'ss:extraction')))
    sign_bad = []
    # (1) substitution model
    for d in ss['ssnet']:
        exp = ss_expected_subst(d, conv)
        if exp is not None and d['ss'].split(';')[0].strip() != exp:
            contract.append({'what': 'substituted netlist line differs from the model', 'line': d['ss'], 'expected': exp})
    # (1b) x0 lists the initial value of the state variable named at the same position of x
    if ss.get('x_ic') and len(ss['x_ic']) == len(ss['x0']):
        for k, (xn, got, want) in enumerate(zip(ss['x'], ss['x0'], ss['x_ic'])):
            if want is not None:
                st['checked'] += 1
                if Fraction(got) != Fraction(want):
                    bad.append({'key': 'ss:x0-order', 'what': 'ss.x0[%d] = %s but the state at that position is %s whose initial value in the netlist is %s' % (k, got, xn, want)})
                    break
    # (1c) initial-state response: C (sI - A)^-1 x0 against the ivp analysis of the circuit with its sources zeroed
    if ss.get('yref0') and any(Fraction(x) != 0 for x in ss['x0']) and n:
        x0_ = [Fraction(x) for x in ss['x0']]
        rows_ = [[(s0 if i == j else 0) - A[i][j] for j in range(n)] for i in range(n)]
        if det_frac(rows_) != 0:
            X0 = [z.re for z in solve_any(rows_, x0_, n)]
            for k, (yn, yr) in enumerate(zip(ss['y'], ss['yref0'])):
                if yr is None:
                    continue
                y = sum(C[k][j] * X0[j] for j in range(n))
                st['checked'] += 1
                if y != Fraction(yr) and conv_ != 'passive' and reactive_class(ss, yn) and y == -Fraction(yr):
                    continue        # reported with the full response below (output sign of a substituted component)
                if y != Fraction(yr):
                    bad.append({'key': 'ss:initial-state-response:%s' % ('voltage' if yn.startswith('v_') else 'current'),
                                'what': 'initial-state response of %s: C (sI-A)^-1 x0 = %s at s = %s, circuit analysis with the sources zeroed gives %s' % (yn, y, s0, yr)})
                    break
    # (2) response: (sI - A) X = B U + x0, Y = C X + D U against circuit analysis
    if ss.get('U') is not None and all(u is not None for u in ss['U']):
        U = [Fraction(u) for u in ss['U']]
        x0 = [Fraction(x) for x in ss['x0']]
        rows = [[(s0 if i == j else 0) - A[i][j] for j in range(n)] for i in range(n)]
        rhs = [sum(B[i][j] * U[j] for j in range(len(U))) + x0[i] for i in range(n)]
        if n == 0:
            X = []
        elif det_frac(rows) == 0:
            X = None
        else:
            X = [z.re for z in solve_any(rows, rhs, n)]
        if X is None:
            st['skipped'] += 1
        else:
            for k, (yn, yr) in enumerate(zip(ss['y'], ss['yref'])):
                if yr is None:
                    st['skipped'] += 1
                    continue
                y = sum(C[k][j] * X[j] for j in range(n)) + sum(D[k][j] * U[j] for j in range(len(U)))
                st['checked'] += 1
                if y != Fraction(yr):
                    rc_ = reactive_class(ss, yn)
                    if conv_ != 'passive' and rc_ and y == -Fraction(yr):
                        sign_bad.append({'key': 'ss:output-current-sign:%s:%s' % (conv_, rc_),
                                         'what': 'under the %s current sign convention the state-space output %s is minus the current circuit analysis reports for that component (%s vs %s at s = %s)' % (conv_, yn, y, yr, s0)})
                        continue
                    bad.append({'key': 'ss:response:%s%s' % ('with-ic:' if any(x0) else '', 'voltage' if yn.startswith('v_') else 'current'),
                                'what': 'state-space output %s = %s at s = %s, circuit analysis gives %s' % (yn, y, s0, yr)})
            for k, (xn, xr) in enumerate(zip(ss['x'], ss.get('xref', []))):
                if xr is not None:
                    st['checked'] += 1
                    if X[k] != Fraction(xr):
                        bad.append({'key': 'ss:state:%s' % xn[0], 'what': 'state %s = %s at s = %s, circuit analysis gives %s' % (xn, X[k], s0, xr)})
            # (3) the class's own G and Phi (sympy inverse = oracle)
            if mat_ok(ss.get('G')) and len(U) > 0:
                G = frac_mat(ss['G'])
                for j in range(len(U)):
                    col = solve_any(rows, [B[i][j] for i in range(n)], n) if n else []
                    for k in range(len(C)):
                        g = sum(C[k][i] * col[i].re for i in range(n)) + D[k][j]
                        st['checked'] += 1
                        if g != G[k][j]:
                            contract.append({'what': 'ss.G[%d,%d] differs from C (sI-A)^-1 B + D computed exactly' % (k, j)})
            if mat_ok(ss.get('Phi')) and n:
                Phi = frac_mat(ss['Phi'])
                for i in range(n):
                    for j in range(n):
                        if sum(rows[i][k] * Phi[k][j] for k in range(n)) != (1 if i == j else 0):
                            contract.append({'what': '(sI - A) Phi != I'})
    # (4) characteristic polynomial: |sI - A| and the natural frequencies of the circuit (MNA determinant) agree up to a constant
    if ss.get('P') and all(p is not None for p in ss['P']):
        pts = [Fraction(p) for p in ss['points']]
        P = [Fraction(p) for p in ss['P']]
        for p, pv in zip(pts, P):
            mine = det_frac([[(p if i == j else 0) - A[i][j] for j in range(n)] for i in range(n)]) if n else Fraction(1)
            st['checked'] += 1
            if mine != pv:
                bad.append({'key': 'ss:characteristic-polynomial:det', 'what': 'characteristic_polynomial()(%s) = %s but |sI - A| = %s' % (p, pv, mine)})
        md = ss.get('mna_det')
        if md and all(x is not None for x in md) and ss.get('mna_kind') in ('ivp', 'laplace', 's', 'transient'):
            md = [Fraction(x) for x in md]
            st['checked'] += 1
            if any(P[0] * md[i] != P[i] * md[0] for i in range(len(pts))) or (P[0] == 0) != (md[0] == 0):
                bad.append({'key': 'ss:characteristic-polynomial:natural-frequencies',
                            'what': 'characteristic polynomial is not a constant multiple of the determinant of the MNA matrix (values %s vs %s)' % (P, md)})
    if sign_bad and not extraction_bad:
        seen_ = set()
        for b_ in sign_bad:
            if b_['key'] not in seen_:
                seen_.add(b_['key'])
                bad.append(b_)
    if extraction_bad:
        # one root cause: the matrices were not extracted correctly from the substituted circuit
        if bad:
            keep = [b for b in bad if b['key'] == 'ss:x0-order']
            bad = keep + [{'key': ext_key, 'what': 'A, B, C, D do not reproduce Lcapy\'s own solution of the substituted circuit; e.g. ' + [b for b in bad if b not in keep or True][0]['what']}]
        else:
            contract.append({'what': 'A, B, C, D do not reproduce an excitation of the substituted circuit'})
    return bad, contract, st


def mna_oracle(r):
    """the matrix equations shown by SystemEquations use the solver's A and Z, in the documented arrangement,
    and the reported solution satisfies them"""
    bad = []
    st = {'checked': 0}
    m = r.get('mna')
    if not m or 'forms' not in m or not mat_ok(m.get('A')) or any(z is None for z in m['Z']):
        return bad, st
    A = m['A']
    Z = [[z] for z in m['Z']]
    want = {'A y = b': (['A', 'y'], ['b']), 'b = A y': (['b'], ['A', 'y']), 'default': (['y'], ['Ainv', 'b']), 'Ainv b = y': (['Ainv', 'b'], ['y'])}

    def shape(side):
        out = []
        for f in side:
            if 'inv' in f:
                out.append('Ainv' if f['inv'] == A else 'inv?')
            elif 'names' in f:
                out.append('y')
            elif 'vals' in f:
                out.append('A' if f['vals'] == A else ('b' if f['vals'] == Z else 'vals?'))
        return out
    for form, (wl, wr) in want.items():
        f = m['forms'].get(form, {})
        if 'error' in f:
            bad.append({'key': 'mna:matrix_equations:%s' % f['error'].split(':')[0], 'what': 'matrix_equations(%r) raises %s' % (form, f['error'])})
            continue
        st['checked'] += 1
        if shape(f['lhs']) != wl or shape(f['rhs']) != wr:
            bad.append({'key': 'mna:matrix_equations:%s' % form.replace(' ', ''), 'what': 'matrix_equations(%r) shows %s = %s (A, b = the solver\'s matrices)' % (form, shape(f['lhs']), shape(f['rhs']))})
    # the reported solution satisfies the system that is shown
    names = None
    f = m['forms'].get('A y = b', {})
    if 'lhs' in f and len(f['lhs']) == 2 and 'names' in f['lhs'][1]:
        names = [row[0] for row in f['lhs'][1]['names']]
    if names and r.get('kind') in TGROUP + SGROUP + ('ivp',):
        x = []
        for nm in names:
            base = nm.split('(')[0]
            if base.startswith('Vn'):
                val = r.get('refV', {}).get(base[2:])
            elif base.startswith('I'):
                val = r.get('refI', {}).get(base[1:])
            else:
                val = None
            x.append(val)
        if all(v is not None and not isinstance(v, list) for v in x) and len(x) == len(A):
            xs = [Fraction(v) for v in x]
            for i, row in enumerate(A):
                st['checked'] += 1
                if sum(Fraction(a) * b for a, b in zip(row, xs)) != Fraction(m['Z'][i]):
                    bad.append({'key': 'mna:solution-does-not-satisfy-shown-system', 'what': 'row %d of the shown system A y = b is not satisfied by the reported voltages/currents' % i})
                    break
    return bad, st


def gen_cl_order(rng):
    """small ivp circuit with at least one L and one C, a capacitor listed before an inductor, distinct non-zero initial
    conditions (exercises the ordering of the state vector and of its initial values)"""
    vals = rng.sample([1, 2, 3, 4, 5, 6, 7], 4)
    ics = rng.sample([-5, -3, -2, 2, 3, 4, 6], 3)
    shape = rng.randint(0, 2)
    src = rng.choice(['V1 1 0 step %d' % rng.randint(1, 6), 'V1 1 0 {%d*u(t)}' % rng.randint(1, 6)])
    a, b = (('2', '0'), ('0', '2'))[rng.randint(0, 1)]
    if shape == 0:      # series R - L into a shunt C
        nl = [src, 'C1 %s %s %s %s' % (a, b, fs(Fraction(vals[0], 2)), ics[0]), 'R1 1 3 %d' % vals[1], 'L1 3 2 %d %s' % (vals[2], ics[1])]
    elif shape == 1:    # C and L to ground from two nodes
        nl = [src, 'R1 1 2 %d' % vals[1], 'C1 %s %s %d %s' % (a, b, vals[0], ics[0]), 'R2 2 3 %d' % vals[3], 'L1 3 0 %d %s' % (vals[2], ics[1])]
    else:               # two capacitors around an inductor, no source path for one of them
        nl = ['C1 1 0 %d %s' % (vals[0], ics[0]), 'R1 1 2 %d' % vals[1], 'L1 2 3 %d %s' % (vals[2], ics[1]), 'C2 3 0 %d %s' % (vals[3], ics[2]), 'R2 3 0 %d' % (vals[1] + 1)]
    return nl


def matrix_form_oracle(r, fam):
    """the matrix form A y = b that the analysis derives from its own equations is the same affine map as the printed
    equations: A y_p - b equals the printed residuals at every probe assignment y_p (exact)"""
    bad = []
    st = {'checked': 0}
    d = r.get(fam)
    if not d or 'matrix' not in d:
        return bad, st
    mf = d['matrix']
    if mf.get('time_domain'):
        return bad, st
    if 'error' in mf:
        bad.append({'key': '%s:matrix-form:%s' % (fam, mf['error'].split(':')[0]), 'what': '%s analysis: A / b raise or misbehave: %s' % (fam, mf['error'])})
        return bad, st
    A, b, yk = mf['A'], mf['b'], mf['ykeys']
    eqs = d['equations']
    if any(q['error'] or any(v is None for v in q['vals']) for q in eqs) or any(x is None for row in A for x in row) or any(x is None for x in b) \
            or any(k is None for k in yk) or len(A) != len(eqs):
        return bad, st
    for pi, (env, env0) in enumerate(d['probes']):
        yv = [Num.of(env[str(k)]) for k in yk]
        for i, q in enumerate(eqs):
            lhs = Num(0)
            for j in range(len(yv)):
                lhs = lhs + Num.of(A[i][j]) * yv[j]
            st['checked'] += 1
            if not (lhs - Num.of(b[i]) - Num.of(q['vals'][pi])).is_zero():
                bad.append({'key': '%s:matrix-form' % fam, 'what': '%s analysis: row %d of A y - b differs from the printed equation %s = %s at a probe assignment' % (fam, i, q['lhs'][:80], q['rhs'][:30])})
                return bad, st
    return bad, st


def printed_ss_oracle(pr, A, B, C, D, discrete):
    """state_equations() / output_equations() show  x' (or x[n+1]) = A x + B u  and  y = C x + D u  with the matrices of the
    model and the vectors in their places.  pr: worker dump (ss_printed); matrices as lists of 'p/q' strings"""
    bad = []
    if not pr:
        return bad
    xn, yn = pr['xn'], pr['yn']
    for nm, M1, M2, lhs_want in (('state', A, B, [('N:' if discrete else 'D:') + x for x in xn]), ('output', C, D, yn)):
        e = pr.get(nm, {})
        if 'error' in e:
            bad.append({'key': 'ss:printed-%s-equations:%s' % (nm, e['error'].split(':')[0]), 'what': '%s_equations() fails: %s' % (nm, e['error'])})
            continue
        ok = e['lhs'] == lhs_want
        want = []
        if len(xn) > 0:
            want.append((M1, xn))
        nu = len(M2[0]) if M2 and M2[0] else 0
        if nu > 0:
            want.append((M2, None))
        got = [(t['M'], t['v']) for t in e['terms']]
        if len(got) != len(want):
            ok = False
        else:
            for Mw, vw in want:
                hit = [g for g in got if g[0] == Mw and (vw is None or g[1] == vw)]
                if not hit:
                    ok = False
        if not ok:
            bad.append({'key': 'ss:printed-%s-equations' % nm, 'what': '%s_equations() does not show the model matrices / vectors in their places: %s' % (nm, str(e)[:200])})
    return bad
