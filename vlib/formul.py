"""C15 helpers for the circuit formulations (nodal, mesh, state space, MNA
equations): case generation, Coq literals for the models of props/C15model.v,
and the independent exact oracle (Fractions / Gaussian rationals only)."""
from fractions import Fraction
from vlib import core, netgen

LKIND = {'t': 'Kt', 'time': 'Ktime', 'super': 'Ksuper', 's': 'Ks', 'laplace': 'Klaplace', 'ivp': 'Kivp', 'dc': 'Kdc', 'ac': 'Kac',
         'transient': 'Ktransient'}
TGROUP = ('t', 'time', 'super')
SGROUP = ('s', 'laplace')
LCLS = {'R': 'LR', 'G': 'LG', 'L': 'LL', 'C': 'LC', 'Y': 'LY', 'Z': 'LZ', 'VoltageSourceBase': 'LV', 'CurrentSourceBase': 'LI'}


# ---- exact numbers: Fraction, or (re, im) pairs of Fractions for phasors ------------
class Num:
    """Gaussian rational"""
    __slots__ = ('re', 'im')

    def __init__(self, re=0, im=0):
        self.re = Fraction(re)
        self.im = Fraction(im)

    @staticmethod
    def of(x):
        if isinstance(x, Num):
            return x
        if x is None:
            return None
        if isinstance(x, (list, tuple)):
            return Num(Fraction(x[0]), Fraction(x[1]))
        return Num(Fraction(x), 0)

    def __add__(self, o):
        o = Num.of(o)
        return Num(self.re + o.re, self.im + o.im)
    __radd__ = __add__

    def __sub__(self, o):
        o = Num.of(o)
        return Num(self.re - o.re, self.im - o.im)

    def __neg__(self):
        return Num(-self.re, -self.im)

    def __mul__(self, o):
        o = Num.of(o)
        return Num(self.re * o.re - self.im * o.im, self.re * o.im + self.im * o.re)
    __rmul__ = __mul__

    def __truediv__(self, o):
        o = Num.of(o)
        n = o.re * o.re + o.im * o.im
        return self * Num(o.re / n, -o.im / n)

    def __eq__(self, o):
        o = Num.of(o)
        return self.re == o.re and self.im == o.im

    def __hash__(self):
        return hash((self.re, self.im))

    def is_zero(self):
        return self.re == 0 and self.im == 0

    def __repr__(self):
        return '%s%s' % (self.re, ('%+sj' % self.im) if self.im else '')


def solve_any(rows, rhs, nunk):
    """exact: some solution x of rows x = rhs (free unknowns = 0), or None when inconsistent"""
    M = [[Num.of(a) for a in r] + [Num.of(b)] for r, b in zip(rows, rhs)]
    piv = []
    r = 0
    for c in range(nunk):
        p = None
        for i in range(r, len(M)):
            if not M[i][c].is_zero():
                p = i
                break
        if p is None:
            continue
        M[r], M[p] = M[p], M[r]
        pv = M[r][c]
        M[r] = [x / pv for x in M[r]]
        for i in range(len(M)):
            if i != r and not M[i][c].is_zero():
                f = M[i][c]
                M[i] = [x - f * y for x, y in zip(M[i], M[r])]
        piv.append(c)
        r += 1
        if r == len(M):
            break
    for i in range(r, len(M)):
        if not M[i][nunk].is_zero():
            return None
    x = [Num(0)] * nunk
    for i, c in enumerate(piv):
        x[c] = M[i][nunk]
    return x


# ---- Coq literals --------------------------------------------------------------------
def lit(x, cplx):
    if x is None:
        x = ['0/1', '0/1'] if cplx else '0/1'
    if cplx:
        if not isinstance(x, (list, tuple)):
            x = [x, '0/1']
        a, b = Fraction(x[0]), Fraction(x[1])
        return '(qi (%d) %d (%d) %d)' % (a.numerator, a.denominator, b.numerator, b.denominator)
    return core.qc_lit(x)


def lcls_of(e):
    for k in e['mro']:
        if k in LCLS:
            return LCLS[k]
    return None


def lelt_lit(e, cplx):
    cl = lcls_of(e)
    lp = e['lp']
    n = e['n']
    if cl is None or n[0] is None or n[1] is None:
        return None
    F = 'QcIF' if cplx else 'QcF'
    return '(LE (K:=%s) %s (%d) (%d) (LP (K:=%s) %s %s %s %s %s %s %s %s %s))' % (
        F, cl, n[0], n[1], F, lit(lp.get('Z'), cplx), lit(lp.get('Zk'), cplx), lit(lp.get('L'), cplx), lit(lp.get('C'), cplx),
        lit(lp.get('i0'), cplx), lit(lp.get('v0'), cplx), 'true' if lp.get('ic') else 'false',
        lit(lp.get('srcV'), cplx), lit(lp.get('srcI'), cplx))


def netlist_lit(r, cplx):
    parts = []
    for e in r['elements']:
        l = lelt_lit(e, cplx)
        if l is None:
            return None
        parts.append(l)
    return '[%s]' % ';\n   '.join(parts)


def nodal_checks(ci, r):
    """[(label, definitions, coq bool expr)] for the nodal equations of one circuit"""
    out = []
    if 'nodal' not in r or r.get('kind') not in LKIND:
        return out
    cplx = r['kind'] == 'ac'
    F = 'QcIF' if cplx else 'QcF'
    eqb = 'qci_eqb' if cplx else 'qc_eqb'
    nl = netlist_lit(r, cplx)
    if nl is None:
        return out
    nd = r['nodal']
    nidx = r['node_index']
    pos = {e['name']: i for i, e in enumerate(r['elements'])}
    name = 'net_%d' % ci
    defn = 'Definition %s : list (lelt %s) :=\n  %s.' % (name, F, nl)
    s = lit(r.get('omega') if cplx else r['s0'], cplx) if False else None
    for q in nd['equations']:
        if q['error'] or any(v is None for v in q['vals']):
            continue
        node = q['label']
        pick = nd['picks'].get(node)
        probes = []
        for (env, env0), val in zip(nd['probes'], q['vals']):
            u = '[%s]' % '; '.join('(%d, %s)' % (nidx[k], lit(v, cplx)) for k, v in env.items())
            u0 = '[%s]' % '; '.join('(%d, %s)' % (nidx[k], lit(v, cplx)) for k, v in env0.items())
            probes.append('(%s, %s, %s)' % (u, u0, lit(val, cplx)))
        expr = 'check_node (K:=%s) %s %s %s %s (%d) %d%%nat [%s]' % (
            F, eqb, LKIND[r['kind']], lit(r['s0'], cplx), name, nidx[node], pos.get(pick, 0) if pick else 0, ';\n    '.join(probes))
        out.append(('nodal/%d/%s' % (ci, node), defn, expr))
    return out


def mesh_checks(ci, r):
    out = []
    if 'mesh' not in r or r.get('kind') not in LKIND:
        return out
    cplx = r['kind'] == 'ac'
    F = 'QcIF' if cplx else 'QcF'
    eqb = 'qci_eqb' if cplx else 'qc_eqb'
    nl = netlist_lit(r, cplx)
    if nl is None:
        return out
    ms = r['mesh']
    pos = {e['name']: i for i, e in enumerate(r['elements'])}
    name = 'net_%d' % ci
    defn = 'Definition %s : list (lelt %s) :=\n  %s.' % (name, F, nl)
    edges = '[%s]' % '; '.join('(%d, %d, %d%%nat)' % (u, v, pos[nm]) for u, v, nm in ms['edges'] if nm in pos)
    loops = '[%s]' % '; '.join('[%s]' % '; '.join('%d' % x for x in l) for l in ms['loops'])
    nm_ = len(ms['loops'])
    for q in ms['equations']:
        if q['error'] or any(v is None for v in q['vals']):
            continue
        probes = []
        for (env, env0), val in zip(ms['probes'], q['vals']):
            im = '[%s]' % '; '.join(lit(env[str(m)], cplx) for m in range(nm_))
            im0 = '[%s]' % '; '.join(lit(env0[str(m)], cplx) for m in range(nm_))
            probes.append('(%s, %s, %s)' % (im, im0, lit(val, cplx)))
        expr = 'check_mesh (K:=%s) %s %s %s %s %s %s %d%%nat [%s]' % (
            F, eqb, LKIND[r['kind']], lit(r['s0'], cplx), name, edges, loops, q['label'], ';\n    '.join(probes))
        out.append(('mesh/%d/%d' % (ci, q['label']), defn, expr))
    return out


# ---- oracle: substitute the reported solution into the printed equations -------------------
def affine_at(vals, keys, sol, sol0, tdom):
    """value of the printed (affine) residual at the assignment sol / sol0, from its values at the probes"""
    n = len(keys)
    c0 = Num.of(vals[0])
    tot = c0
    for i, k in enumerate(keys):
        tot = tot + (Num.of(vals[1 + i]) - c0) * sol[k]
    if tdom:
        for i, k in enumerate(keys):
            tot = tot + (Num.of(vals[1 + n + i]) - c0) * sol0[k]
    return tot


def probe_consistent(vals, keys, probes, tdom):
    """the random probe agrees with the affine map determined by the unit probes"""
    env, env0 = probes[-1]
    sol = {k: Num.of(env[str(k)]) for k in keys}
    sol0 = {k: Num.of(env0[str(k)]) for k in keys}
    return affine_at(vals, keys, sol, sol0, tdom) == Num.of(vals[-1])


def features_at_node(r, node):
    """structural features of the elements incident on `node` (used to fingerprint a failing equation)"""
    idx = r['node_index'][node]
    feats = []
    for e in r['elements']:
        cl = lcls_of(e)
        if idx not in e['n']:
            continue
        where = 'n1' if e['n'][0] == idx else 'n2'
        lp, mp = e['lp'], e['mna']
        if cl == 'LI':
            feats.append('I@' + where)
            if lp.get('srcI') is not None and mp.get('pIsc') is not None and Num.of(lp['srcI']) != Num.of(mp['pIsc']):
                feats.append('I.source-value')
        if cl in ('LL', 'LC') and lp.get('ic'):
            feats.append('%s.ic@%s' % (cl[1], where))
        if cl in ('LL', 'LC') and r['kind'] not in TGROUP:
            zk, pz = lp.get('Zk'), mp.get('pZ')
            if zk is None or pz is None or Num.of(zk) != Num.of(pz):
                feats.append('%s.Zkind' % cl[1])
    return feats


def nodal_oracle(r):
    """returns list of dict(node, residual, features, vsrc) for printed nodal equations violated by the reported solution"""
    bad = []
    stats = {'checked': 0, 'skipped': 0}
    if 'nodal' not in r:
        return bad, stats
    nd = r['nodal']
    keys = nd['unknowns']
    tdom = r['kind'] in TGROUP
    if any(r['refV'].get(k) is None for k in keys):
        stats['skipped'] += len(nd['equations'])
        return bad, stats
    sol = {k: Num.of(r['refV'][k]) for k in keys}
    sol0 = {k: Num(0) for k in keys}
    if tdom:
        # pre-initial node potentials: any assignment with v(a) - v(b) = v0 across every capacitor
        rows, rhs = [], []
        for e in r['elements']:
            if lcls_of(e) == 'LC':
                row = [0] * len(keys)
                for nd_, sg in ((e['nodes'][0], 1), (e['nodes'][1], -1)):
                    if nd_ in keys:
                        row[keys.index(nd_)] += sg
                rows.append(row)
                rhs.append(Fraction(e['lp']['v0']) if (e['lp'].get('ic') and e['lp'].get('v0') is not None) else 0)
        x = solve_any(rows, rhs, len(keys)) if rows else [Num(0)] * len(keys)
        if x is None:
            stats['skipped'] += len(nd['equations'])
            return bad, stats
        sol0 = {k: x[i] for i, k in enumerate(keys)}
    for q in nd['equations']:
        if q['error'] or any(v is None for v in q['vals']):
            stats['skipped'] += 1
            continue
        if not probe_consistent(q['vals'], keys, nd['probes'], tdom):
            stats['skipped'] += 1
            continue
        stats['checked'] += 1
        res = affine_at(q['vals'], keys, sol, sol0, tdom)
        if not res.is_zero():
            node = q['label']
            pick = nd['picks'].get(node)
            d = {'node': node, 'residual': repr(res), 'lhs': q['lhs'], 'rhs': q['rhs']}
            if pick:
                e = [x for x in r['elements'] if x['name'] == pick][0]
                sv, pv = e['lp'].get('srcV'), e['mna'].get('pVoc')
                d['vsrc'] = pick
                d['features'] = ['V.source-value:%s' % e['cls']] if (sv is None or pv is None or Num.of(sv) != Num.of(pv)) else []
            else:
                d['features'] = features_at_node(r, node)
            bad.append(d)
    return bad, stats


def true_incidence(r):
    """T[e][m] = how often mesh m runs through element e from its first to its second node (graph edges, incl. dummy nodes)"""
    ms = r['mesh']
    pos = {e['name']: i for i, e in enumerate(r['elements'])}
    T = {}
    for u, v, nm in ms['edges']:
        if nm not in pos:
            continue
        e = r['elements'][pos[nm]]
        n1, n2 = e['n']
        row = [0] * len(ms['loops'])
        for m, lp in enumerate(ms['loops']):
            cl = lp + [lp[0]]
            for a, b in zip(cl, cl[1:]):
                if {a, b} != {u, v} or a == b:
                    continue
                if u < 1000 and v < 1000:
                    row[m] += 1 if a == n1 else -1
                else:
                    real = u if u < 1000 else v
                    leaving_real = (a == real)
                    if real == n1:
                        row[m] += 1 if leaving_real else -1
                    else:
                        row[m] += -1 if leaving_real else 1
        T[nm] = row
    return T


def code_credit(r):
    """what _add_mesh_currents credits to each element, per mesh (mirrors the code: adjacency of the element's
    equipotential node names in the node list of every mesh); the property needs it to be minus the true incidence"""
    ms = r['mesh']
    out = {}
    for e in r['elements']:
        n1, n2 = e['n']
        row = []
        for lp in ms['loops']:
            cl = lp + [lp[0]]
            c = 0
            if n1 in cl and n2 in cl:
                for a, b in zip(cl, cl[1:]):
                    if (a, b) == (n1, n2):
                        c = -1
                        break
                    if (a, b) == (n2, n1):
                        c = 1
                        break
            row.append(c)
        out[e['name']] = row
    return out


def mesh_oracle(r):
    bad = []
    stats = {'checked': 0, 'skipped': 0}
    if 'mesh' not in r:
        return bad, stats
    ms = r['mesh']
    nm_ = len(ms['loops'])
    keys = list(range(nm_))
    tdom = r['kind'] in TGROUP
    T = true_incidence(r)
    names = [n for n in T]
    if any(r['refI'].get(n) is None for n in names):
        stats['skipped'] += len(ms['equations'])
        return bad, stats
    x = solve_any([T[n] for n in names], [Num.of(r['refI'][n]) for n in names], nm_)
    if x is None:
        stats['skipped'] += len(ms['equations'])
        stats['no_mesh_currents'] = 1
        return bad, stats
    sol = {m: x[m] for m in keys}
    sol0 = {m: Num(0) for m in keys}
    if tdom:
        rows, rhs = [], []
        for e in r['elements']:
            if lcls_of(e) == 'LL' and e['name'] in T:
                rows.append(T[e['name']])
                rhs.append(Fraction(e['lp']['i0']) if (e['lp'].get('ic') and e['lp'].get('i0') is not None) else 0)
        y = solve_any(rows, rhs, nm_) if rows else [Num(0)] * nm_
        if y is None:
            stats['skipped'] += len(ms['equations'])
            return bad, stats
        sol0 = {m: y[m] for m in keys}
    credit = code_credit(r)
    for q in ms['equations']:
        if q['error'] or any(v is None for v in q['vals']):
            stats['skipped'] += 1
            continue
        if not probe_consistent(q['vals'], keys, ms['probes'], tdom):
            stats['skipped'] += 1
            continue
        stats['checked'] += 1
        res = affine_at(q['vals'], keys, sol, sol0, tdom)
        if not res.is_zero():
            m = q['label']
            feats = []
            lp = ms['loops'][m]
            cl = lp + [lp[0]]
            pos = {e['name']: i for i, e in enumerate(r['elements'])}
            on_loop = []
            for a, b in zip(cl, cl[1:]):
                for u, v, nm in ms['edges']:
                    if {a, b} == {u, v} and nm in pos:
                        on_loop.append(r['elements'][pos[nm]])
            for e in on_loop:
                c = lcls_of(e)
                lp_, mp = e['lp'], e['mna']
                if c in ('LL', 'LC') and lp_.get('ic'):
                    feats.append('%s.ic' % c[1])
                if c in ('LL', 'LC') and r['kind'] not in TGROUP:
                    zk, pz = lp_.get('Zk'), mp.get('pZ')
                    if zk is None or pz is None or Num.of(zk) != Num.of(pz):
                        feats.append('%s.Zkind' % c[1])
                if c == 'LV':
                    sv, pv = lp_.get('srcV'), mp.get('pVoc')
                    if sv is None or pv is None or Num.of(sv) != Num.of(pv):
                        feats.append('V.source-value:%s' % e['cls'])
            if any(credit.get(e['name']) != [-x for x in T.get(e['name'], [])] for e in on_loop if lcls_of(e) != 'LV'):
                feats.append('mesh-current-crediting')
            bad.append({'mesh': m, 'residual': repr(res), 'lhs': q['lhs'], 'rhs': q['rhs'], 'features': feats, 'loop': ms['loop_names'][m]})
    return bad, stats


# ---- generation ------------------------------------------------------------------------------
def fs(x):
    return netgen.fs(x)


def gen_circuit(rng, profile, for_mesh=False, parallel=False, size=None):
    """planar-ish netlist of R, L, C, V (and I unless for_mesh) with no dependent sources.
    profile: 'step' (causal, no ICs), 'ivp' (ICs), 'skw' (s-keyword sources), 'skw-ivp', 'ac', 'dc'"""
    base = {'step': 's', 'ivp': 'ivp', 'skw': 's', 'skw-ivp': 'ivp', 'ac': 's', 'dc': 'dc'}[profile]
    for _ in range(50):
        nl = netgen.gen_netlist(rng, base, size=size or rng.randint(2, 4), extras=False)
        lines = nl['lines']
        if for_mesh:
            lines = [l if not l.startswith('I') else 'R9%s %s %s %s' % (l.split()[0][1:], l.split()[1], l.split()[2], fs(netgen.val(rng))) for l in lines]
        if not any(l.startswith('V') or l.startswith('I') for l in lines):
            continue
        break
    out = []
    for l in lines:
        t = l.split()
        if t[0][0] in 'VI':
            amp = t[-1]
            if 'exp' in l:
                amp = l.split('{')[1].split('*')[0]
                if profile in ('step', 'ivp'):
                    out.append(l)
                    continue
            if profile in ('skw', 'skw-ivp'):
                l = '%s %s %s s {%s/(s+%d)}' % (t[0], t[1], t[2], amp.strip('{}'), rng.randint(1, 3))
            elif profile == 'ac':
                l = '%s %s %s ac %s 0 3' % (t[0], t[1], t[2], amp)
            elif profile in ('step', 'ivp'):
                if rng.random() < 0.3:
                    l = '%s %s %s {%s*u(t)}' % (t[0], t[1], t[2], amp.strip('{}'))
                else:
                    l = '%s %s %s step %s' % (t[0], t[1], t[2], amp)
        out.append(l)
    if parallel:
        cand = [l for l in out if l[0] in 'RLC']
        if cand:
            p = rng.choice(cand).split()
            a, b = (p[1], p[2]) if rng.random() < 0.5 else (p[2], p[1])
            k = rng.choice('RRC' if profile != 'dc' else 'RR')
            out.append('%s8 %s %s %s' % (k, a, b, fs(netgen.val(rng))))
    return out
