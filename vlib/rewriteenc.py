"""Encoding of C05 worker results (tools/impl_rewrite.py) as Coq terms of
LT.RewriteModel / LT.RewriteCorr, the contract witness for in_series answers
(an independent path search on the raw netlist), and the parser for the
result lists printed by the generated cases_*.v files."""
import re
from fractions import Fraction

ETY = {'R': 'TR', 'NR': 'TNR', 'C': 'TC', 'L': 'TL', 'V': 'TV', 'I': 'TI', 'Z': 'TZ', 'Y': 'TY', 'W': 'TW', 'O': 'TO'}
KW = {'': 'KwNone', 'dc': 'KwDc', 'step': 'KwStep', 's': 'KwS', 'ac': 'KwAc'}
NEW_RE = re.compile(r'^([RCLVIZY])t(\d+)$')
VARIANTS = ['Z', 'V', 'N', 'Vn']


def qc(x):
    x = Fraction(x)
    return '(qc (%d) %d)' % (x.numerator, x.denominator)


def nlist(l):
    return '[%s]' % '; '.join(l)


def qci(x):
    """Coq literal in Qc[i] of 'a/b' or 'C:a/b:c/d'"""
    x = str(x)
    if x.startswith('C:'):
        _, re_, im_ = x.split(':')
    else:
        re_, im_ = x, '0'
    re_, im_ = Fraction(re_), Fraction(im_)
    return '(qi (%d) %d (%d) %d)' % (re_.numerator, re_.denominator, im_.numerator, im_.denominator)


class Enc:
    cplx = False

    def num(self, x):
        return qci(x) if self.cplx else qc(x)

    def __init__(self, orig):
        self.name_id = {e['name']: i for i, e in enumerate(orig)}
        self.node_id = {'0': 0}
        self.bad = None
        for e in orig:
            for n in e['nodes']:
                self.node(n)

    def node(self, n):
        if n not in self.node_id:
            self.node_id[n] = len(self.node_id) + (0 if '0' in self.node_id else 1)
        return self.node_id[n]

    def name(self, nm):
        if nm in self.name_id:
            return '(NOrig %d)' % self.name_id[nm]
        m = NEW_RE.match(nm)
        if m:
            return '(NNew %s %d)' % (ETY[m.group(1)], int(m.group(2)))
        if nm.startswith('Wanon') or nm == 'W':
            return '(NWire 0)'
        for p in (3, 0, 1, 2):
            pre = VARIANTS[p]
            if nm.startswith(pre) and nm[len(pre):] in self.name_id:
                return '(NVar %d %d)' % (p, self.name_id[nm[len(pre):]])
        self.bad = 'unmapped name ' + nm
        return '(NOrig 9999)'

    def kw(self, e):
        k = e.get('kw', '')
        if e['type'] in ('V', 'I') and k == '' and e['args'] and e['args'][0] is not None and re.search(r'(?<![A-Za-z_])s(?![A-Za-z_0-9])', e['args'][0]):
            return 'KwS'
        if k == 'noise':
            return 'KwOther'
        return KW.get(k, 'KwOther')

    def elem(self, e):
        ty = ETY.get(e['type'], 'TX')
        vals = e.get('vals') or []
        v = vals[0] if vals and vals[0] is not None else None
        if ty in ('TW', 'TO', 'TX'):
            v = '0'
        elif v is None:
            if not (ty == 'TV' and e.get('kw') == 'noise'):
                self.bad = 'no rational value for ' + e['name']
            v = '0'
        ic = 'None'
        if ty in ('TC', 'TL') and e.get('has_ic'):
            if len(vals) > 1 and vals[1] is not None and (self.cplx or not str(vals[1]).startswith('C:')):
                ic = '(Some %s)' % self.num(vals[1])
            else:
                self.bad = 'no rational initial condition for ' + e['name']
        if not self.cplx and str(v).startswith('C:'):
            self.bad = 'complex value for ' + e['name']
            v = '0'
        return '(%s %s %s %s %s %s %s)' % ('ElemI' if self.cplx else 'ElemQ', '(NWire 0)' if ty == 'TW' else self.name(e['name']), ty,
                                           nlist(str(self.node(n)) for n in e['nodes']),
                                           self.kw(e) if ty in ('TV', 'TI') else 'KwNone', self.num(v), ic)

    def net(self, elems):
        out = []
        k = 0
        for e in elems:
            t = self.elem(e)
            if e['type'] == 'W':
                t = t.replace('(NWire 0)', '(NWire %d)' % k, 1)
                k += 1
            out.append(t)
        return '[%s]' % ';\n   '.join(out)

    def names(self, l):
        return nlist(self.name(x) for x in l)


# ---- contract witness for an in_series answer ---------------------------------
def parse_lines(text):
    """(name, type-guess, nodes) of a netlist text; only the first two node
    tokens of two-terminal components are needed here"""
    out = []
    for ln in text.split('\n'):
        ln = ln.split(';')[0].strip()
        if not ln:
            continue
        t = ln.split()
        out.append((t[0], t[1:3]))
    return out


def find_path(stage_elems, aset, classes=False):
    """stage_elems: list of dict(name, type, nodes) of the netlist the stage ran
    on.  classes=False: walk on node names, wires are ordinary edges that may be
    used to connect the members; classes=True: walk on equipotential classes,
    members only.  Returns (start node, [names in path order]) such that the
    members of aset are traversed by one trail, or None."""
    from vlib.rewritegen import UF
    uf = UF()
    if classes:
        for e in stage_elems:
            for n in e['nodes']:
                uf.find(n)
            if e['type'] == 'W' and len(e['nodes']) == 2:
                uf.union(e['nodes'][0], e['nodes'][1])
    f = (lambda n: uf.find(n)) if classes else (lambda n: n)
    two = {e['name']: (f(e['nodes'][0]), f(e['nodes'][1])) for e in stage_elems if len(e['nodes']) == 2}
    members = [a for a in aset if a in two]
    if len(members) != len(aset):
        return None
    wires = [] if classes else [e['name'] for e in stage_elems if e['type'] == 'W' and len(e['nodes']) == 2]
    edges = members + wires
    inc = {}
    for nm in edges:
        for n in two[nm]:
            inc.setdefault(n, []).append(nm)
    mset = set(members)
    mdeg = {}
    for nm in members:
        for n in two[nm]:
            mdeg[n] = mdeg.get(n, 0) + 1
    tdeg = {}
    for e in stage_elems:
        if e['type'] == 'W' and classes:
            continue
        for n in e['nodes']:
            tdeg[f(n)] = tdeg.get(f(n), 0) + 1
    # true ends of the chain first (a node where something else is attached or
    # where the chain stops); in a closed loop the reference node
    cand = sorted(mdeg, key=lambda n: (tdeg.get(n, 0) == 2 and mdeg[n] == 2, n != '0', mdeg[n] != 1, n))
    for n in sorted(inc):
        if n not in cand:
            cand.append(n)
    budget = [20000]

    def dfs(node, used, path, covered):
        if covered == len(members):
            return list(path)
        budget[0] -= 1
        if budget[0] < 0:
            return None
        nxt = sorted(inc.get(node, []), key=lambda x: (x not in mset, x))
        for nm in nxt:
            if nm in used:
                continue
            a, b = two[nm]
            if a == b:
                continue
            other = b if a == node else a
            used.add(nm)
            path.append(nm)
            r = dfs(other, used, path, covered + (1 if nm in mset else 0))
            if r is not None:
                return r
            path.pop()
            used.discard(nm)
        return None
    for st in cand:
        r = dfs(st, set(), [], 0)
        if r is not None:
            while r and r[0] not in mset:       # drop leading wires
                a, b = two[r[0]]
                st = b if a == st else a
                r = r[1:]
            return st, r
    return None


def build_trace(enc, log):
    """log: worker log.  parse_stage(text) -> list of element dicts (name, type,
    nodes) for a stage netlist text.  Returns Coq term `list stage`."""
    stages = []
    i = 0
    cur = None
    pending_text = None
    while i < len(log):
        ent = log[i]
        if ent[0] == 'stage':
            pending_text = ent[2]
        elif ent[0] in ('in_series', 'in_parallel'):
            # entries come in pairs (redundant-check call, combine call); the
            # second one of the pair is the list the stage iterates over
            if cur is not None and cur['kind'] == ent[0] and cur['half']:
                cur['half'] = False
                cur['text'] = pending_text
                cur['asets'] = [{'names': a, 'subs': None} for a in ent[1]]
                cur['next'] = 0
            else:
                cur = {'kind': ent[0], 'half': True, 'asets': [], 'text': pending_text, 'next': 0}
                stages.append(cur)
        elif ent[0] == 'subsets' and cur is not None and not cur['half']:
            if cur['next'] < len(cur['asets']):
                a = cur['asets'][cur['next']]
                a['subs'] = [{'type': k, 'names': v, 'order': None, 'pop': None} for k, v in ent[2]]
                cur['next'] += 1
                cur['last'] = a
        elif ent[0] == 'check_ic' and cur is not None and cur.get('last') is not None:
            for sb in cur['last']['subs']:
                if sb['pop'] is None and sorted(sb['names']) == sorted(ent[1]):
                    sb['pop'] = ent[2]
                    break
        elif ent[0] == 'list' and cur is not None and cur.get('last') is not None:
            for sb in cur['last']['subs']:
                if sb['order'] is None and sorted(sb['names']) == sorted(ent[1]):
                    sb['order'] = ent[1]
                    break
        i += 1
    terms = []
    for stg in stages:
        if stg['half']:
            continue
        series = stg['kind'] == 'in_series'
        elems = stg.get('text') or []
        asets = []
        for a in stg['asets']:
            start, path = 0, list(a['names'])
            rstart, rpath = 0, list(a['names'])
            wpos = {}
            for e in elems:
                if e['type'] == 'W':
                    wpos[e['name']] = len(wpos)
            if series and elems:
                fp = find_path(elems, a['names'], classes=True)
                if fp is not None:
                    start, path = enc.node(fp[0]), fp[1]
                fp = find_path(elems, a['names'], classes=False)
                if fp is not None:
                    rstart, rpath = enc.node(fp[0]), fp[1]
            subs = []
            for sb in (a['subs'] or []):
                ty = ETY.get(sb['type'], 'TX')
                order = 'None' if sb['order'] is None else '(Some %s)' % enc.names(sb['order'])
                pop = 'None' if sb['pop'] is None else '(Some %s)' % enc.name(sb['pop'])
                subs.append('(Sub %s %s %s %s)' % (ty, enc.names(sb['names']), order, pop))
            rp = nlist(('(NWire %d)' % wpos[x]) if x in wpos else enc.name(x) for x in rpath)
            asets.append('(ASet %s %d %s %d %s %s)' % (enc.names(a['names']), start, enc.names(path), rstart, rp, nlist(subs)))
        terms.append('(Stage %s %s)' % ('true' if series else 'false', nlist(asets)))
    return nlist(terms)


def sargs(enc, case_args, ground):
    a = case_args or {}

    def opt(k):
        return 'None' if a.get(k) is None else '(Some %s)' % enc.names(a[k])
    keep = a.get('keep_nodes')
    if keep is None:
        keep = ['0'] if ground else []
    keepn = [str(enc.node_id[str(k)]) for k in keep if str(k) in enc.node_id]
    unknown_keep = [k for k in keep if str(k) not in enc.node_id]
    b = lambda k, d: 'true' if a.get(k, d) else 'false'
    return '(SArgs %s %s %s %d %s %s %s %s)' % (opt('select'), opt('ignore'), nlist(keepn), int(a.get('passes', 0)),
                                               b('series', True), b('parallel', True), b('dangling', False), b('disconnected', False)), unknown_keep


RES_RE = re.compile(r'\((\d+),\s*(\d+),\s*\((true|false),\s*(true|false),\s*(true|false),\s*(true|false)\)\)')


def parse_codes(out):
    """[(index, code, (subsets_ok, contract_ok, no_ground_inside))] printed by Eval vm_compute"""
    m = re.search(r'=\s*\[(.*?)\]\s*:\s*list', out, re.S)
    if not m:
        return None
    return [(int(a), int(b), (c == 'true', d == 'true', e == 'true', f == 'true')) for a, b, c, d, e, f in RES_RE.findall(m.group(1))]
