"""Generators and the independent electrical oracle for C05 (netlist rewrites).

gen_simplify(rng, ...)  netlists rich in series chains / parallel groups of like
                        elements in both orientations with equal / unequal /
                        absent initial conditions, plus arguments for simplify
oracle(case, wres)      compares the Lcapy solutions of the original and the
                        rewritten circuit (both dumped by tools/impl_rewrite.py as
                        exact rationals): every component that survives with an
                        unchanged netlist line keeps its voltage and current,
                        every retained node keeps its potential.  Nodes strictly
                        inside a series chain in which something was replaced are
                        not retained (they are not visible from the rest of the
                        circuit); the chains are recomputed here from the netlist
                        text with a plain union-find, independently of
                        lcapy.circuitgraph.
features(case, wres)    structural fingerprints of the known defect classes
                        present in one simplify case (used only to key findings).
All randomness comes from the random.Random passed in.
"""
import re
from fractions import Fraction

TWO_TERM = ('R', 'NR', 'C', 'L', 'V', 'I', 'Z', 'Y', 'W', 'AM')
COMBINABLE = ('V', 'I', 'R', 'NR', 'C', 'L', 'Y', 'Z')


def fs(x):
    x = Fraction(x)
    return str(x.numerator) if x.denominator == 1 else '{%d/%d}' % (x.numerator, x.denominator)


def val(rng, lo=1, hi=9, dens=(1, 1, 1, 2, 3)):
    return Fraction(rng.randint(lo, hi), rng.choice(dens))


class Builder:
    def __init__(self, rng):
        self.rng = rng
        self.lines = []
        self.cnt = {}
        self.nn = 0
        self.tags = set()

    def name(self, p):
        self.cnt[p] = self.cnt.get(p, 0) + 1
        return '%s%d' % (p, self.cnt[p])

    def fresh(self):
        self.nn += 1
        return 'n%d' % self.nn

    def elem(self, ty, a, b, rev, ic=None, kw=None, value=None):
        rng = self.rng
        p, q = (b, a) if rev else (a, b)
        nm = self.name(ty)
        if ty in ('R', 'NR'):
            self.lines.append('%s %s %s %s' % (nm, p, q, fs(value or val(rng))))
        elif ty in ('C', 'L'):
            s = '%s %s %s %s' % (nm, p, q, fs(value or val(rng)))
            if ic is not None:
                s += ' ' + fs(ic)
            self.lines.append(s)
        elif ty == 'Z':
            v = rng.choice(['{%s*s}' % fs(val(rng)).strip('{}'), fs(val(rng)), '{%s + %s/s}' % (fs(val(rng)).strip('{}'), fs(val(rng)).strip('{}'))])
            self.lines.append('%s %s %s %s' % (nm, p, q, v))
        elif ty == 'Y':
            v = rng.choice(['{%s*s}' % fs(val(rng)).strip('{}'), fs(val(rng)), '{%s + %s*s}' % (fs(val(rng)).strip('{}'), fs(val(rng)).strip('{}'))])
            self.lines.append('%s %s %s %s' % (nm, p, q, v))
        elif ty in ('V', 'I'):
            v = fs(value if value is not None else (val(rng, -6, 6) or Fraction(2)))
            if kw in (None, ''):
                self.lines.append('%s %s %s %s' % (nm, p, q, v))
            elif kw == 'sdom':
                self.lines.append('%s %s %s {%s/(s+%d)}' % (nm, p, q, v.strip('{}'), rng.randint(1, 3)))
            else:
                self.lines.append('%s %s %s %s %s' % (nm, p, q, kw, v))
        elif ty == 'W':
            self.lines.append('W %s %s' % (p, q))
        return nm


def gen_netlist(rng, polarity='mixed', icmode='none', srckw='same', extras=True, ground_mid=False, small=False, kw=None):
    """returns dict(lines, tags).  polarity: 'same' (every like element of a group
    points the same way along the chain / across the pair) | 'mixed'.
    icmode: none | equal | unequal | partial.  srckw: same | mixed."""
    b = Builder(rng)
    n = rng.randint(1, 2) if small else rng.randint(1, 3)
    nodes = ['0'] + [str(i) for i in range(1, n + 1)]
    edges = []
    for i in range(1, n + 1):
        edges.append((nodes[i], nodes[rng.randint(0, i - 1)]))
    for _ in range(rng.randint(1, 1 if small else 2)):
        if n >= 1:
            i, j = rng.sample(range(0, n + 1), 2)
            edges.append((nodes[i], nodes[j]))
    kw_all = kw if kw is not None else rng.choice(['', '', 'dc', 'step', 'step'])

    def pick_kw():
        if srckw == 'same':
            return kw_all
        return rng.choice(['', 'dc', 'step', 'sdom'])

    def ic_for(k, common):
        if icmode == 'none':
            return None
        if icmode == 'equal':
            return common
        if icmode == 'unequal':
            return val(rng, -4, 4)
        return common if rng.random() < 0.5 else None      # partial

    def rev():
        return polarity == 'mixed' and rng.random() < 0.5

    have_v = False
    for ei, (a, c) in enumerate(edges):
        r = rng.random()
        if r < 0.25:
            # single element
            ty = rng.choice(['R', 'R', 'C', 'L'])
            b.elem(ty, a, c, rng.random() < 0.5, ic=ic_for(ty, val(rng, -4, 4)) if ty in 'CL' else None)
        elif r < 0.65 or not have_v:
            # series chain
            if not have_v:
                ty = 'V'
                have_v = True
            else:
                ty = rng.choice(['R', 'R', 'C', 'L', 'L', 'V', 'Z', 'Y', 'C'] + (['NR'] if rng.random() < 0.1 else []))
            k = rng.randint(2, 3) if ty != 'V' else rng.randint(1, 3)
            items = [ty] * k
            if ty == 'V' or rng.random() < 0.4:
                items.insert(rng.randint(0, len(items)), rng.choice(['R', 'R', 'L', 'C']) if ty != 'V' else 'R')
            base_rev = rng.random() < 0.5
            common = val(rng, -4, 4)
            chain_nodes = [a] + [b.fresh() for _ in range(len(items) - 1)] + [c]
            if ground_mid and len(items) >= 2 and a != '0' and c != '0' and '0' not in chain_nodes:
                pass
            kwc = pick_kw()
            for j, t in enumerate(items):
                rv = base_rev ^ (rev() if t == ty else (rng.random() < 0.5))
                b.elem(t, chain_nodes[j], chain_nodes[j + 1], rv,
                       ic=ic_for(t, common) if (t in 'CL' and t == ty) else None,
                       kw=(kwc if srckw == 'same' else pick_kw()) if t in 'VI' else None)
            b.tags.add('series_' + ty)
        else:
            ty = rng.choice(['R', 'R', 'C', 'C', 'L', 'I', 'Y', 'Z', 'L'] + (['NR'] if rng.random() < 0.1 else []))
            k = rng.randint(2, 3)
            base_rev = rng.random() < 0.5
            common = val(rng, -4, 4)
            kwc = pick_kw()
            for j in range(k):
                b.elem(ty, a, c, base_rev ^ rev(), ic=ic_for(ty, common) if ty in 'CL' else None,
                       kw=(kwc if srckw == 'same' else pick_kw()) if ty in 'VI' else None)
            if ty == 'I' or rng.random() < 0.3:
                b.elem('R', a, c, rng.random() < 0.5)
            b.tags.add('parallel_' + ty)
    if extras:
        for _ in range(rng.randint(0, 2)):
            k = rng.choice(['dangle', 'dangle2', 'wire', 'E', 'Ealias', 'Ealias', 'gndR', 'disc'])
            anyn = sorted({t for l in b.lines for t in l.split()[1:3]})
            if k == 'dangle':
                b.elem(rng.choice(['R', 'C', 'L', 'W']), rng.choice(anyn), b.fresh(), rng.random() < 0.5)
                b.tags.add('dangling')
            elif k == 'dangle2':
                m = b.fresh()
                b.elem('R', rng.choice(anyn), m, rng.random() < 0.5)
                b.elem(rng.choice(['R', 'W']), m, b.fresh(), rng.random() < 0.5)
                b.tags.add('dangling')
            elif k == 'wire':
                # split a node into two names joined by a wire
                x = rng.choice(anyn)
                x2 = x + '_1'
                cand = [i for i, l in enumerate(b.lines) if x in l.split()[1:3]]
                if len(cand) >= 2 and not any(x2 in l.split() for l in b.lines):
                    i = rng.choice(cand)
                    p = b.lines[i].split()
                    p[1:3] = [x2 if t == x and rng.random() < 0.7 else t for t in p[1:3]]
                    b.lines[i] = ' '.join(p)
                    if any(x2 in l.split()[1:3] for l in b.lines):
                        b.lines.append('W %s %s' % ((x, x2) if rng.random() < 0.5 else (x2, x)))
                        b.tags.add('wire')
            elif k == 'E':
                o = b.fresh()
                c1, c2 = (rng.sample(anyn, 2) if len(anyn) >= 2 else (anyn[0], '0'))
                b.lines.append('%s %s 0 %s %s %s' % (b.name('E'), o, c1, c2, fs(val(rng, 1, 4))))
                b.lines.append('%s %s 0 %s' % (b.name('R'), o, fs(val(rng))))
                b.tags.add('E')
            elif k == 'Ealias':
                # a controlled source that senses a series-chain joint (or any node) through a WIRE ALIAS whose
                # name is not the canonical name of the equipotential class (it sorts after it / has an underscore)
                joints = [t for t in anyn if t.startswith('n')] or [t for t in anyn if t != '0']
                if joints:
                    x = rng.choice(joints if rng.random() < 0.8 else [t for t in anyn if t != '0'])
                    alias = rng.choice([x + '_1', 'z%d' % rng.randint(10, 99), 'y%d' % rng.randint(10, 99)])
                    if not any(alias in l.split() for l in b.lines):
                        b.lines.append('W %s %s' % ((x, alias) if rng.random() < 0.5 else (alias, x)))
                        o = b.fresh()
                        ref = rng.choice(['0', '0', rng.choice(anyn)])
                        cn = (alias, ref) if rng.random() < 0.7 else (ref, alias)
                        kind = rng.choice(['E', 'E', 'G'])
                        b.lines.append('%s %s 0 %s %s %s' % (b.name(kind), o, cn[0], cn[1], fs(val(rng, 1, 4))))
                        b.lines.append('%s %s 0 %s' % (b.name('R'), o, fs(val(rng))))
                        b.tags.add('sensed_alias')
            elif k == 'gndR':
                x = rng.choice([t for t in anyn if t != '0'] or ['1'])
                b.elem('R', x, '0', rng.random() < 0.5)
            elif k == 'disc':
                b.elem('R', b.fresh(), b.fresh(), False)
                b.tags.add('disconnected')
    b.tags.add('pol_' + polarity)
    b.tags.add('ic_' + icmode)
    # a pure DC analysis of series capacitors / parallel inductors is not well
    # posed (floating nodes, loops of shorts): unless some element carries an
    # initial condition (initial-value analysis) make the sources steps
    # (an initial condition does not help: the only component that carries one may be removed as dangling,
    #  which turns an initial-value analysis into a DC analysis)
    reactive = any(l.split()[0][0] in 'CL' or (l.split()[0][0] in 'ZY' and 's' in l.split('{')[-1]) for l in b.lines)
    if reactive:
        out = []
        for l in b.lines:
            t = l.split()
            if t[0][0] in 'VI' and len(t) >= 4:
                if t[3] == 'dc':
                    t[3] = 'step'
                elif t[3] != 'step' and len(t) == 4 and not re.search(r'(?<![A-Za-z_])s(?![A-Za-z_0-9])', t[3]):
                    t.insert(3, 'step')
            out.append(' '.join(t))
        b.lines = out
    return {'lines': b.lines, 'tags': sorted(b.tags)}


def add_closed_loop(rng, lines):
    """hang a closed chain on one node of the netlist: k like elements (plus, sometimes, one
    foreign element) from a node `at` through fresh private nodes back to `at`.  With two
    elements and nothing foreign this is the degenerate pair that is at once in parallel and
    (through its private node) in series.  Returns (lines, info)."""
    b = Builder(rng)
    b.nn = 50
    for p_ in ('R', 'C', 'L', 'Z', 'Y', 'V', 'NR'):
        b.cnt[p_] = 90
    nodes = sorted({t for l in lines for t in l.split()[1:3]})
    at = rng.choice(['0', '0'] + nodes)
    ty = rng.choice(['R', 'C', 'C', 'L', 'L', 'Z', 'Y', 'V'])
    k = 2 if rng.random() < 0.6 else 3
    items = [ty] * k
    if ty == 'V' or rng.random() < 0.3:
        items.insert(rng.randint(0, k), 'R' if ty == 'V' else rng.choice(['V', 'C'] if ty == 'R' else ['R', 'V']))
    icmode = rng.choice(['none', 'none', 'equal', 'unequal', 'partial', 'zero'])
    common = val(rng, -4, 4)
    chain = [at] + [b.fresh() for _ in range(len(items) - 1)] + [at]
    members = []
    for j, t in enumerate(items):
        ic = None
        if t in 'CL' and t == ty:
            other = val(rng, -4, 4)
            half = rng.random() < 0.5
            ic = {'none': None, 'equal': common, 'unequal': other, 'partial': common if half else None, 'zero': Fraction(0)}[icmode]
        nm = b.elem(t, chain[j], chain[j + 1], rng.random() < 0.5, ic=ic, kw='step' if t == 'V' else None)
        if t == ty:
            members.append(nm)
    return list(lines) + b.lines, {'at': at, 'members': members, 'type': ty, 'len': len(items), 'ic': icmode}


def loop_current_check(case, wr, so, sn):
    """closed chain that was series-combined as a whole: the combined element sits at the place
    (and in the orientation) of the first enumerated member, so it must carry that member's
    current (the loop current is the only observable of an isolated loop).  Returns None when
    the situation is not exactly that one, else a list of (kind, detail) differences."""
    info = case.get('loop')
    if not info or not so or not sn or 'error' in so or 'error' in sn:
        return None
    members = set(info['members'])
    orig = {e['name']: e for e in wr.get('orig', [])}
    new = {e['name']: e for e in wr.get('new', [])}
    if len(members) < 2 or not members <= set(orig) or members & set(new):
        return None
    # the _do_simplify_combine calls on exactly this group, with the kind of the stage they ran in
    # (a `list` entry of the whole group is logged by _do_simplify_combine only)
    kind, calls = None, []
    for ent in wr.get('log', []):
        if ent[0] == 'stage':
            kind = ent[1]
        elif ent[0] == 'list' and set(ent[1]) == members:
            calls.append((kind, ent[1][0]))
    if len(calls) != 1 or calls[0][0] != 'series':
        return None                      # not one series combination of the whole group (e.g. combined in parallel)
    first = orig[calls[0][1]]
    cand = [e for n_, e in new.items() if n_ not in orig and e['type'] == first['type'] and e['nodes'] == first['nodes']]
    if len(cand) != 1:
        return None
    a, b_ = so['cI'].get(first['name']), sn['cI'].get(cand[0]['name'])
    if a is None or b_ is None:
        return None
    if Fraction(a) != Fraction(b_):
        return [('loop-I', 'loop current at %s: %s -> %s at %s' % (first['name'], a, b_, cand[0]['name']))]
    return []


def gen_simplify_args(rng, lines, mode='default'):
    names = [l.split()[0] for l in lines if l.split()[0] != 'W']
    nodes = sorted({t for l in lines for t in l.split()[1:3]})
    a = {}
    if mode == 'default':
        return a
    r = rng.random()
    if r < 0.3:
        a['select'] = sorted(rng.sample(names, rng.randint(1, len(names))))
    elif r < 0.6:
        a['ignore'] = sorted(rng.sample(names, rng.randint(1, max(1, len(names) // 2))))
    if rng.random() < 0.4:
        a['keep_nodes'] = sorted(rng.sample(nodes, rng.randint(0, min(3, len(nodes)))))
    if rng.random() < 0.5:
        a['passes'] = rng.choice([1, 1, 2, 3])
    if rng.random() < 0.3:
        a['series'] = rng.random() < 0.5
    if rng.random() < 0.3:
        a['parallel'] = rng.random() < 0.5
    if rng.random() < 0.6:
        a['dangling'] = True
    if rng.random() < 0.3:
        a['disconnected'] = True
    return a


# ---------------------------------------------------------------------------
class UF:
    def __init__(self):
        self.p = {}

    def find(self, x):
        self.p.setdefault(x, x)
        while self.p[x] != x:
            self.p[x] = self.p[self.p[x]]
            x = self.p[x]
        return x

    def union(self, a, b):
        a, b = self.find(a), self.find(b)
        if a != b:
            # ground wins
            if b.startswith('0') and not a.startswith('0'):
                a, b = b, a
            self.p[b] = a


def classes(elems):
    uf = UF()
    for e in elems:
        for n in e['nodes']:
            uf.find(n)
        if e['type'] == 'W' and len(e['nodes']) == 2:
            uf.union(e['nodes'][0], e['nodes'][1])
    return uf


def chains(elems):
    """maximal series chains of the ORIGINAL netlist: two-terminal elements
    (non-wire, non-open) joined at node classes where exactly two terminals
    meet (terminals of every component count, including control nodes and
    ports).  returns (list of (set of element names, set of interior classes)), uf)"""
    uf = classes(elems)
    term = {}
    for e in elems:
        if e['type'] in ('W', 'O', 'K', 'A', 'XX'):
            continue
        for n in e['nodes']:
            term.setdefault(uf.find(n), []).append(e['name'])
    two = {e['name']: e for e in elems if e['type'] in TWO_TERM and e['type'] != 'W' and len(e['nodes']) == 2}
    euf = UF()
    interior = []
    for cl, names in term.items():
        if len(names) == 2 and names[0] != names[1] and all(x in two for x in names):
            euf.union(names[0], names[1])
            interior.append((cl, names[0]))
    groups = {}
    for nm in two:
        groups.setdefault(euf.find(nm), [set(), set()])[0].add(nm)
    for cl, nm in interior:
        groups[euf.find(nm)][1].add(cl)
    return [(g[0], g[1]) for g in groups.values() if len(g[0]) > 1], uf


def exempt_from_log(log):
    """node classes strictly inside a series chain in which something was
    combined, stage by stage (the stage netlists and the combined groups are
    read from the recorded run; the chains are recomputed here)"""
    exempt = set()
    stage = None
    for ent in log or []:
        if ent[0] == 'stage':
            stage = ent if ent[1] == 'series' else None
            if stage is not None:
                stage = {'chains': chains(ent[2])}
        elif ent[0] == 'list' and stage is not None:
            chs, uf = stage['chains']
            grp = set(ent[1])
            for names, inter in chs:
                if len(names & grp) >= 2:
                    for cl in inter:
                        if not cl.startswith('0'):
                            exempt.add(cl)
                            # every node name of that class
                            for n in list(uf.p):
                                if uf.find(n) == cl:
                                    exempt.add(n)
    return exempt


def oracle(case, orig_elems, new_elems, so, sn, log=None):
    """list of (kind, detail) electrical differences between the original and the
    rewritten circuit; [] when the retained voltages/currents agree; None when
    the original circuit has no solution to compare with."""
    bad = []
    w = {'orig': orig_elems, 'new': new_elems}
    if not so or 'error' in so:
        return None                      # original not solvable: nothing to compare
    if any(v is None for v in so['V'].values()):
        return None
    if not sn or 'error' in sn:
        kn = (case.get('args') or {}).get('keep_nodes')
        a_ = case.get('args') or {}
        if sn and sn.get('error') == 'no ground' and kn is not None and '0' not in [str(k) for k in kn]:
            return None                  # the caller asked not to keep the reference node
        if sn and sn.get('error') == 'no ground' and (a_.get('dangling') or a_.get('disconnected')):
            # documented: "if there are no circuits ... all the components will be removed";
            # what is left has no reference node and nothing to compare
            return None
        return [('new-unsolvable', (sn or {}).get('error', 'no solution'))]
    orig = {e['name']: e for e in w['orig']}
    new = {e['name']: e for e in w['new']}
    rename = case.get('node_rename') or {}
    simplify = case.get('op', 'simplify') in ('simplify', 'simplify_series', 'simplify_parallel', 'remove_dangling', 'remove_disconnected')
    # components that survive (with an unchanged line, for simplify)
    for nm, e in orig.items():
        if nm in new and (new[nm]['line'] == e['line'] or not simplify):
            for kind in ('cV', 'cI'):
                a, b_ = so[kind].get(nm), sn[kind].get(nm)
                if a is None and b_ is None:
                    continue
                if a is None or b_ is None or Fraction(a) != Fraction(b_):
                    bad.append(('component-%s' % kind[1], '%s: %s -> %s' % (nm, a, b_)))
    # retained nodes
    exempt = exempt_from_log(log) if simplify else set()
    for n, a in so['V'].items():
        n2 = rename.get(n, n)
        if n2 not in sn['V']:
            continue
        if n in exempt:
            continue
        b_ = sn['V'][n2]
        if b_ is None or Fraction(a) != Fraction(b_):
            bad.append(('node-V', '%s: %s -> %s' % (n, a, b_)))
    return bad


def sensed_interior(wr):
    """the netlist has a component with more than two terminals (a controlled
    source whose control nodes may sit inside a series chain)"""
    return any(len(e['nodes']) > 2 for e in wr.get('orig', []))


def add_wire_split(rng, lines):
    lines = list(lines)
    nodes = sorted({t for l in lines for t in l.split()[1:3]})
    x = rng.choice(nodes)
    x2 = x + '_1'
    cand = [i for i, l in enumerate(lines) if x in l.split()[1:3]]
    if len(cand) >= 2 and not any(x2 in l.split() for l in lines):
        i = rng.choice(cand)
        p = lines[i].split()
        done = False
        for k in (1, 2):
            if p[k] == x and not done:
                p[k] = x2
                done = True
        lines[i] = ' '.join(p)
        lines.append('W %s %s' % ((x, x2) if rng.random() < 0.5 else (x2, x)))
    return lines


def symbolise(rng, lines):
    """replace the numeric values by symbols; returns (lines, {symbol: value})"""
    out, point = [], {}
    for ln in lines:
        t = ln.split()
        ty = t[0][0]
        if t[0][0:2] == 'NR' or ty not in 'RCLVI':
            out.append(ln)
            continue
        k = 3
        if ty in 'VI' and len(t) > 4 and t[3] in ('dc', 'step'):
            k = 4
        if k < len(t) and '{' not in t[k] or (k < len(t) and re.fullmatch(r'\{-?\d+/\d+\}', t[k])):
            sym = 'q%s' % t[0]
            point[sym] = t[k].strip('{}')
            t[k] = sym
        out.append(' '.join(t))
    return out, point


def gen_switch_case(rng):
    times = sorted(rng.sample([0, 1, 2, 3, 5, 8], rng.randint(1, 3)))
    lines = ['V1 1 0 5']
    node = 1
    for i, T in enumerate(times):
        kind = rng.choice(['no', 'nc'])
        lines.append('SW%d %d %d %s %d' % (i + 1, node, node + 1, kind, T))
        lines.append('R%d %d 0 %d' % (i + 1, node + 1, rng.randint(1, 9)))
        node += 1
    r = rng.random()
    if r < 0.35:
        t = Fraction(rng.choice(times))
    elif r < 0.6:
        t = Fraction(rng.choice(times)) + Fraction(1, 2)
    elif r < 0.8:
        t = Fraction(times[0]) - Fraction(rng.randint(1, 3), 2)
    else:
        t = Fraction(times[-1]) + rng.randint(1, 4)
    op = 'switch' if rng.random() < 0.5 else 'switch_before'
    return {'netlist': lines, 'op': op, 'args': {'t': '%d/%d' % (t.numerator, t.denominator)}, 's0': '2', 'tags': ['switch']}


def gen_node_map(rng, lines, mode):
    """a PARTIAL (sometimes complete) node map for renumber.  mode: small =
    numeral targets inside 1..N (the range augment_node_map draws its fresh
    numbers from), big = numerals above N, sym = symbolic names, mixed"""
    elems = [{'name': l.split()[0], 'type': 'W' if l.split()[0] == 'W' else 'X', 'nodes': l.split()[1:3]} for l in lines]
    uf = classes(elems)
    nodes = sorted({t for l in lines for t in l.split()[1:3]} - {'0'})
    reps = sorted({uf.find(n) for n in nodes} - {'0'})
    ncls = len({uf.find(n) for n in nodes} | {'0'})
    # at most one node per class (two give 'Cannot rename two nodes of same potential'), rarely two on purpose
    pick = []
    for r in reps:
        members = [n for n in nodes if uf.find(n) == r]
        if rng.random() < 0.55:
            pick.append(rng.choice(members))
            if len(members) > 1 and rng.random() < 0.05:
                pick.append(rng.choice(members))
    if not pick and reps:
        pick = [rng.choice([n for n in nodes if uf.find(n) == reps[0]])]
    rng.shuffle(pick)
    small = [str(i) for i in range(1, ncls + 1)]
    big = [str(i) for i in range(ncls + 1, ncls + 12)]
    sym = ['a', 'b', 'c', 'x9', 'out', 'in', 'mid', 'p', 'q', 'vdd', 'k7']
    for l_ in (small, big, sym):
        rng.shuffle(l_)
    pool = {'small': small + big, 'big': big, 'sym': sym}.get(mode)
    if pool is None:
        pool = small + big[:3] + sym[:4]
        rng.shuffle(pool)
    m = {}
    for k, n in enumerate(pick):
        if k < len(pool):
            m[n] = pool[k]
    return m
