"""Exact evaluation of sympy expressions over the Gaussian rationals Q(i),
used by the C11 harness (oracle and correspondence data).  No sympy
simplification and no floats are involved: the expression tree is folded
bottom-up with Fraction arithmetic.

  * symbols are looked up in `env` (sympy Symbol or name -> G)
  * pi is an indeterminate here (looked up as env['pi']): pi is transcendental
    over Q, so two rational functions of pi with rational coefficients agree
    at pi iff they agree as functions of an indeterminate
  * exp(a) is interpreted by the homomorphism  E3(m + n i) = 3^m 5^n  on the
    Gaussian integers (E3(a+b) = E3(a) E3(b), E3(0) = 1); any identity that
    follows from the exponential law and field arithmetic is preserved, and
    exp(+x) is told apart from exp(-x).  A non-integral argument raises
    NotExact.
  * an applied undefined function  F(args)  is replaced by a fixed non-zero
    rational determined by (name, evaluated args)
  * rational powers are evaluated only when the result is in Q(i) (perfect
    squares), otherwise NotExact is raised (the caller skips the sample).
"""
from fractions import Fraction
import hashlib
import math


class NotExact(Exception):
    pass


class G:
    """Gaussian rational re + im*i"""
    __slots__ = ('re', 'im')

    def __init__(self, re=0, im=0):
        self.re = Fraction(re)
        self.im = Fraction(im)

    def __add__(self, o):
        return G(self.re + o.re, self.im + o.im)

    def __sub__(self, o):
        return G(self.re - o.re, self.im - o.im)

    def __neg__(self):
        return G(-self.re, -self.im)

    def __mul__(self, o):
        return G(self.re * o.re - self.im * o.im, self.re * o.im + self.im * o.re)

    def norm(self):
        return self.re * self.re + self.im * self.im

    def inv(self):
        n = self.norm()
        if n == 0:
            raise ZeroDivisionError('1/0 in Q(i)')
        return G(self.re / n, -self.im / n)

    def __truediv__(self, o):
        return self * o.inv()

    def conj(self):
        return G(self.re, -self.im)

    def __eq__(self, o):
        return isinstance(o, G) and self.re == o.re and self.im == o.im

    def __hash__(self):
        return hash((self.re, self.im))

    def is_zero(self):
        return self.re == 0 and self.im == 0

    def ipow(self, n):
        if n < 0:
            return self.inv().ipow(-n)
        r = G(1)
        b = self
        while n:
            if n & 1:
                r = r * b
            b = b * b
            n >>= 1
        return r

    def __repr__(self):
        return 'G(%s,%s)' % (self.re, self.im)

    def ser(self):
        return ['%d/%d' % (self.re.numerator, self.re.denominator), '%d/%d' % (self.im.numerator, self.im.denominator)]

    @staticmethod
    def des(x):
        if isinstance(x, (list, tuple)):
            return G(Fraction(x[0]), Fraction(x[1]))
        return G(Fraction(x))


def frac_sqrt(q):
    """exact square root of a non-negative Fraction, or None"""
    if q < 0:
        return None
    n, d = q.numerator, q.denominator
    rn, rd = math.isqrt(n), math.isqrt(d)
    if rn * rn == n and rd * rd == d:
        return Fraction(rn, rd)
    return None


def g_sqrt(z):
    """principal square root in Q(i) when it exists there"""
    if z.im == 0:
        if z.re >= 0:
            r = frac_sqrt(z.re)
            if r is None:
                raise NotExact('sqrt(%s)' % z.re)
            return G(r)
        r = frac_sqrt(-z.re)
        if r is None:
            raise NotExact('sqrt(%s)' % z.re)
        return G(0, r)
    # sqrt(a+bi) = x + yi, x = sqrt((|z|+a)/2), y = sign(b) sqrt((|z|-a)/2)
    m = frac_sqrt(z.norm())
    if m is None:
        raise NotExact('sqrt of %r' % z)
    x = frac_sqrt((m + z.re) / 2)
    y = frac_sqrt((m - z.re) / 2)
    if x is None or y is None:
        raise NotExact('sqrt of %r' % z)
    return G(x, y if z.im > 0 else -y)


def E3(z):
    if z.re.denominator != 1 or z.im.denominator != 1:
        raise NotExact('exp of non-integral argument %r' % z)
    a, b = int(z.re), int(z.im)
    if abs(a) > 4000 or abs(b) > 4000:
        raise NotExact('exp argument too large')
    return G(Fraction(3) ** a * Fraction(5) ** b)


def undef_value(name, args):
    h = hashlib.sha256((name + '|' + '|'.join(repr(a) for a in args)).encode()).digest()
    num = 1 + h[0] % 11
    den = 1 + h[1] % 5
    sign = -1 if h[2] & 1 else 1
    return G(Fraction(sign * num, den))


def evaluate(e, env):
    """e: sympy expression; env: {name: G}.  Returns G."""
    import sympy as sp
    from sympy.core.function import AppliedUndef
    if e.is_Rational:
        return G(Fraction(int(e.p), int(e.q)))
    if e is sp.I:
        return G(0, 1)
    if e is sp.E:
        return E3(G(1))
    if e is sp.pi:
        if 'pi' not in env:
            raise NotExact('pi')
        return env['pi']
    if e.is_Symbol:
        if e.name in env:
            return env[e.name]
        raise NotExact('free symbol %s' % e.name)
    if e.is_Add:
        r = G(0)
        for a in e.args:
            r = r + evaluate(a, env)
        return r
    if e.is_Mul:
        r = G(1)
        for a in e.args:
            r = r * evaluate(a, env)
        return r
    if e.is_Pow:
        b, x = e.args
        if b is sp.E:
            return E3(evaluate(x, env))
        bv = evaluate(b, env)
        if x.is_Integer:
            n = int(x)
            if n < 0 and bv.is_zero():
                raise ZeroDivisionError('0**%d' % n)
            return bv.ipow(n)
        if x.is_Rational and int(x.q) == 2:
            r = g_sqrt(bv)
            n = int(x.p)
            if n < 0 and r.is_zero():
                raise ZeroDivisionError('0**(%s)' % x)
            return r.ipow(n)
        raise NotExact('power %s' % x)
    if isinstance(e, sp.exp):
        return E3(evaluate(e.args[0], env))
    if isinstance(e, AppliedUndef):
        args = [evaluate(a, env) for a in e.args]
        return undef_value(e.func.__name__, args)
    if isinstance(e, sp.re):
        return G(evaluate(e.args[0], env).re)
    if isinstance(e, sp.im):
        return G(evaluate(e.args[0], env).im)
    if isinstance(e, sp.conjugate):
        return evaluate(e.args[0], env).conj()
    if isinstance(e, sp.Abs):
        v = evaluate(e.args[0], env)
        r = frac_sqrt(v.norm())
        if r is None:
            raise NotExact('Abs irrational')
        return G(r)
    if isinstance(e, (sp.sin, sp.cos)):
        v = evaluate(e.args[0], env)
        if v.is_zero():
            return G(0) if isinstance(e, sp.sin) else G(1)
        raise NotExact('trig of non-zero argument')
    if e.is_Float:
        raise NotExact('float')
    if e.is_Number:
        raise NotExact('number %s' % type(e).__name__)
    raise NotExact('unsupported node %s' % type(e).__name__)
