"""Fail-closed translator of the node threading of lcapy's network -> netlist
conversion (Ser._net_make, Par._net_make in lcapy/oneport.py, NetlistMaker.__call__
in lcapy/netlistmaker.py, NetlistHelper._node in lcapy/netlisthelper.py).

The two _net_make bodies are EXECUTED SYMBOLICALLY from their source text (ast,
never imported) for every concrete argument count N in a range: argument k is
an abstract emitter e_k, node numbers are Coq terms over the next-free-node
counter, `netlist._node` takes the counter and increments it, a call
`self.args[i]._net_make(netlist, x, y, dir)` becomes  let '(l, c) := e_i x y counter,
a formatted 'W %s %s; ...' line becomes a wire.  The result is one Coq term per
arity, which the check proves equal to the hand-written emitters
(ser_emit / par_emit of theory/OnePortNet.v) that netlist_of_tree_sem is about.

Recognised subset (anything else raises Untranslatable):
  s = [] | s.append(<line>) | return '\\n'.join(s)
  if n1 is None: n1 = netlist._node   (terminals are always supplied by the callers modelled here)
  x = netlist._node | x, y = netlist._node, netlist._node | x, y = u, v
  H = [<anything> for arg in self.args]  and  sep = <anything>   (drawing distances: opaque)
  N = len(H) | len(self.args) | integer arithmetic with // & + - on known integers
  if <integer / boolean test over known integers, dir == 'right'>: .. else: ..
  for n in range(<int>): .. | for arg in self.args[:-1]: ..
  <line> ::= self.args[<int>]._net_make(netlist, x, y, dir) | arg._net_make(..)
           | 'W %s %s; %s=%s' % (x, y, ..)
"""
import ast
import hashlib
import os


class Untranslatable(Exception):
    pass


def fail(node, why, fname='lcapy/oneport.py'):
    raise Untranslatable('%s:%s: %s: %s' % (fname, getattr(node, 'lineno', '?'), why,
                                            ast.unparse(node)[:140] if isinstance(node, ast.AST) else str(node)))


class Opaque:
    """a value that only influences the drawing hints"""


class Node:
    def __init__(self, coq):
        self.coq = coq


class ArgRef:
    def __init__(self, k):
        self.k = k


class Exec:
    def __init__(self, fn, N):
        self.fn = fn
        self.N = N
        self.counter = 'n'
        self.lets = []       # (list var, counter var, emitter index, x, y, counter before)
        self.parts = []      # Coq list pieces in order
        self.nl = 0

    def fresh(self):
        c = self.counter
        self.counter = '(S %s)' % c
        return Node(c)

    def emit(self, k, x, y):
        lv, cv = 'l%d' % self.nl, 'c%d' % self.nl
        self.nl += 1
        self.lets.append((lv, cv, k, x.coq, y.coq, self.counter))
        self.counter = cv
        return ('list', lv)

    def ev(self, e, env):
        if isinstance(e, ast.Constant):
            return e.value
        if isinstance(e, ast.Name):
            if e.id in env:
                return env[e.id]
            fail(e, 'unknown name')
        if isinstance(e, ast.List) and not e.elts:
            return []
        if isinstance(e, ast.Attribute):
            u = ast.unparse(e)
            if u == 'netlist._node':
                return self.fresh()
            if u == 'self.args':
                return [ArgRef(k) for k in range(self.N)]
            if u in ('self.wsep', 'self.hsep'):
                return Opaque()
            fail(e, 'unsupported attribute')
        if isinstance(e, ast.ListComp):
            if len(e.generators) == 1 and ast.unparse(e.generators[0].iter) == 'self.args':
                return [Opaque() for _ in range(self.N)]
            fail(e, 'unsupported comprehension')
        if isinstance(e, ast.Tuple):
            return tuple(self.ev(x, env) for x in e.elts)
        if isinstance(e, ast.Subscript):
            v = self.ev(e.value, env)
            if isinstance(e.slice, ast.Slice):
                lo = self.ev(e.slice.lower, env) if e.slice.lower else None
                hi = self.ev(e.slice.upper, env) if e.slice.upper else None
                if not isinstance(v, list):
                    fail(e, 'slice of non-list')
                return v[lo:hi]
            i = self.ev(e.slice, env)
            if isinstance(v, list) and isinstance(i, int):
                if not -len(v) <= i < len(v):
                    raise Untranslatable('lcapy/oneport.py:%s: index %d out of range for %d arguments (IndexError at run time)'
                                         % (e.lineno, i, len(v)))
                return v[i]
            fail(e, 'unsupported subscript')
        if isinstance(e, ast.UnaryOp) and isinstance(e.op, ast.Not):
            return not self.truth(self.ev(e.operand, env), e)
        if isinstance(e, ast.UnaryOp) and isinstance(e.op, ast.USub):
            v = self.ev(e.operand, env)
            if isinstance(v, int):
                return -v
            fail(e, 'unsupported negation')
        if isinstance(e, ast.BoolOp):
            vals = [self.truth(self.ev(x, env), e) for x in e.values]
            return all(vals) if isinstance(e.op, ast.And) else any(vals)
        if isinstance(e, ast.Compare) and len(e.ops) == 1:
            l, r = self.ev(e.left, env), self.ev(e.comparators[0], env)
            if isinstance(e.ops[0], (ast.Is, ast.IsNot)) and r is None:
                res = l is None
                return res if isinstance(e.ops[0], ast.Is) else not res
            if isinstance(l, (int, str)) and isinstance(r, (int, str)) and type(l) == type(r):
                if isinstance(e.ops[0], ast.Eq):
                    return l == r
                if isinstance(e.ops[0], ast.NotEq):
                    return l != r
            fail(e, 'unsupported comparison')
        if isinstance(e, ast.BinOp):
            if isinstance(e.op, ast.Mod) and isinstance(e.left, ast.Constant) and isinstance(e.left.value, str):
                args = self.ev(e.right, env)
                fmt = e.left.value
                if fmt.startswith('W %s %s') and isinstance(args, tuple) and len(args) >= 2 \
                        and isinstance(args[0], Node) and isinstance(args[1], Node):
                    return ('wire', args[0].coq, args[1].coq)
                fail(e, 'unsupported line format')
            l, r = self.ev(e.left, env), self.ev(e.right, env)
            if isinstance(l, Opaque) or isinstance(r, Opaque):
                return Opaque()
            if isinstance(l, int) and isinstance(r, int):
                if isinstance(e.op, ast.FloorDiv):
                    return l // r
                if isinstance(e.op, ast.BitAnd):
                    return l & r
                if isinstance(e.op, ast.Add):
                    return l + r
                if isinstance(e.op, ast.Sub):
                    return l - r
                if isinstance(e.op, ast.Mult):
                    return l * r
            fail(e, 'unsupported arithmetic')
        if isinstance(e, ast.Call):
            f = e.func
            if isinstance(f, ast.Name) and f.id == 'len' and len(e.args) == 1:
                v = self.ev(e.args[0], env)
                if isinstance(v, list):
                    return len(v)
            if isinstance(f, ast.Name) and f.id == 'range' and len(e.args) == 1:
                v = self.ev(e.args[0], env)
                if isinstance(v, int):
                    return list(range(v))
            if isinstance(f, ast.Attribute) and f.attr == '_net_make':
                tgt = self.ev(f.value, env)
                a = [self.ev(x, env) for x in e.args]
                if isinstance(tgt, ArgRef) and len(a) == 4 and ast.unparse(e.args[0]) == 'netlist' \
                        and isinstance(a[1], Node) and isinstance(a[2], Node) and not e.keywords:
                    return self.emit(tgt.k, a[1], a[2])
                fail(e, 'unsupported _net_make call')
            if isinstance(f, ast.Attribute) and f.attr == 'join' and ast.unparse(f.value) == "'\\n'" and len(e.args) == 1:
                v = self.ev(e.args[0], env)
                if isinstance(v, list):
                    return ('joined', v)
            fail(e, 'unsupported call')
        fail(e, 'unsupported expression')

    def truth(self, v, node):
        if isinstance(v, bool):
            return v
        if isinstance(v, int):
            return v != 0
        fail(node, 'condition is not decidable at translation time')

    def run(self, stmts, env):
        for st in stmts:
            if isinstance(st, ast.Expr) and isinstance(st.value, ast.Constant):
                continue
            if isinstance(st, ast.Assign) and len(st.targets) == 1:
                tg = st.targets[0]
                v = self.ev(st.value, env)
                if isinstance(tg, ast.Name):
                    env[tg.id] = v
                    continue
                if isinstance(tg, ast.Tuple) and isinstance(v, tuple) and len(v) == len(tg.elts) and all(isinstance(x, ast.Name) for x in tg.elts):
                    for x, y in zip(tg.elts, v):
                        env[x.id] = y
                    continue
                fail(st, 'unsupported assignment')
            if isinstance(st, ast.If):
                c = self.truth(self.ev(st.test, env), st)
                r = self.run(st.body if c else st.orelse, env)
                if r is not None:
                    return r
                continue
            if isinstance(st, ast.For) and not st.orelse and isinstance(st.target, ast.Name):
                seq = self.ev(st.iter, env)
                if not isinstance(seq, list):
                    fail(st, 'unsupported loop')
                for x in seq:
                    env[st.target.id] = x
                    r = self.run(st.body, env)
                    if r is not None:
                        return r
                continue
            if isinstance(st, ast.Expr) and isinstance(st.value, ast.Call) and ast.unparse(st.value.func) == 's.append' and len(st.value.args) == 1:
                v = self.ev(st.value.args[0], env)
                if not (isinstance(v, tuple) and v[0] in ('wire', 'list')):
                    fail(st, 'appended value is neither a wire nor the lines of an argument')
                env['s'].append(v)
                continue
            if isinstance(st, ast.Return):
                v = self.ev(st.value, env)
                if isinstance(v, tuple) and v[0] == 'joined':
                    return v[1]
                fail(st, 'unsupported return')
            fail(st, 'unsupported statement')
        return None

    def coq(self):
        fn = self.fn
        ps = [a.arg for a in fn.args.args]
        if ps != ['self', 'netlist', 'n1', 'n2', 'dir']:
            fail(fn, 'unexpected signature')
        env = {'n1': Node('a'), 'n2': Node('b'), 'dir': 'right', 'netlist': Opaque()}
        lines = self.run(fn.body, env)
        if lines is None:
            fail(fn, 'no return')
        pieces = []
        for v in lines:
            pieces.append('[EW %s %s]' % (v[1], v[2]) if v[0] == 'wire' else v[1])
        body = '(%s, %s)' % (' ++ '.join(pieces) if pieces else '[]', self.counter)
        for lv, cv, k, x, y, cb in reversed(self.lets):
            body = "let '(%s, %s) := e%d %s %s %s in\n  %s" % (lv, cv, k, x, y, cb, body)
        return body


class NetMakeTranslator:
    def __init__(self, repo):
        self.repo = repo
        src = open(os.path.join(repo, 'lcapy', 'oneport.py')).read()
        self.sha = hashlib.sha256(src.encode()).hexdigest()
        self.fns = {}
        for n in ast.parse(src).body:
            if isinstance(n, ast.ClassDef) and n.name in ('Ser', 'Par'):
                for m in n.body:
                    if isinstance(m, ast.FunctionDef) and m.name == '_net_make':
                        self.fns[n.name] = m
        for c in ('Ser', 'Par'):
            if c not in self.fns:
                raise Untranslatable('%s._net_make not found' % c)
        self.check_maker()

    def check_maker(self):
        """NetlistMaker.__call__ takes nodes 0 and 1 and emits the network from node 1 to node 0;
        NetlistHelper._node hands out 0, 1, 2, ..."""
        t = ast.parse(open(os.path.join(self.repo, 'lcapy', 'netlistmaker.py')).read())
        ok = False
        for n in ast.walk(t):
            if isinstance(n, ast.FunctionDef) and n.name == '__call__':
                u = [ast.unparse(s) for s in n.body if not (isinstance(s, ast.Expr) and isinstance(s.value, ast.Constant))]
                ok = u == ['n1 = self._node', 'n2 = self._node', 'return self.net._net_make(self, n2, n1, dir=self.dir)']
        if not ok:
            raise Untranslatable('lcapy/netlistmaker.py: NetlistMaker.__call__ is not "n1 = node; n2 = node; net._net_make(self, n2, n1)"')
        t = ast.parse(open(os.path.join(self.repo, 'lcapy', 'netlisthelper.py')).read())
        ok = False
        for n in ast.walk(t):
            if isinstance(n, ast.FunctionDef) and n.name == '_node':
                u = [ast.unparse(s) for s in n.body if not (isinstance(s, ast.Expr) and isinstance(s.value, ast.Constant))]
                ok = u == ["if not hasattr(self, '_node_counter'):\n    self._node_counter = 0", 'ret = self._node_counter',
                           'self._node_counter += 1', 'return ret']
        if not ok:
            raise Untranslatable('lcapy/netlisthelper.py: NetlistHelper._node is not the counter 0, 1, 2, ...')

    def emit(self, arities=(2, 3, 4, 5, 6, 7), classes=('Ser', 'Par')):
        """Coq obligations: the symbolic execution at each arity equals the hand-written emitter"""
        o = ['(* GENERATED by tools/tr_netmake.py from lcapy/oneport.py (sha256 %s): Ser._net_make and Par._net_make' % self.sha,
             '   executed symbolically for each argument count, against the emitters of theory/OnePortNet.v *)',
             'Require Import LT.FieldSec LT.OnePort LT.OnePortNet.', 'From Coq Require Import List Arith.', 'Import ListNotations.', '',
             'Section Obl.', 'Variable L : Type.', 'Notation emitter := (emitter L).',
             "Ltac nm := intros; unfold par_emit, par3; cbn;",
             "  repeat match goal with |- context [let '(_, _) := ?t in _] => destruct t as [? ?] end;",
             "  cbn; repeat first [rewrite <- app_assoc | progress cbn [app]]; rewrite ?app_nil_r; reflexivity.", '']
        names = []
        errs = {}
        for cls, model in (('Ser', 'ser_emit'), ('Par', 'par_emit')):
            if cls not in classes:
                continue
            for N in arities:
                nm = '%s_net_make_arity_%d' % (cls.lower(), N)
                try:
                    term = Exec(self.fns[cls], N).coq()
                except Untranslatable as ex:
                    errs[nm] = str(ex)
                    continue
                es = ' '.join('e%d' % k for k in range(N))
                o.append('(* %s._net_make with %d arguments *)' % (cls, N))
                o.append('Lemma %s (%s : emitter) (a b n : nat) :\n  (%s)\n  = %s [%s] a b n.\nProof. nm. Qed.\n'
                         % (nm, es, term, model, '; '.join('e%d' % k for k in range(N))))
                names.append(nm)
        o.append('End Obl.')
        o += ['Print Assumptions %s.' % n for n in names]
        return names, errs, '\n'.join(o) + '\n'


if __name__ == '__main__':
    import sys
    tr = NetMakeTranslator(sys.argv[1] if len(sys.argv) > 1 else '/repo')
    names, errs, txt = tr.emit()
    print(txt)
    print('(* errors: %s *)' % errs)
