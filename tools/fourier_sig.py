"""Structured signals of the C12 class, shared by checks/c12.py (generator, Coq
printing, Lcapy source text) and tools/impl_fourier.py (numeric evaluation for
the quadrature search oracle, independent of Lcapy and SymPy).

JSON form (nested lists):
  ['SB', pid, {par: num}]    table pattern (names of checks/c12gen.PIDNUM)
  ['SO', oid, {par: num}]    signal whose transform Lcapy takes from SymPy
  ['SSc', num, sig]          constant factor
  ['SAd', sig, sig]
  ['SAf', 'a', 'b', sig]     x(a t + b), rationals
  ['SMo', w, sig]            e^{j 2 pi w t} x(t); w = ['f', 'p/q'] (e^{j 2 pi (p/q) t}) or ['w', 'p/q'] (e^{j (p/q) t})
num = 'p/q' | ['c', 're', 'im'] (complex rational) | ['jtpi', 'p/q'] (j 2 pi p/q)
"""
from fractions import Fraction

PIDNUM = {'const': 0, 't': 1, 't2': 2, 'abs': 3, 'sign': 4, 'step': 5, 'recip': 6, 'recip2': 7, 'tstep': 8, 'expu': 9,
          'sincn': 10, 'sincu': 11, 'sincn2': 12, 'rect': 13, 'tri': 14, 'trap': 15, 'trap0': 16, 'reciplin': 17,
          'sech': 18, 'csch': 19, 'tanh': 20, 'cexp': 21, 'tratio': 22, 'tration': 23}
OIDNUM = {'delta0': 0, 'delta1': 1, 'delta2': 2, 'twoexp': 3, 'gauss': 4, 'gausspi': 5, 'texpu1': 6, 'texpu2': 7,
          'sgnexp': 8, 'ttwoexp': 9, 'lorentz': 10}
PARNUM = {'cval': 1, 'c0': 2, 'c1': 3, 'alpha': 4, 'a': 2, 'r': 2, 'c': 3, 'ta': 5, 'tb': 6}


def F(x):
    return Fraction(x)


def fs(x):
    x = Fraction(x)
    return '%d/%d' % (x.numerator, x.denominator)


def src_q(x):
    """rational as Lcapy source"""
    x = Fraction(x)
    if x.denominator == 1:
        return str(x.numerator) if x >= 0 else '(%d)' % x.numerator
    return '(%d/%d)' % (x.numerator, x.denominator)


def src_num(n):
    if isinstance(n, str):
        return src_q(n)
    if n[0] == 'c':
        re, im = F(n[1]), F(n[2])
        if im == 0:
            return src_q(re)
        if re == 0:
            return '(%s*j)' % src_q(im)
        return '(%s + %s*j)' % (src_q(re), src_q(im))
    if n[0] == 'jtpi':
        return '(j*2*pi*%s)' % src_q(n[1])
    raise ValueError(n)


def lin_src(a, b, v):
    a, b = F(a), F(b)
    s = v if a == 1 else ('-%s' % v if a == -1 else '%s*%s' % (src_q(a), v))
    if b > 0:
        s += ' + %s' % src_q(b)
    elif b < 0:
        s += ' - %s' % src_q(-b)
    return s


# ---- Coq printing -----------------------------------------------------------------------
def coq_q(x):
    x = Fraction(x)
    return '(qc (%d) %d)' % (x.numerator, x.denominator)


def coq_lp(l):
    return '(%s, %s, %s)' % tuple(coq_q(q) for q in l)


def num_cq(n):
    """(re lp, im lp) as lists of Fractions"""
    z = [Fraction(0)] * 3
    if isinstance(n, str):
        return ([Fraction(0), F(n), Fraction(0)], list(z))
    if n[0] == 'c':
        return ([Fraction(0), F(n[1]), Fraction(0)], [Fraction(0), F(n[2]), Fraction(0)])
    if n[0] == 'jtpi':
        return (list(z), [Fraction(0), Fraction(0), 2 * F(n[1])])
    raise ValueError(n)


def coq_cq(n):
    re, im = num_cq(n)
    return '(%s, %s)' % (coq_lp(re), coq_lp(im))


def w_lp(w):
    """modulation frequency f0 as Laurent number: ['f', q] -> q ; ['w', q] -> q/(2 pi)"""
    if w[0] == 'f':
        return [Fraction(0), F(w[1]), Fraction(0)]
    return [F(w[1]) / 2, Fraction(0), Fraction(0)]


def coq_sig(s):
    k = s[0]
    if k in ('SB', 'SO'):
        num = (PIDNUM if k == 'SB' else OIDNUM)[s[1]]
        ps = '; '.join('(%d%%nat, %s)' % (PARNUM[p], coq_cq(v)) for p, v in sorted(s[2].items()))
        return '(%s %d%%nat [%s])' % (k, num, ps)
    if k == 'SSc':
        return '(SSc %s %s)' % (coq_cq(s[1]), coq_sig(s[2]))
    if k == 'SAd':
        return '(SAd %s %s)' % (coq_sig(s[1]), coq_sig(s[2]))
    if k == 'SAf':
        return '(SAf %s %s %s)' % (coq_q(s[1]), coq_q(s[2]), coq_sig(s[3]))
    if k == 'SMo':
        return '(SMo %s %s)' % (coq_lp(w_lp(s[1])), coq_sig(s[2]))
    raise ValueError(k)


# ---- Lcapy source text --------------------------------------------------------------------
def base_src(kind, name, ps, arg):
    """source of a base signal with its variable replaced by the text `arg` (parenthesised where needed)"""
    A = '(%s)' % arg
    if kind == 'SB':
        if name == 'const':
            return src_num(ps['cval'])
        if name == 't':
            return A
        if name == 't2':
            return '%s**2' % A
        if name == 'abs':
            return 'abs%s' % A
        if name == 'sign':
            return 'sign%s' % A
        if name == 'step':
            return 'u%s' % A
        if name == 'recip':
            return '1/%s' % A
        if name == 'recip2':
            return '1/%s**2' % A
        if name == 'tstep':
            return '%s*u%s' % (A, A)
        if name == 'expu':
            c0 = ps.get('c0', '0/1')
            e = '%s*%s' % (src_num(ps['c1']), A)
            if c0 not in ('0/1', '0'):
                e += ' + %s' % src_num(c0)
            return 'exp(%s)*u%s' % (e, A)
        if name in ('sincn', 'sincu', 'rect', 'tri'):
            return '%s%s' % (name, A)
        if name == 'sincn2':
            return 'sincn%s**2' % A
        if name == 'trap':
            return 'trap(%s, %s)' % (arg, src_num(ps['alpha']))
        if name == 'reciplin':
            return '1/(%s*%s + %s)' % (src_num(ps['c1']), A, src_num(ps['c0']))
        if name in ('tratio', 'tration'):
            return '%s/(%s*%s - %s*j)' % (A, src_num(ps['ta']), A, src_num(ps['tb']))
        if name == 'cexp':
            raise ValueError('cexp is written through SMo')
    else:
        if name.startswith('delta'):
            n = int(name[5:])
            return 'DiracDelta(%s)' % arg if n == 0 else 'DiracDelta(%s, %d)' % (arg, n)
        if name == 'twoexp':
            return 'exp(-%s*abs%s)' % (src_num(ps['a']), A)
        if name == 'gauss':
            return 'exp(-(%s/%s)**2)' % (A, src_num(ps['r']))
        if name == 'gausspi':
            return 'exp(-pi*(%s/%s)**2)' % (A, src_num(ps['r']))
        if name in ('texpu1', 'texpu2'):
            n = int(name[5:])
            return '%s**%d*exp(%s*%s)*u%s' % (A, n, src_num(ps['c']), A, A)
        if name == 'sgnexp':
            return 'sign%s*exp(-%s*abs%s)' % (A, src_num(ps['a']), A)
        if name == 'ttwoexp':
            return '%s*exp(-%s*abs%s)' % (A, src_num(ps['a']), A)
        if name == 'lorentz':
            return '2*%s/(%s**2 + (2*pi*%s)**2)' % (src_num(ps['a']), src_num(ps['a']), A)
    raise ValueError((kind, name))


def sig_src(s, v, aff=None):
    """Lcapy source of the signal in variable v; aff = (a, b): the argument a*v + b accumulated so far"""
    a, b = aff if aff is not None else (Fraction(1), Fraction(0))
    arg = lin_src(a, b, v)
    k = s[0]
    if k in ('SB', 'SO'):
        return base_src(k, s[1], s[2], arg)
    if k == 'SSc':
        return '%s*(%s)' % (src_num(s[1]), sig_src(s[2], v, (a, b)))
    if k == 'SAd':
        return '(%s) + (%s)' % (sig_src(s[1], v, (a, b)), sig_src(s[2], v, (a, b)))
    if k == 'SAf':
        # x(a' u + b') with u = a v + b
        return sig_src(s[3], v, (F(s[1]) * a, F(s[1]) * b + F(s[2])))
    if k == 'SMo':
        w = s[1]
        e = 'exp(j*2*pi*%s*(%s))' % (src_q(w[1]), arg) if w[0] == 'f' else 'exp(j*%s*(%s))' % (src_q(w[1]), arg)
        return '%s*(%s)' % (e, sig_src(s[2], v, (a, b)))
    raise ValueError(k)


# ---- features -------------------------------------------------------------------------------
def features(s):
    k = s[0]
    if k == 'SB':
        return {'pid:' + s[1]}
    if k == 'SO':
        return {'oid:' + s[1]}
    if k == 'SSc':
        return features(s[2])
    if k == 'SAd':
        return features(s[1]) | features(s[2])
    if k == 'SAf':
        return features(s[3]) | {'rule:simshift'}
    if k == 'SMo':
        return features(s[2]) | {'rule:mod'}
    raise ValueError(k)


# ---- numeric evaluation (quadrature oracle) ----------------------------------------------------
def num_val(n, mp):
    if isinstance(n, str):
        return mp.mpf(F(n).numerator) / F(n).denominator
    if n[0] == 'c':
        return mp.mpc(num_val(n[1], mp), num_val(n[2], mp))
    if n[0] == 'jtpi':
        return mp.mpc(0, 2 * mp.pi * num_val(n[1], mp))
    raise ValueError(n)


def base_num(kind, name, ps, t, mp):
    if kind == 'SB':
        if name == 'rect':
            return mp.mpf(1) if abs(t) < 0.5 else mp.mpf(0)
        if name == 'tri':
            return max(mp.mpf(0), 1 - abs(t))
        if name == 'trap':
            al = num_val(ps['alpha'], mp)
            foo = abs(t) - mp.mpf(1) / 2
            if foo >= al / 2:
                return mp.mpf(0)
            if foo <= -al / 2:
                return mp.mpf(1)
            return mp.mpf(1) / 2 - foo / al
        if name == 'expu':
            if t < 0:
                return mp.mpf(0)
            return mp.exp(num_val(ps['c1'], mp) * t + num_val(ps.get('c0', '0/1'), mp))
        if name == 'sincn2':
            return mp.sincpi(t) ** 2
    else:
        if name == 'twoexp':
            return mp.exp(-num_val(ps['a'], mp) * abs(t))
        if name == 'gauss':
            return mp.exp(-(t / num_val(ps['r'], mp)) ** 2)
        if name == 'gausspi':
            return mp.exp(-mp.pi * (t / num_val(ps['r'], mp)) ** 2)
        if name in ('texpu1', 'texpu2'):
            if t < 0:
                return mp.mpf(0)
            return t ** int(name[5:]) * mp.exp(num_val(ps['c'], mp) * t)
        if name == 'sgnexp':
            return mp.sign(t) * mp.exp(-num_val(ps['a'], mp) * abs(t))
        if name == 'ttwoexp':
            return t * mp.exp(-num_val(ps['a'], mp) * abs(t))
    raise ValueError('no numeric evaluator for %s %s' % (kind, name))


def sig_num(s, t, mp):
    k = s[0]
    if k in ('SB', 'SO'):
        return base_num(k, s[1], s[2], t, mp)
    if k == 'SSc':
        return num_val(s[1], mp) * sig_num(s[2], t, mp)
    if k == 'SAd':
        return sig_num(s[1], t, mp) + sig_num(s[2], t, mp)
    if k == 'SAf':
        return sig_num(s[3], F(s[1]).numerator * t / F(s[1]).denominator + mp.mpf(F(s[2]).numerator) / F(s[2]).denominator, mp)
    if k == 'SMo':
        w = s[1]
        ph = 2 * mp.pi * num_val(w[1], mp) * t if w[0] == 'f' else num_val(w[1], mp) * t
        return mp.exp(mp.mpc(0, 1) * ph) * sig_num(s[2], t, mp)
    raise ValueError(k)


def support(s):
    """(lo, hi, breakpoints) of an absolutely integrable signal as floats, or None when not integrable /
    not supported by the quadrature oracle"""
    k = s[0]
    if k == 'SB':
        n, ps = s[1], s[2]
        if n == 'rect':
            return (-0.5, 0.5, [-0.5, 0.5])
        if n == 'tri':
            return (-1.0, 1.0, [-1.0, 0.0, 1.0])
        if n == 'trap':
            al = float(F(ps['alpha']))
            if not (0 < al <= 1):
                return None
            A, B = (1 - al) / 2, (1 + al) / 2
            return (-B, B, [-B, -A, A, B])
        if n == 'expu':
            c1 = ps['c1']
            re = float(F(c1)) if isinstance(c1, str) else (float(F(c1[1])) if c1[0] == 'c' else 0.0)
            if re >= 0:
                return None
            return (0.0, 45.0 / -re, [0.0])
        return None
    if k == 'SO':
        n, ps = s[1], s[2]
        if n in ('twoexp', 'sgnexp', 'ttwoexp'):
            a = float(F(ps['a']))
            T = 50.0 / a
            return (-T, T, [0.0])
        if n in ('gauss', 'gausspi'):
            r = abs(float(F(ps['r'])))
            T = 12.0 * r
            return (-T, T, [0.0])
        if n in ('texpu1', 'texpu2'):
            c = ps['c']
            re = float(F(c)) if isinstance(c, str) else float(F(c[1]))
            if re >= 0:
                return None
            return (0.0, 60.0 / -re, [0.0])
        return None
    if k == 'SSc':
        return support(s[2])
    if k == 'SMo':
        return support(s[2])
    if k == 'SAd':
        a, b = support(s[1]), support(s[2])
        if a is None or b is None:
            return None
        return (min(a[0], b[0]), max(a[1], b[1]), sorted(set(a[2] + b[2])))
    if k == 'SAf':
        u = support(s[3])
        if u is None:
            return None
        a, b = float(F(s[1])), float(F(s[2]))
        pts = sorted((p - b) / a for p in [u[0], u[1]] + u[2])
        return (pts[0], pts[-1], sorted(set((p - b) / a for p in u[2])))
    raise ValueError(k)


def quad_transform(s, x, sign, mp):
    """int s(t) e^{sign j 2 pi x t} dt over the support (sign = -1 forward, +1 inverse)"""
    sup = support(s)
    if sup is None:
        return None
    lo, hi, brk = sup
    pts = sorted(set([lo, hi] + [b for b in brk if lo <= b <= hi]))
    # subdivide long stretches so that each piece holds few oscillations
    step = 0.5
    allp = []
    for a, b in zip(pts, pts[1:]):
        n = max(1, int((b - a) / step))
        allp += [a + (b - a) * i / n for i in range(n)]
    allp.append(pts[-1])
    g = lambda t: sig_num(s, t, mp) * mp.exp(mp.mpc(0, sign) * 2 * mp.pi * x * t)
    return mp.quad(g, [mp.mpf(p) for p in allp])
