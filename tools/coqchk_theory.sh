#!/bin/bash
# usage: tools/coqchk_theory.sh -- clean rebuild of coq/theory in a scratch directory and `coqchk -o` over every module;
# writes /verif/coqchk_theory.log (the context summary: axioms, type-in-type, guard/positivity assumptions)
set -e
d=/verif/.work/coqchk_$$
mkdir -p $d && cp /verif/coq/theory/*.v $d/ && cd $d
echo "-Q . LT" > _CoqProject; ls *.v >> _CoqProject
coq_makefile -f _CoqProject -o Makefile > /dev/null
timeout 3000 make -j16 > build.log 2>&1 || { tail -20 build.log; exit 1; }
mods=$(ls *.v | sed 's/\.v$//' | sed 's/^/LT./')
timeout 3000 coqchk -silent -o -Q . LT $mods > chk.log 2>&1; rc=$?
n=$(ls *.v | wc -l)
{ echo "# coqchk -o over $n theory modules, exit $rc, $(date -u +%FT%TZ)"; sed -n '/CONTEXT SUMMARY/,$p' chk.log; } > /verif/coqchk_theory.log
cd /verif && rm -rf $d
echo "coqchk exit $rc over $n modules"
