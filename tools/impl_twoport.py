"""Runs the REAL lcapy two-port matrix classes (from /repo) on the cases given
on stdin (JSON) and prints exact rational results (JSON).
case: {"kind":"A","prop":"Zparams","m":[a,b,c,d],"Z0":z,"mode":"num"|"gen"[,"t":[...]]}
numbers are strings "p/q".  mode gen: evaluate on XMatrix.generic() and then
substitute the entries (exercises the symbolic path incl. .simplify())."""
import sys, json, warnings
warnings.filterwarnings('ignore')
import sympy as sp
from lcapy import twoport

def R(x):
    return sp.Rational(x)

def run(case):
    k = case['kind']; cls = getattr(twoport, k + 'Matrix')
    m = [R(x) for x in case['m']]
    Z0 = R(case['Z0'])
    subs = {}
    for s in ('Z_0',):
        subs[sp.Symbol(s)] = Z0
    if case['mode'] == 'gen':
        M = cls.generic()
        gsubs = {}
        for e, v in zip([M[0, 0], M[0, 1], M[1, 0], M[1, 1]], m):
            gsubs[e.sympy] = v
    else:
        M = cls(((m[0], m[1]), (m[2], m[3])))
        gsubs = {}
    prop = case['prop']
    if prop in ('chain', 'cascade'):
        t = [R(x) for x in case['t']]
        T = cls(((t[0], t[1]), (t[2], t[3])))
        val = getattr(M, prop)(T)
    else:
        val = getattr(M, prop)
    def fin(x):
        x = sp.sympify(getattr(x, 'sympy', x))
        for s in list(x.free_symbols):
            if s.name == 'Z_0':
                x = x.subs(s, Z0)
        x = x.subs(gsubs)
        x = sp.cancel(sp.together(x))
        x = sp.Rational(x)
        return '%d/%d' % (x.p, x.q)
    if hasattr(val, 'shape') and val.shape == (2, 2):
        return {'mat': [fin(val[0, 0]), fin(val[0, 1]), fin(val[1, 0]), fin(val[1, 1])], 'cls': type(val).__name__}
    return {'val': fin(val), 'cls': type(val).__name__}

def main():
    cases = json.load(sys.stdin)
    res = []
    for c in cases:
        try:
            res.append(run(c))
        except Exception as e:
            res.append({'error': type(e).__name__ + ': ' + str(e)[:200]})
    json.dump(res, sys.stdout)

main()
