"""Circuit part of the C15 worker (imported by impl_formul.py): runs the real
NodalAnalysis / LoopAnalysis / StateSpaceMaker / matrix_equations of lcapy on
one netlist and dumps, as exact rationals at the rational point s0:

  * the reference solution (node voltages, branch currents) of the same netlist,
  * every printed nodal / mesh equation evaluated at probe assignments of its
    unknowns (all zero, one unknown = 1, one random assignment), so that the
    caller can compare the affine map with the Coq model and substitute the
    reference solution exactly,
  * the structural data the Coq models need (elements with node indices, leaf
    parameters, the voltage source picked per node, graph edges, loops),
  * state-space matrices, transfer matrix, characteristic polynomial, sources,
  * the matrices shown by matrix_equations versus those used by the solver.

Time-domain equations are evaluated through the operational calculus
(Derivative -> s X - x(0-), Integral -> X / s, constant c -> c / s, known source
f(t) -> its Laplace transform computed by sympy, independent of lcapy).
"""
import sympy as sp
from sympy.core.function import AppliedUndef


def rs(x):
    try:
        x = sp.sympify(x)
        if x.is_Rational:
            return '%d/%d' % (x.p, x.q)
        x = sp.cancel(sp.together(x))
        if x.is_Rational:
            return '%d/%d' % (x.p, x.q)
        x = sp.simplify(x)
        if x.is_Rational:
            return '%d/%d' % (x.p, x.q)
    except Exception:
        return None
    return None


def at(x, sub):
    """exact rational value of an lcapy/sympy expression after substitution, else None"""
    try:
        x = sp.sympify(getattr(x, 'sympy', x))
        m = {}
        for sy in x.free_symbols:
            if sy.name in sub:
                m[sy] = sub[sy.name]
        return rs(x.subs(m))
    except Exception:
        return None


class OpEval:
    """evaluation of a printed equation side at a probe assignment"""

    def __init__(self, tdom, s0, unknowns, env, env0):
        self.tdom = tdom
        self.s0 = s0
        self.unk = unknowns      # function/symbol name -> key
        self.env = env           # key -> value
        self.env0 = env0         # key -> value at 0- (time domain)
        self.t = sp.Symbol('t', real=True)

    def key(self, e):
        if isinstance(e, AppliedUndef):
            return self.unk.get(e.func.__name__)
        if isinstance(e, sp.Symbol):
            return self.unk.get(e.name)
        return None

    def has_unknown(self, e):
        return any(self.key(a) is not None for a in e.atoms(AppliedUndef, sp.Symbol))

    def lin(self, e, env):
        """homogeneous linear combination of unknowns -> value under env"""
        rep = {}
        for a in e.atoms(AppliedUndef, sp.Symbol):
            k = self.key(a)
            if k is not None:
                rep[a] = env[k]
        v = e.subs(rep)
        if v.free_symbols - set():
            # only allow leftover time symbols if they cancel
            v = sp.simplify(v)
        if v.free_symbols:
            raise ValueError('non-constant coefficient in linear part: %s' % e)
        return sp.nsimplify(v)

    def ev(self, e):
        e = sp.sympify(e)
        if not self.tdom:
            rep = {}
            for a in e.atoms(AppliedUndef, sp.Symbol):
                k = self.key(a)
                if k is not None:
                    rep[a] = self.env[k]
            v = e.subs(rep)
            for sy in list(v.free_symbols):
                if sy.name == 's':
                    v = v.subs(sy, self.s0)
            return v
        if isinstance(e, sp.Add):
            return sum(self.ev(a) for a in e.args)
        if not self.has_unknown(e):
            # known function of time (source value or constant): Laplace transform by sympy
            if not e.free_symbols:
                return e / self.s0
            tt = [x for x in e.free_symbols if x.name == 't']
            if len(tt) != 1:
                raise ValueError('unexpected symbols in source term %s' % e)
            ss = sp.Symbol('s_', positive=True)
            F = sp.laplace_transform(e.subs(tt[0], self.t), self.t, ss, noconds=True)
            if F.has(sp.LaplaceTransform):
                raise ValueError('no Laplace transform for %s' % e)
            return F.subs(ss, self.s0)
        if isinstance(e, sp.Mul):
            coef = sp.Integer(1)
            rest = []
            for a in e.args:
                if a.free_symbols or a.atoms(AppliedUndef):
                    rest.append(a)
                else:
                    coef *= a
            if len(rest) != 1:
                raise ValueError('unsupported product %s' % e)
            return coef * self.ev(rest[0])
        if self.key(e) is not None:
            return self.env[self.key(e)]
        if isinstance(e, sp.Derivative):
            g = e.args[0]
            return self.s0 * self.lin(g, self.env) - self.lin(g, self.env0)
        if isinstance(e, sp.Integral):
            g = e.args[0]
            return self.lin(g, self.env) / self.s0
        raise ValueError('unsupported term %s' % e)


def kind_label(kind):
    if not isinstance(kind, str):
        return 'ac'
    return kind


def tdom_kind(kind):
    return isinstance(kind, str) and kind in ('t', 'time', 'super')


def node_index_map(cc):
    """equipotential node name -> index (ground = -1), sorted as cct.node_list"""
    idx = {}
    k = 0
    for n in cc.node_list:
        if n == '0':
            idx[n] = -1
        else:
            idx[n] = k
            k += 1
    return idx


def run_circuit(case):
    import random
    import lcapy
    from lcapy import Circuit
    from lcapy.sym import ssym
    s0 = sp.Rational(case.get('s0', '2'))
    sub = {'s': s0}
    rng = random.Random(case.get('seed', 1))
    from lcapy import state as _state
    _state.current_sign_convention = case.get('convention', 'passive')
    c = Circuit()
    for line in case['netlist']:
        c.add(line)
    mode = case.get('mode', 'direct')
    out_conv = case.get('convention', 'passive')
    if mode == 'laplace':
        cc = c.laplace()
    elif mode == 'dc':
        cc = c.dc()
    elif mode == 'ac':
        cc = c.ac()
    else:
        cc = c
    if cc is None:
        return {'error': 'NoNetlist: conversion returned None'}
    out = {'mode': mode, 'convention': out_conv}
    want = case.get('want', ['nodal', 'mesh'])
    nidx = node_index_map(cc)
    out['node_index'] = nidx
    names = [nm for nm in cc.branch_list]
    out['names'] = names

    # ---- formulations first (their kind decides how the reference is read) -----------
    na = la = None
    if 'nodal' in want:
        try:
            na = cc.nodal_analysis()
            out['nodal_kind'] = kind_label(na.kind)
        except Exception as e:
            out['nodal_error'] = type(e).__name__ + ': ' + str(e)[:200]
    if 'mesh' in want:
        try:
            la = cc.mesh_analysis()
            out['mesh_kind'] = kind_label(la.kind)
        except Exception as e:
            out['mesh_error'] = type(e).__name__ + ': ' + str(e)[:200]
    kind = na.kind if na is not None else (la.kind if la is not None else None)
    klabel = kind_label(kind) if kind is not None else None
    out['kind'] = klabel
    omega = None
    if klabel == 'ac':
        omega = sp.sympify(getattr(kind, 'sympy', kind))
        out['omega'] = rs(omega)

    # ---- reference solution of the same netlist ----------------------------------------
    def ref_value(q):
        """q: a Superposition voltage/current of cc"""
        if klabel in ('t', 'time', 'super', 's', 'laplace', 'ivp', 'transient'):
            return at(q(lcapy.s), sub)
        if klabel == 'dc':
            return at(q.dc, sub)
        if klabel == 'ac':
            try:
                ph = q.select(kind)
            except Exception:
                return None
            return cplx(ph)
        return None

    def cplx(x):
        try:
            x = sp.sympify(getattr(x, 'sympy', x))
            x = sp.expand(sp.cancel(sp.together(x)))
            re, im = x.as_real_imag()
            re, im = sp.nsimplify(sp.simplify(re)), sp.nsimplify(sp.simplify(im))
            if re.is_Rational and im.is_Rational:
                return ['%d/%d' % (re.p, re.q), '%d/%d' % (im.p, im.q)]
        except Exception:
            pass
        return None
    refV = {}
    refI = {}
    if klabel is not None:
        try:
            for n in cc.node_list:
                refV[n] = ref_value(cc[n].V)
            for nm in names:
                try:
                    refI[nm] = ref_value(cc[nm].I)
                except Exception:
                    refI[nm] = None
        except Exception as e:
            out['ref_error'] = type(e).__name__ + ': ' + str(e)[:200]
    out['refV'] = refV
    out['refI'] = refI

    # ---- elements: structure + leaf parameters + what the solver uses --------------------
    elts = []
    subs_ = None
    try:
        subs_ = cc.sub
    except Exception:
        subs_ = None
    mna_elt = {}
    if subs_ is not None and len(subs_) == 1:
        sn = list(subs_.values())[0]
        out['mna_kind'] = str(sn.kind)
        for nm, e in sn.elements.items():
            mna_elt[nm] = e
    for nm in names:
        e = cc.elements[nm]
        cpt = e.cpt
        d = {'name': nm, 'type': e.type, 'cls': type(cpt).__name__,
             'mro': [k.__name__ for k in type(cpt).__mro__],
             'nodes': [cc.node_map[str(n)] for n in e.node_names[:2]]}
        d['n'] = [nidx.get(x) for x in d['nodes']]
        lp = {}
        try:
            lp['Z'] = at(cpt._Z, sub) if getattr(cpt, '_Z', None) is not None else None
        except Exception:
            lp['Z'] = None
        try:
            zk = cpt._Zkind(kind)
            lp['Zk'] = at(zk, sub) if klabel != 'ac' else cplx(zk)
        except Exception:
            lp['Zk'] = None
        for a, key in (('L', 'L'), ('C', 'C'), ('i0', 'i0'), ('v0', 'v0')):
            try:
                lp[key] = at(getattr(cpt, a), sub) if hasattr(cpt, a) else None
            except Exception:
                lp[key] = None
        lp['ic'] = bool(getattr(cpt, 'has_ic', False))
        d['lp'] = lp
        # the solver's parameters (C01-verified stamps read these)
        mp = {}
        me = mna_elt.get(nm)
        if me is not None:
            for key, f in (('pY', lambda x: x.Y.sympy), ('pZ', lambda x: x.Z.sympy), ('pIsc', lambda x: x.Isc.sympy), ('pVoc', lambda x: x.Voc.sympy)):
                try:
                    v = f(me)
                    mp[key] = at(v, sub) if klabel != 'ac' else cplx(v)
                except Exception:
                    mp[key] = None
        d['mna'] = mp
        elts.append(d)
    out['elements'] = elts
    pos = {d['name']: i for i, d in enumerate(elts)}

    # ---- source values the formulations print (select(kind) of the time-domain value) ----
    def source_values():
        """lsrcV / lsrcI of the model = what Superposition*(self.voc / self.isc).select(.) returns INSIDE the real
        voltage_equation / current_equation (observed by wrapping select for the duration of the call)"""
        from lcapy.superposition import Superposition
        orig = Superposition.select
        for d in elts:
            e = cc.elements[d['name']]
            if e.type not in ('V', 'I'):
                continue
            rec = []

            def spy(self_, k, _rec=rec):
                r_ = orig(self_, k)
                _rec.append(r_)
                return r_
            Superposition.select = spy
            try:
                if e.type == 'V':
                    e.cpt.voltage_equation(0, kind)
                else:
                    e.cpt.current_equation(0, kind)
            except Exception as ex:
                d['lp']['src_error'] = type(ex).__name__
            finally:
                Superposition.select = orig
            if rec:
                try:
                    d['lp']['srcV' if e.type == 'V' else 'srcI'] = eval_known(rec[0])
                except Exception as ex:
                    d['lp']['src_error'] = type(ex).__name__

    def eval_known(val):
        x = sp.sympify(getattr(val, 'sympy', val))
        ev = OpEval(tdom_kind(kind), s0, {}, {}, {})
        v = ev.ev(x)
        return rs(v) if klabel != 'ac' else cplx(v)
    if kind is not None:
        source_values()

    # ---- probes -----------------------------------------------------------------------------
    def rv():
        return sp.Rational(rng.randint(-9, 9), rng.randint(1, 4))

    def eq_probes(eqs, unknown_keys, unknown_names):
        """eqs: list of (label, lhs, rhs) sympy; returns list of dicts with residuals at probes"""
        tdom = tdom_kind(kind)
        probes = []
        zero = {k: sp.Integer(0) for k in unknown_keys}
        probes.append((dict(zero), dict(zero)))
        for k in unknown_keys:
            p = dict(zero)
            p[k] = sp.Integer(1)
            probes.append((p, dict(zero)))
        if tdom:
            for k in unknown_keys:
                p = dict(zero)
                p[k] = sp.Integer(1)
                probes.append((dict(zero), p))
        probes.append(({k: rv() for k in unknown_keys}, {k: (rv() if tdom else sp.Integer(0)) for k in unknown_keys}))
        res = []
        for label, lhs, rhs in eqs:
            vals = []
            err = None
            for env, env0 in probes:
                try:
                    ev = OpEval(tdom, s0, unknown_names, env, env0)
                    v = ev.ev(lhs) - ev.ev(rhs)
                    vals.append(rs(v) if klabel != 'ac' else cplx(v))
                except Exception as ex:
                    err = type(ex).__name__ + ': ' + str(ex)[:160]
                    vals.append(None)
            res.append({'label': label, 'vals': vals, 'error': err, 'lhs': str(lhs), 'rhs': str(rhs)})
        pj = [({str(k): rs(v) for k, v in env.items()}, {str(k): rs(v) for k, v in env0.items()}) for env, env0 in probes]
        return res, pj

    # ---- nodal ------------------------------------------------------------------------------------
    if na is not None:
        try:
            unknown_names = {}
            keys = []
            for node, u in na._unknowns.items():
                if node == '0':
                    continue
                x = sp.sympify(u.sympy)
                nm = x.func.__name__ if isinstance(x, AppliedUndef) else str(x)
                unknown_names[nm] = node
                keys.append(node)
            eqs = []
            picks = {}
            for node, (lhs, rhs) in na._equations.items():
                eqs.append((node, sp.sympify(getattr(lhs, 'sympy', lhs)), sp.sympify(getattr(rhs, 'sympy', rhs))))
                pk = None
                for e in na.cg.connected_cpts(node):
                    if e.type == 'V':
                        pk = e.name
                        break
                picks[node] = pk
            res, pj = eq_probes(eqs, keys, unknown_names)
            out['nodal'] = {'unknowns': keys, 'equations': res, 'probes': pj, 'picks': picks}
            out['nodal']['matrix'] = matrix_form(na, unknown_names, klabel, sub, cplx)
        except Exception as e:
            import traceback
            out['nodal_error'] = type(e).__name__ + ': ' + str(e)[:200] + traceback.format_exc()[-300:]

    # ---- mesh ----------------------------------------------------------------------------------------
    if la is not None:
        try:
            loops = [list(l) for l in la.loops()]
            gn = {}
            for n in la.cg.G.nodes():
                n = str(n)
                if n.startswith('*'):
                    gn[n] = 1000 + int(n[1:])
                else:
                    gn[n] = nidx.get(n)
            edges = []
            for u, v, dd in la.cg.G.edges(data=True):
                edges.append([gn[str(u)], gn[str(v)], dd['name']])
            unknown_names = {}
            keys = []
            for m, cur in enumerate(la._equations.keys()):
                x = sp.sympify(cur.sympy)
                nm = x.func.__name__ if isinstance(x, AppliedUndef) else str(x)
                unknown_names[nm] = m
                keys.append(m)
            eqs = []
            for m, (cur, (lhs, rhs)) in enumerate(la._equations.items()):
                eqs.append((m, sp.sympify(getattr(lhs, 'sympy', lhs)), sp.sympify(getattr(rhs, 'sympy', rhs))))
            res, pj = eq_probes(eqs, keys, unknown_names)
            out['mesh'] = {'loops': [[gn[str(x)] for x in l] for l in loops], 'loop_names': loops, 'edges': edges,
                           'equations': res, 'probes': pj, 'planar': bool(la.cg.is_planar)}
            out['mesh']['matrix'] = matrix_form(la, unknown_names, klabel, sub, cplx)
        except Exception as e:
            import traceback
            out['mesh_error'] = type(e).__name__ + ': ' + str(e)[:200] + traceback.format_exc()[-300:]

    if 'ss' in want:
        try:
            out['ss'] = run_ss(c, case, s0)
        except Exception as e:
            out['ss_error'] = type(e).__name__ + ': ' + str(e)[:200]
    if 'mna' in want:
        try:
            out['mna'] = run_mna(c, case, s0)
        except Exception as e:
            out['mna_error'] = type(e).__name__ + ': ' + str(e)[:200]
    return out


def laplace_at(e, s0):
    """Laplace transform (by sympy, independent of lcapy) of a causal source expression in t, evaluated at s0"""
    e = sp.sympify(e)
    tt = [x for x in e.free_symbols if x.name == 't']
    if not e.free_symbols:
        return e / s0
    if len(tt) != 1 or len(e.free_symbols) != 1:
        raise ValueError('unexpected symbols in source %s' % e)
    t = sp.Symbol('t', real=True)
    ss = sp.Symbol('s_', positive=True)
    F = sp.laplace_transform(e.subs(tt[0], t), t, ss, noconds=True)
    if F.has(sp.LaplaceTransform):
        raise ValueError('no Laplace transform for %s' % e)
    return F.subs(ss, s0)


def mat_rs(M):
    M = sp.Matrix(M)
    return [[rs(M[i, j]) for j in range(M.shape[1])] for i in range(M.shape[0])]


def fname(x):
    """name of the unknown function behind an entry such as x_0(t), Derivative(x_0(t), t), x_0(n + 1), v_C1(t)"""
    x = sp.sympify(x)
    if isinstance(x, sp.Derivative):
        return 'D:' + fname(x.args[0])
    if isinstance(x, AppliedUndef):
        arg = x.args[0]
        return ('N:' if (arg.is_Add and len(arg.free_symbols) == 1 and (arg - list(arg.free_symbols)[0]) == 1) else '') + x.func.__name__
    return str(x)


def ss_equation_structure(e):
    """printed state / output equation -> names on the left, and on the right the list of (matrix, vector names) products"""
    lhs = unwrap(e.lhs)
    rhs = unwrap(e.rhs)
    out = {'lhs': [fname(v) for v in sp.Matrix(lhs)]}
    terms = []
    adds = rhs.args if isinstance(rhs, sp.MatAdd) else [rhs]
    for t in adds:
        if not isinstance(t, sp.MatMul) or len(t.args) != 2:
            return {'error': 'unexpected term %s' % type(t).__name__}
        M, v = sp.Matrix(t.args[0]), sp.Matrix(t.args[1])
        terms.append({'M': [[rs(M[i, j]) for j in range(M.shape[1])] for i in range(M.shape[0])], 'v': [fname(x) for x in v]})
    out['terms'] = terms
    return out


def ss_printed(ss):
    out = {}
    for nm, f in (('state', ss.state_equations), ('output', ss.output_equations)):
        try:
            out[nm] = ss_equation_structure(f())
        except Exception as e:
            out[nm] = {'error': type(e).__name__ + ': ' + str(e)[:100]}
    out['xn'] = [fname(v) for v in sp.Matrix(ss.x)]
    out['un'] = [fname(v) for v in sp.Matrix(ss.u)] if all(isinstance(sp.sympify(v), AppliedUndef) for v in sp.Matrix(ss.u)) else None
    out['yn'] = [fname(v) for v in sp.Matrix(ss.y)]
    return out


def matrix_form(an, unknown_names, klabel, sub, cplx):
    """the A y = b form that NodalAnalysis / LoopAnalysis derive from their own equations (_analyse:
    sympy.linear_eq_to_matrix): A, b at the point, and which unknown sits at which position of y"""
    if klabel in ('t', 'time', 'super'):
        try:
            an.A
            return {'error': 'no ValueError for a time-domain kind'}
        except ValueError:
            return {'time_domain': True}
        except Exception as e:
            return {'error': type(e).__name__ + ': ' + str(e)[:100]}
    try:
        A = sp.Matrix(an.A)
        b = sp.Matrix(an.b)
        ys = [sp.sympify(getattr(x, 'sympy', x)) for x in an.y]
        val = (lambda x: cplx(sp.sympify(x).subs({sy: sub[sy.name] for sy in sp.sympify(x).free_symbols if sy.name in sub}))) if klabel == 'ac' else (lambda x: at(x, sub))
        ykeys = []
        for y in ys:
            nm = y.func.__name__ if isinstance(y, AppliedUndef) else str(y)
            ykeys.append(unknown_names.get(nm))
        return {'A': [[val(A[i, j]) for j in range(A.shape[1])] for i in range(A.shape[0])],
                'b': [val(b[i]) for i in range(b.shape[0])], 'ykeys': ykeys}
    except Exception as e:
        return {'error': type(e).__name__ + ': ' + str(e)[:100]}


def run_ss(c, case, s0):
    import random
    import lcapy
    from lcapy import Circuit
    rng = random.Random(case.get('seed', 1) + 77)
    out = {}
    ss = c.ss
    A, B, C, D = [sp.Matrix(m) for m in (ss.A, ss.B, ss.C, ss.D)]
    out['A'], out['B'], out['C'], out['D'] = mat_rs(A), mat_rs(B), mat_rs(C), mat_rs(D)
    out['printed'] = ss_printed(ss)
    out['x'] = [str(x) for x in sp.Matrix(ss.x)]
    out['y'] = [str(x) for x in sp.Matrix(ss.y)]
    out['x0'] = [rs(x) for x in sp.Matrix(ss.x0)]
    u = [sp.sympify(x) for x in sp.Matrix(ss.u)]
    out['u'] = [str(x) for x in u]
    try:
        out['U'] = [rs(laplace_at(x, s0)) for x in u]
    except Exception as e:
        out['U_error'] = type(e).__name__ + ': ' + str(e)[:100]
    svar = lcapy.s.sympy
    pts = [s0, s0 + 1, s0 + sp.Rational(5, 3)]
    out['points'] = [rs(p) for p in pts]
    # what the class computes from the matrices (sympy inverse / determinant = oracle)
    try:
        G = sp.Matrix(ss.G)
        out['G'] = [[rs(sp.sympify(G[i, j]).subs(svar, s0)) for j in range(G.shape[1])] for i in range(G.shape[0])]
    except Exception as e:
        out['G_error'] = type(e).__name__ + ': ' + str(e)[:100]
    try:
        P = sp.sympify(ss.characteristic_polynomial().sympy)
        out['P'] = [rs(P.subs(svar, p)) for p in pts]
        out['Psym'] = str(P)
    except Exception as e:
        out['P_error'] = type(e).__name__ + ': ' + str(e)[:100]
    try:
        Phi = sp.Matrix(ss.Phi)
        out['Phi'] = [[rs(sp.sympify(Phi[i, j]).subs(svar, s0)) for j in range(Phi.shape[1])] for i in range(Phi.shape[0])]
    except Exception as e:
        out['Phi_error'] = type(e).__name__ + ': ' + str(e)[:100]
    # the substituted netlist
    ssnet = []
    for nm, e in c.elements.items():
        ssnet.append({'name': nm, 'type': e.type, 'nodes': [str(n) for n in e.node_names], 'ss': str(e._ss_model()),
                      'is_L': bool(e.is_inductor), 'is_C': bool(e.is_capacitor),
                      'is_V': bool(e.is_independent_voltage_source), 'is_I': bool(e.is_independent_current_source)})
    out['ssnet'] = ssnet
    # reference: circuit analysis of the same circuit
    ref = []
    for yn in out['y']:
        try:
            if yn.startswith('v_'):
                node = yn[2:-3]
                ref.append(at(c[node].V(lcapy.s), {'s': s0}))
            else:
                nm = yn[2:-3]
                ref.append(at(c[nm].I(lcapy.s), {'s': s0}))
        except Exception:
            ref.append(None)
    out['yref'] = ref
    xref = []
    for xn in out['x']:
        try:
            nm = xn[2:-3]
            if xn.startswith('i_'):
                from lcapy import state as _state
                sg = -1 if _state.current_sign_convention == 'active' else 1     # the active convention reports -i for branch elements
                v_ = at(c[nm].I(lcapy.s), {'s': s0})
                xref.append(rs(sg * sp.Rational(v_)) if v_ is not None else None)
            else:
                xref.append(at(c[nm].V(lcapy.s), {'s': s0}))
        except Exception:
            xref.append(None)
    out['xref'] = xref
    # initial-state (zero-input) response by superposition of lcapy's own circuit analysis: response of the circuit as given
    # (sources + initial conditions) minus the response of the same netlist with the initial conditions removed (zero state)
    try:
        has_ic = any(bool(getattr(e.cpt, 'has_ic', False)) for e in c.elements.values())
        if has_ic:
            lines0 = []
            for nm, e in c.elements.items():
                line = str(e).split(';')[0].strip()
                if e.is_inductor or e.is_capacitor:
                    toks = line.split()
                    line = ' '.join(toks[:4])
                lines0.append(line)
            c0 = Circuit()
            for l in lines0:
                c0.add(l)
            out['zero_state_lines'] = lines0
            ref0 = []
            for yn in out['y']:
                try:
                    if yn.startswith('v_'):
                        full, zs = c[yn[2:-3]].V(lcapy.s), c0[yn[2:-3]].V(lcapy.s)
                    else:
                        full, zs = c[yn[2:-3]].I(lcapy.s), c0[yn[2:-3]].I(lcapy.s)
                    ref0.append(at(sp.sympify(full.sympy) - sp.sympify(zs.sympy), {'s': s0}))
                except Exception:
                    ref0.append(None)
            out['yref0'] = ref0
    except Exception as e:
        out['yref0_error'] = type(e).__name__ + ': ' + str(e)[:100]
    # the initial value each state variable has in the netlist (by the NAME of the state, not by position)
    xic = []
    for xn in out['x']:
        try:
            e = c.elements[xn[2:-3]]
            xic.append(rs(sp.sympify((e.cpt.i0 if xn.startswith('i_') else e.cpt.v0).sympy)))
        except Exception:
            xic.append(None)
    out['x_ic'] = xic
    # natural frequencies from circuit analysis: determinant of the MNA matrix of the Laplace-domain analysis
    try:
        subs_ = c.sub
        if len(subs_) == 1:
            sn = list(subs_.values())[0]
            out['mna_kind'] = str(sn.kind)
            Am = sn.mna._A
            out['mna_det'] = [rs(Am.subs(svar, p).det()) for p in pts]
    except Exception as e:
        out['mna_det_error'] = type(e).__name__ + ': ' + str(e)[:100]
    # random excitations of the substituted (resistive) circuit, solved by lcapy's own dc analysis
    exc = []
    states = [d['name'] for d in ssnet if d['is_L']] + [d['name'] for d in ssnet if d['is_C']]
    srcs = [d['name'] for d in ssnet if d['is_V']] + [d['name'] for d in ssnet if d['is_I']]
    out['state_order'] = states
    out['source_order'] = srcs
    for trial in range(2):
        X = {nm: sp.Rational(rng.randint(-6, 6), rng.randint(1, 3)) for nm in states}
        Uv = {nm: sp.Rational(rng.randint(-6, 6), rng.randint(1, 3)) for nm in srcs}
        lines = []
        newname = {}
        for d in ssnet:
            toks = d['ss'].split(';')[0].split()
            if d['is_L']:
                lines.append('%s %s %s dc {%s}' % (toks[0], toks[1], toks[2], -X[d['name']]))
                newname[d['name']] = toks[0]
            elif d['is_C']:
                lines.append('%s %s %s dc {%s}' % (toks[0], toks[1], toks[2], X[d['name']]))
                newname[d['name']] = toks[0]
            elif d['is_V'] or d['is_I']:
                lines.append('%s %s %s dc {%s}' % (toks[0], toks[1], toks[2], Uv[d['name']]))
                newname[d['name']] = toks[0]
            else:
                lines.append(d['ss'].split(';')[0])
                newname[d['name']] = toks[0]
        try:
            from lcapy import state as _state
            conv_ = _state.current_sign_convention
            # the state derivatives are physical quantities: current through the capacitor from its first to its
            # second node (passive convention), whichever convention is selected for reporting
            _state.current_sign_convention = 'passive'
            try:
                n = Circuit()
                for l in lines:
                    n.add(l)
                dotx = []
                for nm in states:
                    e = c.elements[nm]
                    if e.is_inductor:
                        dotx.append(rs(sp.sympify(n[newname[nm]].V.dc.sympy) / sp.sympify(e.cpt.L.sympy)))
                    else:
                        dotx.append(rs(sp.sympify(n[newname[nm]].I.dc.sympy) / sp.sympify(e.cpt.C.sympy)))
            finally:
                _state.current_sign_convention = conv_
            n = Circuit()
            for l in lines:
                n.add(l)
            dotx_unused = []
            ys = []
            for yn in out['y']:
                if yn.startswith('v_'):
                    ys.append(rs(n[yn[2:-3]].V.dc.sympy))
                elif c.elements[yn[2:-3]].is_inductor or c.elements[yn[2:-3]].is_capacitor:
                    # current of a substituted component: its sign convention is checked against circuit analysis
                    # (response oracle), not against the auxiliary source
                    ys.append(None)
                else:
                    ys.append(rs(n[newname[yn[2:-3]]].I.dc.sympy))
            exc.append({'X': [rs(X[k]) for k in states], 'U': [rs(Uv[k]) for k in srcs], 'dotx': dotx, 'y': ys, 'lines': lines})
        except Exception as e:
            exc.append({'error': type(e).__name__ + ': ' + str(e)[:120], 'lines': lines})
    out['excitations'] = exc
    return out


def run_mna(c, case, s0):
    """the matrix equations shown by SystemEquations versus the A, Z, X the solver uses"""
    import lcapy
    out = {}
    subs_ = c.sub
    if len(subs_) != 1:
        return {'skip': 'several analysis kinds'}
    sn = list(subs_.values())[0]
    mna = sn.mna
    svar = lcapy.s.sympy
    A, Z = mna._A, mna._Z
    out['kind'] = str(sn.kind)
    out['A'] = mat_rs(A.subs(svar, s0))
    out['Z'] = [rs(sp.sympify(z).subs(svar, s0)) for z in Z]
    forms = {}
    for form in ('A y = b', 'b = A y', 'default', 'Ainv b = y'):
        try:
            eq = mna.matrix_equations(form=form, invert=False)
            forms[form] = {'lhs': describe(unwrap(eq.lhs), svar, s0), 'rhs': describe(unwrap(eq.rhs), svar, s0)}
        except Exception as ex:
            forms[form] = {'error': type(ex).__name__ + ': ' + str(ex)[:120]}
    out['forms'] = forms
    try:
        out['X'] = [str(x) for x in mna.X] if hasattr(mna, 'X') else None
    except Exception:
        out['X'] = None
    try:
        out['unknowns'] = [str(x) for x in mna._unknowns] if hasattr(mna, '_unknowns') else None
    except Exception:
        out['unknowns'] = None
    return out


def unwrap(x):
    for a in ('expr', 'sympy'):
        try:
            y = getattr(x, a)
            if isinstance(y, sp.Basic) or isinstance(y, sp.MatrixBase):
                return y
        except Exception:
            pass
    return x


def describe(e, svar, s0):
    """structure of one side of a matrix equation: list of factors, each a matrix of exact values / names, or ('inv', matrix)"""
    fac = []
    args = e.args if isinstance(e, (sp.MatMul, sp.Mul)) else [e]
    for a in args:
        if isinstance(a, (sp.MatPow, sp.Pow)) and a.args[1] == -1:
            M = sp.Matrix(a.args[0])
            fac.append({'inv': [[rs(sp.sympify(M[i, j]).subs(svar, s0)) for j in range(M.shape[1])] for i in range(M.shape[0])]})
        else:
            M = sp.Matrix(a)
            vals = [[rs(sp.sympify(M[i, j]).subs(svar, s0)) for j in range(M.shape[1])] for i in range(M.shape[0])]
            if any(v is None for row in vals for v in row):
                fac.append({'names': [[str(M[i, j]) for j in range(M.shape[1])] for i in range(M.shape[0])]})
            else:
                fac.append({'vals': vals})
    return fac
