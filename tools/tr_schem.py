"""Fail-closed translator for C20: the schematic component geometry tables.

Reads the *source text* (python `ast`, nothing is imported or executed) of
    lcapy/schemcpts.py
    lcapy/schematics/components/*.py
and extracts, per drawable component class (single inheritance, resolved along
the base chain; classes created with defcpt(name, base, doc, cpt) included):

  pins-like tables  pins / normal_pins / mirror_pins / invert_pins / ... :
                    {pinname: (pinpos, x, y)} with x, y exact decimals
  node_pinnames, aliases, auxiliary, required_auxiliary,
  can_stretch, can_scale, default_width, default_aspect, shape_scale, w,
  place, directive, do_transpose
  whether `pins` is a property, and for the one supported property form
      return self.A if <cond> else self.B         -> default table B
  which geometry methods a class overrides (coords, scales, nodes, tf, ...)

and from class Cpt (cpt.py) the placement semantics:

  angle    : `if self.right: angle = 0 elif self.down: ... ` -> {dir: angle}
  R        : Rdict literal {angle: ((a, b), (c, d))}
  size     : option precedence ['size','right','down','left','up'], default_width, * shape_scale
  stretch  : `self.can_stretch and not self.fixed`
  w, h     : `return 1.0`, `return self.w / self.aspect`
  tf       : `centre + dot((x * self.w, y * self.h), self.R(angle_offset)) * scale`
             (Cpt.tf and FixedCpt.tf; the part used by tcoords: scale given)
  tcoords  : `tcoords[m] = self.tf((0, 0), coords[m], scale=scales[m])`
  scales   : 1 for every pin when not can_scale or pinpos ends with 'x'

Recognised class-body subset: docstring; `name = <literal expr>` where the
expression is built from numbers, strings, True/False/None, tuples, lists,
dicts, names bound earlier in the same class body, attribute access
`Base.attr` to an already translated class, unary -, + - * /;
`name.update(Base.attr)`; function definitions (recorded by name, the bodies
of the geometry-relevant ones are matched against the patterns above).
Anything else in a geometry-relevant position raises Untranslatable with
file:line - the check then reports a broken obligation.
"""
import ast
import hashlib
import os
from fractions import Fraction

GEOM_ATTRS = {'pins', 'node_pinnames', 'aliases', 'auxiliary', 'required_auxiliary', 'can_stretch',
              'can_scale', 'default_width', 'default_aspect', 'shape_scale', 'w', 'place', 'directive',
              'do_transpose', 'can_rotate', 'can_mirror', 'can_invert', 'default_pins'}
GEOM_METHODS = {'pins', 'coords', 'scales', 'nodes', 'tf', 'xtf', 'tcoords', 'xvals', 'yvals', 'size', 'stretch',
                'angle', 'R', 'w', 'h', 'aspect', 'required_pins', 'required_node_names', 'drawn_nodes',
                'fixed', 'free', 'offset', 'width', 'height'}
COMPONENT_FILES = ['cpt.py', 'stretchycpt.py', 'fixedcpt.py', 'bipole.py', 'wire.py', 'unipole.py', 'shape.py',
                   'twoport.py', 'transistor.py', 'chip.py', 'opamp.py', 'cable.py', 'adc.py', 'dac.py']


class Untranslatable(Exception):
    pass


def fail(fname, node, why):
    raise Untranslatable('%s:%s: %s: %s' % (fname, getattr(node, 'lineno', '?'), why,
                                            (ast.dump(node)[:160] if isinstance(node, ast.AST) else str(node))))


class Num(object):
    """exact decimal number read from a literal (keeps int/float-ness)"""

    def __init__(self, fr, isfloat):
        self.fr = Fraction(fr)
        self.isfloat = isfloat

    def __repr__(self):
        return 'Num(%s)' % self.fr


def num_of_const(v):
    if isinstance(v, bool):
        return v
    if isinstance(v, int):
        return Num(v, False)
    if isinstance(v, float):
        if v != v or v in (float('inf'), float('-inf')):
            raise ValueError('non-finite literal')
        return Num(Fraction(repr(v)), True)
    return v


class ClassInfo(object):
    def __init__(self, name, base, fname, line):
        self.name = name
        self.base = base
        self.fname = fname
        self.line = line
        self.attrs = {}        # own evaluated attributes
        self.bad_attrs = {}    # name -> reason (non-evaluable, non-geometry)
        self.methods = {}      # own methods: name -> (FunctionDef, is_property)

    def __repr__(self):
        return 'ClassInfo(%s<%s)' % (self.name, self.base)


class Translator(object):
    def __init__(self, repo):
        self.repo = repo
        self.classes = {}
        self.order = []
        self.shas = {}
        cdir = os.path.join(repo, 'lcapy', 'schematics', 'components')
        present = sorted(f for f in os.listdir(cdir) if f.endswith('.py') and f != '__init__.py')
        unknown = [f for f in present if f not in COMPONENT_FILES]
        if unknown:
            raise Untranslatable('lcapy/schematics/components: unexpected module(s) %s' % unknown)
        for f in COMPONENT_FILES:
            self._file(os.path.join(cdir, f), 'lcapy/schematics/components/' + f)
        self._file(os.path.join(repo, 'lcapy', 'schemcpts.py'), 'lcapy/schemcpts.py', defcpt=True)
        # placement semantics of class Cpt: each block is matched separately; a block that no longer
        # matches is recorded (the check reports it as a broken obligation) and the others still apply
        self.semantic_errors = []
        self.angle = None
        self.rdict = None
        for block in (self._sem_angle, self._sem_R, self._sem_size, self._sem_props, self._sem_tcoords, self._sem_tf,
                      self._sem_required):
            try:
                block()
            except Untranslatable as e:
                self.semantic_errors.append(str(e))

    # ---- reading ---------------------------------------------------------
    def _file(self, path, rel, defcpt=False):
        if not os.path.exists(path):
            raise Untranslatable('%s: missing' % rel)
        src = open(path).read()
        self.shas[rel] = hashlib.sha256(src.encode()).hexdigest()
        tree = ast.parse(src)
        for n in tree.body:
            if isinstance(n, ast.ClassDef):
                self._class(n, rel)
            elif defcpt and isinstance(n, ast.Expr) and isinstance(n.value, ast.Call) and \
                    isinstance(n.value.func, ast.Name) and n.value.func.id == 'defcpt':
                self._defcpt(n.value, rel)
            elif defcpt and isinstance(n, ast.FunctionDef) and n.name == 'defcpt':
                self._check_defcpt_def(n, rel)
            # imports, module docstring, helper functions, `classes = {}`,
            # `module = sys.modules[...]` carry no geometry

    def _check_defcpt_def(self, fn, rel):
        want = ("def defcpt(name, base, docstring, cpt=None):\n    if isinstance(base, str):\n        base = classes[base]\n"
                "    newclass = type(name, (base,), {'__doc__': docstring})\n    if cpt is not None:\n"
                "        newclass.tikz_cpt = cpt\n    classes[name] = newclass")
        if not self._same([fn], want):
            fail(rel, fn, 'defcpt() is not the plain subclass factory')

    def _defcpt(self, call, rel):
        if len(call.args) < 3 or call.keywords:
            fail(rel, call, 'unsupported defcpt call')
        a0, a1 = call.args[0], call.args[1]
        if not (isinstance(a0, ast.Constant) and isinstance(a0.value, str)):
            fail(rel, call, 'defcpt name is not a string literal')
        if isinstance(a1, ast.Name):
            base = a1.id
        elif isinstance(a1, ast.Constant) and isinstance(a1.value, str):
            base = a1.value
        else:
            fail(rel, call, 'defcpt base is not a name or string')
        if base not in self.classes:
            fail(rel, call, 'defcpt base %s unknown' % base)
        ci = ClassInfo(a0.value, base, rel, call.lineno)
        self.classes[ci.name] = ci
        self.order.append(ci.name)

    def _class(self, node, rel):
        if len(node.bases) != 1 or not isinstance(node.bases[0], ast.Name):
            fail(rel, node, 'class %s: expected exactly one simple base' % node.name)
        base = node.bases[0].id
        if base != 'object' and base not in self.classes:
            fail(rel, node, 'class %s: base %s not translated yet' % (node.name, base))
        if node.keywords or node.decorator_list:
            fail(rel, node, 'class %s: keywords/decorators' % node.name)
        ci = ClassInfo(node.name, None if base == 'object' else base, rel, node.lineno)
        env = {}
        for st in node.body:
            if isinstance(st, ast.Expr) and isinstance(st.value, ast.Constant) and isinstance(st.value.value, str):
                continue
            if isinstance(st, ast.Assign):
                if len(st.targets) != 1 or not isinstance(st.targets[0], ast.Name):
                    fail(rel, st, 'class %s: unsupported assignment target' % node.name)
                tname = st.targets[0].id
                try:
                    val = self._eval(st.value, env, rel)
                except Untranslatable as e:
                    if tname in GEOM_ATTRS or tname.endswith('pins') or tname.endswith('pins2'):
                        raise
                    ci.bad_attrs[tname] = str(e)
                    continue
                env[tname] = val
                ci.attrs[tname] = val
                continue
            if isinstance(st, ast.Expr) and isinstance(st.value, ast.Call):
                c = st.value
                if isinstance(c.func, ast.Attribute) and c.func.attr == 'update' and isinstance(c.func.value, ast.Name) \
                        and c.func.value.id in env and len(c.args) == 1 and not c.keywords \
                        and isinstance(env[c.func.value.id], dict):
                    other = self._eval(c.args[0], env, rel)
                    if not isinstance(other, dict):
                        fail(rel, st, 'update() argument is not a table')
                    d = dict(env[c.func.value.id])
                    d.update(other)
                    env[c.func.value.id] = d
                    ci.attrs[c.func.value.id] = d
                    continue
                fail(rel, st, 'class %s: unsupported call statement' % node.name)
            if isinstance(st, ast.FunctionDef):
                isprop = False
                for d in st.decorator_list:
                    if isinstance(d, ast.Name) and d.id == 'property':
                        isprop = True
                    elif isinstance(d, ast.Attribute) and d.attr == 'setter':
                        isprop = True
                    else:
                        fail(rel, st, 'class %s: unsupported decorator' % node.name)
                ci.methods[st.name] = (st, isprop)
                continue
            if isinstance(st, ast.Pass):
                continue
            fail(rel, st, 'class %s: unsupported class-body statement' % node.name)
        self.classes[ci.name] = ci
        self.order.append(ci.name)

    def _eval(self, e, env, rel):
        if isinstance(e, ast.Constant):
            try:
                return num_of_const(e.value)
            except ValueError:
                fail(rel, e, 'non-finite number')
        if isinstance(e, ast.Tuple):
            return tuple(self._eval(x, env, rel) for x in e.elts)
        if isinstance(e, ast.List):
            return [self._eval(x, env, rel) for x in e.elts]
        if isinstance(e, ast.Dict):
            d = {}
            for k, v in zip(e.keys, e.values):
                if k is None:
                    fail(rel, e, 'dict unpacking')
                kk = self._eval(k, env, rel)
                if not isinstance(kk, (str, Num)):
                    fail(rel, k, 'unsupported dict key')
                if isinstance(kk, Num):
                    kk = kk.fr
                if kk in d:
                    fail(rel, k, 'duplicate dict key %r' % (kk,))
                d[kk] = self._eval(v, env, rel)
            return d
        if isinstance(e, ast.Name):
            if e.id in env:
                return env[e.id]
            fail(rel, e, 'unbound name %s' % e.id)
        if isinstance(e, ast.Attribute) and isinstance(e.value, ast.Name) and e.value.id in self.classes:
            v = self.lookup(e.value.id, e.attr)
            if v is None:
                fail(rel, e, 'unknown class attribute')
            return v
        if isinstance(e, ast.UnaryOp) and isinstance(e.op, (ast.USub, ast.UAdd)):
            v = self._eval(e.operand, env, rel)
            if not isinstance(v, Num):
                fail(rel, e, 'unary minus of a non-number')
            return Num(-v.fr if isinstance(e.op, ast.USub) else v.fr, v.isfloat)
        if isinstance(e, ast.BinOp) and isinstance(e.op, (ast.Add, ast.Sub, ast.Mult, ast.Div)):
            a = self._eval(e.left, env, rel)
            b = self._eval(e.right, env, rel)
            if isinstance(a, tuple) and isinstance(b, tuple) and isinstance(e.op, ast.Add):
                return a + b
            if not (isinstance(a, Num) and isinstance(b, Num)):
                fail(rel, e, 'arithmetic on non-numbers')
            if isinstance(e.op, ast.Add):
                r = a.fr + b.fr
            elif isinstance(e.op, ast.Sub):
                r = a.fr - b.fr
            elif isinstance(e.op, ast.Mult):
                r = a.fr * b.fr
            else:
                if b.fr == 0:
                    fail(rel, e, 'division by zero')
                r = a.fr / b.fr
            return Num(r, a.isfloat or b.isfloat or isinstance(e.op, ast.Div))
        fail(rel, e, 'unsupported expression')

    # ---- resolution along the base chain ------------------------------------
    def chain(self, cname):
        out = []
        while cname is not None:
            if cname not in self.classes:
                raise Untranslatable('class %s not found' % cname)
            out.append(self.classes[cname])
            cname = self.classes[cname].base
        return out

    def lookup(self, cname, attr):
        """class attribute (None when absent); a property of that name that
        shadows it along the chain makes it 'dynamic'"""
        for ci in self.chain(cname):
            if attr in ci.methods:
                return ('dynamic', ci.name, ci.methods[attr][0].lineno)
            if attr in ci.attrs:
                return ci.attrs[attr]
            if attr in ci.bad_attrs:
                raise Untranslatable('%s.%s: %s' % (ci.name, attr, ci.bad_attrs[attr]))
        return None

    def method_owner(self, cname, meth):
        for ci in self.chain(cname):
            if meth in ci.methods:
                return ci.name
            if meth in ci.attrs:
                return ci.name + ':attr'
        return None

    # ---- placement semantics in class Cpt -------------------------------------
    def _method(self, cname, meth):
        ci = self.classes.get(cname)
        if ci is None or meth not in ci.methods:
            raise Untranslatable('%s.%s not found' % (cname, meth))
        return ci.methods[meth][0]

    @staticmethod
    def _same(stmts, want_src):
        """the statements equal (as ASTs) the ones written in want_src"""
        try:
            want = ast.parse(want_src).body
        except SyntaxError:
            return False
        return [ast.dump(x) for x in stmts] == [ast.dump(x) for x in want]

    @staticmethod
    def _body(fn):
        return [s for s in fn.body if not (isinstance(s, ast.Expr) and isinstance(s.value, ast.Constant))]

    def _sem_angle(self):
        rel = 'lcapy/schematics/components/cpt.py'
        fn = self._method('Cpt', 'angle')
        body = self._body(fn)
        if len(body) != 3 or not isinstance(body[0], ast.If):
            fail(rel, fn, 'unexpected shape of Cpt.angle')
        table = {}
        node = body[0]
        while True:
            t = node.test
            if not (isinstance(t, ast.Attribute) and isinstance(t.value, ast.Name) and t.value.id == 'self'
                    and t.attr in ('right', 'left', 'up', 'down')):
                fail(rel, t, 'Cpt.angle: unexpected test')
            if len(node.body) != 1 or not isinstance(node.body[0], ast.Assign) or ast.unparse(node.body[0].targets[0]) != 'angle':
                fail(rel, node, 'Cpt.angle: unexpected branch')
            v = self._eval(node.body[0].value, {}, rel)
            if not isinstance(v, Num) or t.attr in table:
                fail(rel, node, 'Cpt.angle: unexpected value')
            table[t.attr] = v.fr
            if len(node.orelse) == 1 and isinstance(node.orelse[0], ast.If):
                node = node.orelse[0]
                continue
            if not self._same(node.orelse, "angle = -90 if self.type in ('P',) else 0"):
                fail(rel, node, 'Cpt.angle: unexpected default branch')
            break
        if not self._same(body[1:], "if 'rotate' in self.opts:\n    angle += float(self.opts['rotate'])\nreturn angle"):
            fail(rel, fn, 'Cpt.angle: unexpected tail')
        if set(table) != {'right', 'left', 'up', 'down'}:
            fail(rel, fn, 'Cpt.angle: missing direction')
        self.angle_order = []
        node = body[0]
        while isinstance(node, ast.If):
            self.angle_order.append(node.test.attr)
            node = node.orelse[0] if node.orelse and isinstance(node.orelse[0], ast.If) else None
        self.angle = table
        for d in ('right', 'left', 'up', 'down'):
            p = self._method('Cpt', d)
            if not self._same(self._body(p), "return '%s' in self.opts" % d):
                fail(rel, p, 'Cpt.%s is not the option test' % d)
    def _sem_R(self):
        rel = 'lcapy/schematics/components/cpt.py'
        fn = self._method('Cpt', 'R')
        body = self._body(fn)
        if len(body) != 5 or not self._same(body[0:1], 'angle = self.angle + angle_offset') or \
                not (isinstance(body[1], ast.Assign) and ast.unparse(body[1].targets[0]) == 'Rdict') or \
                not self._same(body[2:], 'if angle in Rdict:\n    return array(Rdict[angle])\nt = angle / 180.0 * pi\n'
                                         'return array(((cos(t), sin(t)), (-sin(t), cos(t))))'):
            fail(rel, fn, 'unexpected shape of Cpt.R')
        rd = self._eval(body[1].value, {}, rel)
        self.rdict = {}
        for k, v in rd.items():
            if not (isinstance(v, tuple) and len(v) == 2 and all(isinstance(r, tuple) and len(r) == 2 and
                                                                  all(isinstance(x, Num) for x in r) for r in v)):
                fail(rel, body[1], 'Rdict entry is not a 2x2 matrix')
            self.rdict[Fraction(k)] = ((v[0][0].fr, v[0][1].fr), (v[1][0].fr, v[1][1].fr))
    def _sem_size(self):
        rel = 'lcapy/schematics/components/cpt.py'
        fn = self._method('Cpt', 'size')
        want = ("if 'size' in self.opts:\n    val = self.opts['size']\nelif self.right:\n    val = self.opts['right']\n"
                "elif self.down:\n    val = self.opts['down']\nelif self.left:\n    val = self.opts['left']\n"
                "elif self.up:\n    val = self.opts['up']\nelse:\n    val = self.default_width\n"
                "if val == '':\n    val = self.default_width\nreturn float(val) * self.shape_scale")
        if not self._same(self._body(fn), want):
            fail(rel, fn, 'unexpected Cpt.size')
        self.size_order = ['size', 'right', 'down', 'left', 'up']
    def _sem_props(self):
        rel = 'lcapy/schematics/components/cpt.py'
        for meth, want in (('stretch', 'return self.can_stretch and (not self.fixed)'),
                           ('fixed', "return self.boolattr('fixed')"),
                           ('free', "return self.boolattr('free')"),
                           ('w', 'return 1.0'),
                           ('h', 'return self.w / self.aspect'),
                           ('aspect', "return float(self.opts.get('aspect', self.default_aspect))"),
                           ('xvals', 'return self.tcoords[:, 0]'),
                           ('yvals', 'return self.tcoords[:, 1]'),
                           ('coords', 'rpins = self.required_pins\ncoords = [pin[1:] for pin in rpins]\nreturn coords')):
            fn = self._method('Cpt', meth)
            if not self._same(self._body(fn), want):
                fail(rel, fn, 'unexpected Cpt.%s' % meth)
        want = ("if opt not in self.opts:\n    return False\nif self.opts[opt] == '':\n    return True\nreturn self.opts[opt]")
        if not self._same(self._body(self._method('Cpt', 'boolattr')), want):
            fail(rel, self._method('Cpt', 'boolattr'), 'unexpected Cpt.boolattr')
    def _sem_tcoords(self):
        rel = 'lcapy/schematics/components/cpt.py'
        want = ("if hasattr(self, '_tcoords'):\n    return self._tcoords\ncoords = self.coords\nscales = self.scales\n"
                "tcoords = zeros((len(coords), 2))\nfor m in range(len(coords)):\n"
                "    tcoords[m] = self.tf((0, 0), coords[m], scale=scales[m])\nself._tcoords = tcoords\nreturn self._tcoords")
        if not self._same(self._body(self._method('Cpt', 'tcoords')), want):
            fail(rel, self._method('Cpt', 'tcoords'), 'unexpected Cpt.tcoords')
        want = ("if not self.can_scale:\n    return [1] * len(self.coords)\nrpins = self.required_pins\nscales = []\n"
                "for pin in rpins:\n    scale = 1\n    pinpos = pin[0]\n    if not pinpos.endswith('x'):\n"
                "        scale = 2 * self.scale / self.width\n    scales.append(scale)\nreturn scales")
        if not self._same(self._body(self._method('Cpt', 'scales')), want):
            fail(rel, self._method('Cpt', 'scales'), 'unexpected Cpt.scales')
    def _sem_tf(self):
        rel = 'lcapy/schematics/components/cpt.py'
        for cname, frel, scale_default in (('Cpt', rel, 'self.scale * self.sch.node_spacing'),
                                           ('FixedCpt', 'lcapy/schematics/components/fixedcpt.py',
                                            'self.scale * self.sch.node_spacing * self.size')):
            fn = self._method(cname, 'tf')
            want = ("if hasattr(offset[0], '__iter__'):\n    return [self.tf(centre, offset1, angle_offset, scale) for offset1 in offset]\n"
                    "(x, y) = offset\nif self.do_transpose:\n    if self.mirror:\n        y = -y\n    if self.invert:\n        x = -x\n"
                    "if scale is None:\n    scale = %s\n"
                    "return centre + dot((x * self.w, y * self.h), self.R(angle_offset)) * scale") % scale_default
            if not self._same(self._body(fn), want):
                fail(frel, fn, 'unexpected %s.tf' % cname)
            if [a.arg for a in fn.args.args] != ['self', 'centre', 'offset', 'angle_offset', 'scale']:
                fail(frel, fn, 'unexpected %s.tf signature' % cname)
    def _sem_required(self):
        rel = 'lcapy/schematics/components/cpt.py'
        want = ("node_names = []\nfor (pinname, node_name) in zip(self.node_pinnames, self.node_names):\n"
                "    if pinname != '':\n        node_names.append(node_name)\nreturn node_names")
        if not self._same(self._body(self._method('Cpt', 'required_node_names')), want):
            fail(rel, self._method('Cpt', 'required_node_names'), 'unexpected Cpt.required_node_names')

    # ---- per class geometry ----------------------------------------------------
    def pins_default(self, cname):
        """(table, source) for an un-mirrored, un-inverted instance, or raises"""
        v = self.lookup(cname, 'pins')
        if isinstance(v, dict):
            return v, 'pins'
        if isinstance(v, tuple) and v and v[0] == 'dynamic':
            owner = v[1]
            fn = self.classes[owner].methods['pins'][0]
            body = self._body(fn)
            if len(body) == 1 and isinstance(body[0], ast.Return) and isinstance(body[0].value, ast.IfExp):
                ie = body[0].value
                ok = all(isinstance(x, ast.Attribute) and isinstance(x.value, ast.Name) and x.value.id == 'self'
                         for x in (ie.body, ie.orelse))
                cond = ast.unparse(ie.test)
                if ok and cond in ('self.mirror', 'self.invert', 'self.mirrorinputs', 'self.mirrorinputs ^ self.mirror'):
                    t = self.lookup(cname, ie.orelse.attr)
                    if isinstance(t, dict):
                        return t, ie.orelse.attr
            raise Untranslatable('%s:%d: %s.pins property is outside the supported form' % (
                self.classes[owner].fname, fn.lineno, owner))
        raise Untranslatable('%s: no pins table' % cname)

    def geom(self, cname):
        """geometry record of a class for an instance without mirror/invert/
        aspect/scale/pindefs options; raises Untranslatable when the class
        overrides a geometry method this translator does not model"""
        if cname not in self.classes:
            raise Untranslatable('class %s not found' % cname)
        overrides = {}
        for m in GEOM_METHODS:
            o = self.method_owner(cname, m)
            if o is not None:
                overrides[m] = o
        allowed = {'pins': None, 'coords': 'Cpt', 'scales': 'Cpt', 'nodes': 'Cpt', 'tcoords': 'Cpt', 'xvals': 'Cpt',
                   'yvals': 'Cpt', 'size': 'Cpt', 'stretch': 'Cpt', 'angle': 'Cpt', 'R': 'Cpt', 'h': 'Cpt',
                   'aspect': 'Cpt', 'required_pins': 'Cpt', 'required_node_names': 'Cpt', 'fixed': 'Cpt',
                   'free': 'Cpt', 'offset': 'Cpt', 'width': 'Cpt', 'height': 'Cpt'}
        for m, o in overrides.items():
            if m in ('pins', 'tf', 'xtf', 'w', 'drawn_nodes'):
                continue
            if allowed.get(m) != o:
                raise Untranslatable('%s overrides %s (in %s): not modelled' % (cname, m, o))
        if overrides.get('tf') not in ('Cpt', 'FixedCpt'):
            raise Untranslatable('%s: tf defined in %s' % (cname, overrides.get('tf')))
        wowner = overrides.get('w')
        if wowner == 'Cpt':
            w = Fraction(1)
        elif wowner and wowner.endswith(':attr'):
            wv = self.lookup(cname, 'w')
            if not isinstance(wv, Num):
                raise Untranslatable('%s.w is not a number' % cname)
            w = wv.fr
        else:
            raise Untranslatable('%s.w overridden by a method in %s' % (cname, wowner))
        pins, src = self.pins_default(cname)
        for pn, pv in pins.items():
            if not (isinstance(pn, str) and isinstance(pv, tuple) and len(pv) == 3 and isinstance(pv[0], str)
                    and isinstance(pv[1], Num) and isinstance(pv[2], Num)):
                raise Untranslatable('%s.%s[%r] is not (pinpos, x, y)' % (cname, src, pn))

        def num(attr):
            v = self.lookup(cname, attr)
            if not isinstance(v, Num):
                raise Untranslatable('%s.%s is not a number' % (cname, attr))
            return v.fr

        def boolean(attr):
            v = self.lookup(cname, attr)
            if not isinstance(v, bool):
                raise Untranslatable('%s.%s is not a boolean' % (cname, attr))
            return v
        npn = self.lookup(cname, 'node_pinnames')
        if not (isinstance(npn, tuple) and all(isinstance(x, str) for x in npn)):
            raise Untranslatable('%s.node_pinnames is not a tuple of strings' % cname)
        aliases = self.lookup(cname, 'aliases')
        if not (isinstance(aliases, dict) and all(isinstance(k, str) and isinstance(v, str) for k, v in aliases.items())):
            raise Untranslatable('%s.aliases is not a str->str table' % cname)
        aux = self.lookup(cname, 'auxiliary')
        if not isinstance(aux, dict):
            raise Untranslatable('%s.auxiliary is not a table' % cname)
        raux = self.lookup(cname, 'required_auxiliary')
        if not (isinstance(raux, tuple) and all(isinstance(x, str) for x in raux)):
            raise Untranslatable('%s.required_auxiliary is not a tuple of strings' % cname)
        aspect = num('default_aspect')
        if aspect == 0:
            raise Untranslatable('%s.default_aspect is zero' % cname)
        return {
            'cls': cname, 'chain': [c.name for c in self.chain(cname)],
            'pins': {k: (v[0], v[1].fr, v[2].fr) for k, v in pins.items()}, 'pins_src': src,
            'auxiliary': {k: (v[0], v[1].fr, v[2].fr) for k, v in aux.items()}, 'required_auxiliary': list(raux),
            'node_pinnames': list(npn), 'aliases': dict(aliases),
            'can_stretch': boolean('can_stretch'), 'can_scale': boolean('can_scale'),
            'default_width': num('default_width'), 'default_aspect': aspect, 'shape_scale': num('shape_scale'),
            'w': w, 'h': w / aspect, 'place': boolean('place'), 'directive': boolean('directive'),
            'tf': overrides.get('tf'),
        }

    def drawable(self):
        """all concrete classes (those with a pins table and no untranslatable
        override) -> geom; and the list of (class, reason) that are not modelled"""
        out, skipped = {}, []
        for c in self.order:
            try:
                out[c] = self.geom(c)
            except Untranslatable as e:
                skipped.append((c, str(e)))
        return out, skipped


# ---- Coq emission ----------------------------------------------------------------
def qlit(x):
    x = Fraction(x)
    return '(%d # %d)' % (x.numerator, x.denominator)


def coq_ident(name):
    import re
    return re.sub(r'[^A-Za-z0-9_]', '_', name)


def coq_string(s):
    return '"%s"' % s.replace('"', '""')


DIRS = [('right', 'DRight'), ('up', 'DUp'), ('left', 'DLeft'), ('down', 'DDown')]


def emit_coq(tr, geoms, skipped, bipole_like):
    """LayoutGen.v: tables regenerated from the source + obligations (vm_compute)."""
    L = []
    L.append('(* GENERATED by tools/tr_schem.py from the current working tree of lcapy. Do not edit.')
    for rel, sha in sorted(tr.shas.items()):
        L.append('   %s sha256 %s' % (rel, sha))
    L.append('*)')
    L.append('From Coq Require Import QArith List Bool String Arith.')
    L.append('Require Import LT.Layout LT.LayoutPlace.')
    L.append('Import ListNotations.\nLocal Open Scope Q_scope.\nLocal Open Scope string_scope.\n')
    # direction -> angle -> matrix
    if tr.angle is None or tr.rdict is None:
        tr_angle, tr_rdict = {'right': 0, 'up': 0, 'left': 0, 'down': 0}, {}
    else:
        tr_angle, tr_rdict = tr.angle, tr.rdict
    L.append('(* Cpt.angle: direction option -> angle in degrees *)')
    L.append('Definition gen_angle (d : dir) : Q :=\n  match d with %s end.' % ' | '.join(
        '%s => %s' % (cd, qlit(tr_angle[pd])) for pd, cd in DIRS))
    L.append('(* Cpt.R: Rdict, keyed by angle *)')
    items = ['(%s, Mat2 %s %s %s %s)' % (qlit(k), qlit(m[0][0]), qlit(m[0][1]), qlit(m[1][0]), qlit(m[1][1]))
             for k, m in sorted(tr_rdict.items())]
    L.append('Definition gen_rdict : list (Q * mat2) := [%s].' % '; '.join(items))
    L.append('Fixpoint rd_lookup (l : list (Q * mat2)) (a : Q) : option mat2 :=\n'
             '  match l with [] => None | (k, m) :: r => if Qeq_bool k a then Some m else rd_lookup r a end.')
    L.append('Definition mat_eqb (a b : mat2) : bool :=\n  Qeq_bool (m11 a) (m11 b) && Qeq_bool (m12 a) (m12 b) && '
             'Qeq_bool (m21 a) (m21 b) && Qeq_bool (m22 a) (m22 b).')
    L.append('Definition all_dirs := [DRight; DUp; DLeft; DDown].')
    L.append('(* exact cos/sin of multiples of 90 degrees *)')
    L.append('Definition cs90 (a : Q) : option (Q * Q) :=\n'
             '  if Qeq_bool a 0 then Some (1, 0) else if Qeq_bool a (90#1) then Some (0, 1)\n'
             '  else if Qeq_bool a (180#1) then Some (-1, 0) else if Qeq_bool a (-(180#1)) then Some (-1, 0)\n'
             '  else if Qeq_bool a (-(90#1)) then Some (0, -1) else if Qeq_bool a (270#1) then Some (0, -1) else None.')
    L.append('''
(* obligation: the matrix Cpt.R() returns for each direction is the one the
   hand model LayoutPlace.rot_of_dir uses *)
Example gen_rot_matches_model :
  forallb (fun d => match rd_lookup gen_rdict (gen_angle d) with Some m => mat_eqb m (rot_of_dir d) | None => false end) all_dirs = true.
Proof. vm_compute. reflexivity. Qed.

(* obligation: every Rdict entry is the rotation by its key:
   ((cos t, sin t), (-sin t, cos t)), the formula R() uses for other angles *)
Example gen_rdict_is_rotation :
  forallb (fun km => match cs90 (fst km) with
                     | Some (c, s) => mat_eqb (snd km) (Mat2 c s (- s) c)
                     | None => false end) gen_rdict = true.
Proof. vm_compute. reflexivity. Qed.

(* obligation: the direction table is right=0, up=90, left=180, down=-90, i.e.
   the unit vector from the first pin to the second is rotated onto the hinted
   direction *)
Example gen_direction_vectors :
  forallb (fun d => match rd_lookup gen_rdict (gen_angle d) with
                    | Some m => let v := rowmul (1, 0) m in
                                Qeq_bool (fst v) (fst (dir_vec d)) && Qeq_bool (snd v) (snd (dir_vec d))
                    | None => false end) all_dirs = true.
Proof. vm_compute. reflexivity. Qed.
''')
    # per class tables
    L.append('Record geom := mkGeom { gm_pins : list (string * (Q * Q)); gm_npn : list string; gm_aliases : list (string * string);\n'
             '  gm_w : Q; gm_h : Q; gm_stretch : bool; gm_dwidth : Q; gm_sscale : Q }.')
    L.append('Fixpoint pin_lookup (l : list (string * (Q * Q))) (n : string) : option (Q * Q) :=\n'
             '  match l with [] => None | (k, v) :: r => if String.eqb k n then Some v else pin_lookup r n end.')
    L.append('Definition has_pin (g : geom) (n : string) : bool := match pin_lookup (gm_pins g) n with Some _ => true | None => false end.')
    L.append('(* every node pinname (except the undrawn "") has a coordinate, every alias points at a pin *)')
    L.append('Definition geom_ok (g : geom) : bool :=\n'
             '  forallb (fun n => String.eqb n "" || has_pin g n) (gm_npn g) &&\n'
             '  forallb (fun a => has_pin g (snd a)) (gm_aliases g) &&\n'
             '  Qle_bool 0 (gm_w g) && negb (Qeq_bool (gm_w g) 0) && Qle_bool 0 (gm_h g) && negb (Qeq_bool (gm_h g) 0) &&\n'
             '  negb (Qeq_bool (gm_dwidth g * gm_sscale g) 0) && Qle_bool 0 (gm_dwidth g * gm_sscale g).')
    L.append('(* no two pins of one table share a coordinate (each drawn pin gets its own position) *)')
    L.append('Fixpoint pins_distinct (l : list (string * (Q * Q))) : bool :=\n'
             '  match l with [] => true | (_, p) :: r =>\n'
             '    negb (existsb (fun q => Qeq_bool (fst (snd q)) (fst p) && Qeq_bool (snd (snd q)) (snd p)) r) && pins_distinct r end.')
    L.append('Fixpoint nodup_str (l : list string) : bool :=\n'
             '  match l with [] => true | a :: r => negb (existsb (String.eqb a) r) && nodup_str r end.')
    L.append('(* pins of the drawn nodes, in node order: elt.coords for a component whose nodes are all given *)')
    L.append('Definition req_pins (g : geom) : list (Q * Q) :=\n'
             '  flat_map (fun n => if String.eqb n "" then [] else match pin_lookup (gm_pins g) n with Some p => [p] | None => [] end) (gm_npn g).')
    L.append('Definition is_bipole_geom (g : geom) : bool :=\n'
             '  match req_pins g with\n  | [p1; p2] => Qeq_bool (fst p1) (-(1#2)) && Qeq_bool (snd p1) 0 && Qeq_bool (fst p2) (1#2) && Qeq_bool (snd p2) 0\n'
             '  | _ => false end && Qeq_bool (gm_w g) 1 && Qeq_bool (gm_h g) 1.')
    names = []
    for c in sorted(geoms):
        g = geoms[c]
        ident = 'geom_' + coq_ident(c)
        names.append((c, ident))
        pins = '; '.join('(%s, (%s, %s))' % (coq_string(k), qlit(v[1]), qlit(v[2])) for k, v in g['pins'].items())
        npn = '; '.join(coq_string(x) for x in g['node_pinnames'])
        al = '; '.join('(%s, %s)' % (coq_string(k), coq_string(v)) for k, v in g['aliases'].items())
        L.append('(* %s  (%s:%d), pins from %s *)' % (c, tr.classes[c].fname, tr.classes[c].line, g['pins_src']))
        L.append('Definition %s : geom := mkGeom [%s] [%s] [%s] %s %s %s %s %s.' % (
            ident, pins, npn, al, qlit(g['w']), qlit(g['h']), 'true' if g['can_stretch'] else 'false',
            qlit(g['default_width']), qlit(g['shape_scale'])))
        L.append('Example %s_ok : geom_ok %s = true.\nProof. vm_compute. reflexivity. Qed.' % (ident, ident))
        L.append('Example %s_pins_distinct : pins_distinct (gm_pins %s) = true.\nProof. vm_compute. reflexivity. Qed.' % (ident, ident))
        if c in bipole_like:
            L.append('(* %s is drawn with the Bipole geometry, so LayoutPlace.constraints_from_hints applies to it *)' % c)
            L.append('Example %s_is_bipole : is_bipole_geom %s = true.\nProof. vm_compute. reflexivity. Qed.' % (ident, ident))
    L.append('\n(* Cpt.stretch = can_stretch and not fixed *)')
    L.append('Definition gen_stretch (can_stretch fixed : bool) : bool := can_stretch && negb fixed.')
    L.append('Example gen_stretch_table : forallb (fun cs => forallb (fun f => Bool.eqb (gen_stretch cs f) (if f then false else cs)) [true; false]) [true; false] = true.\nProof. vm_compute. reflexivity. Qed.')
    for c, why in skipped:
        L.append('(* not modelled: %s -- %s *)' % (c, why.replace('*)', '* )')))
    return '\n'.join(L) + '\n', names


if __name__ == '__main__':
    import sys
    tr = Translator(sys.argv[1] if len(sys.argv) > 1 else '/repo')
    geoms, skipped = tr.drawable()
    print('angle', tr.angle, 'rdict', tr.rdict)
    print(len(geoms), 'classes;', 'skipped:', skipped)
    for c in ('R', 'W', 'O', 'P', 'TF', 'Eopamp', 'TP', 'TL', 'Uchip2121', 'K', 'Q'):
        try:
            g = tr.geom(c)
            print(c, g['chain'], g['node_pinnames'], g['w'], g['h'], g['can_stretch'], g['default_width'], g['shape_scale'],
                  {k: g['pins'][k] for k in list(g['pins'])[:4]})
        except Untranslatable as e:
            print(c, 'UNTRANSLATABLE', e)
