"""Fail-closed translator (property C02) for the hand-over of the reactive state:

    lcapy/netlist.py       Netlist.initialize(self, cct, T=None)
    lcapy/netlistmixin.py  NetlistMixin._initialize_from_circuit(self, cct, T=None)
    lcapy/mnacpts.py       Cpt._initialize, C._initialize, L._initialize

-> the Coq record  init_gen : initdef  (model and specification: coq/props/C02init.v).

Recognised shapes (anything else raises Untranslatable with the source location):

    def initialize(self, cct, T=None):
        if isinstance(cct, dict):
            return self._initialize_from_dict(cct)
        return self._initialize_from_circuit(cct, T)

    def _initialize_from_circuit(self, cct, T=None):
        if T is None:
            raise ValueError(...)
        new = self._new()
        for cpt in self._elements.values():
            ic = 0
            if cpt.name in cct.reactances:
                if cpt.type == 'C':
                    ic = <circ>[cpt.name].<v|i>[.remove_condition()].subs(<T|0>)
                else:
                    ic = <circ>[cpt.name].<v|i>[.remove_condition()].subs(<T|0>)
            net = cpt._initialize(ic)
            new._add(net)
        return new

    Cpt._initialize(self, ic):   return self._copy()
    C/L._initialize(self, ic):   return self._netmake(args=(self.args[0], <ic|0>))

  <circ> ::= cct | self
"""
import ast
import hashlib
import os
import warnings


class Untranslatable(Exception):
    pass


def _parse(src):
    with warnings.catch_warnings():
        warnings.simplefilter('ignore')
        return ast.parse(src)


def _body(fn):
    """statements of a function without its docstring"""
    b = list(fn.body)
    if b and isinstance(b[0], ast.Expr) and isinstance(getattr(b[0], 'value', None), ast.Constant) and isinstance(b[0].value.value, str):
        b = b[1:]
    return b


def _find_method(tree, cls, name, path):
    for n in tree.body:
        if isinstance(n, ast.ClassDef) and n.name == cls:
            fns = [m for m in n.body if isinstance(m, ast.FunctionDef) and m.name == name]
            if len(fns) != 1:
                raise Untranslatable('%s: class %s defines %d methods %s' % (path, cls, len(fns), name))
            return fns[0]
    raise Untranslatable('%s: class %s not found' % (path, cls))


def _is_name(e, n):
    return isinstance(e, ast.Name) and e.id == n


def _is_attr(e, obj, attr):
    return isinstance(e, ast.Attribute) and e.attr == attr and _is_name(e.value, obj)


class InitTranslation:
    def __init__(self, repo):
        self.files = {}
        trees = {}
        for f in ('netlist.py', 'netlistmixin.py', 'mnacpts.py'):
            p = os.path.join(repo, 'lcapy', f)
            src = open(p).read()
            self.files[f] = hashlib.sha256(src.encode()).hexdigest()
            trees[f] = (p, _parse(src))
        self._dispatch(*trees['netlist.py'])
        self._from_circuit(*trees['netlistmixin.py'])
        p, t = trees['mnacpts.py']
        self.base_copies = self._base(p, _find_method(t, 'Cpt', '_initialize', p))
        self.c_init = self._reactive_init(p, _find_method(t, 'C', '_initialize', p))
        self.l_init = self._reactive_init(p, _find_method(t, 'L', '_initialize', p))

    # -- Netlist.initialize -------------------------------------------------------------------------
    def _dispatch(self, path, tree):
        fn = _find_method(tree, 'Netlist', 'initialize', path)
        if [a.arg for a in fn.args.args] != ['self', 'cct', 'T']:
            raise Untranslatable('%s:%d: initialize: unexpected parameters' % (path, fn.lineno))
        b = _body(fn)
        if len(b) != 2 or not isinstance(b[0], ast.If) or not isinstance(b[1], ast.Return):
            raise Untranslatable('%s:%d: initialize: unexpected body' % (path, fn.lineno))
        t = b[0].test
        if not (isinstance(t, ast.Call) and _is_name(t.func, 'isinstance') and len(t.args) == 2 and _is_name(t.args[0], 'cct') and _is_name(t.args[1], 'dict')) or b[0].orelse:
            raise Untranslatable('%s:%d: initialize: unexpected dispatch test' % (path, b[0].lineno))
        r = b[1].value
        if not (isinstance(r, ast.Call) and _is_attr(r.func, 'self', '_initialize_from_circuit') and len(r.args) == 2 and not r.keywords
                and _is_name(r.args[0], 'cct') and _is_name(r.args[1], 'T')):
            raise Untranslatable('%s:%d: initialize: the circuit branch is not `return self._initialize_from_circuit(cct, T)`' % (path, b[1].lineno))

    # -- NetlistMixin._initialize_from_circuit ---------------------------------------------------------
    def _from_circuit(self, path, tree):
        fn = _find_method(tree, 'NetlistMixin', '_initialize_from_circuit', path)
        self.src = ast.unparse(fn)
        if [a.arg for a in fn.args.args] != ['self', 'cct', 'T']:
            raise Untranslatable('%s:%d: unexpected parameters' % (path, fn.lineno))
        b = _body(fn)

        def bad(node, msg):
            raise Untranslatable('%s:%d: _initialize_from_circuit: %s' % (path, getattr(node, 'lineno', fn.lineno), msg))
        if len(b) != 4:
            bad(fn, 'expected 4 statements, found %d' % len(b))
        g, new, loop, ret = b
        if not (isinstance(g, ast.If) and isinstance(g.test, ast.Compare) and _is_name(g.test.left, 'T') and len(g.test.ops) == 1 and isinstance(g.test.ops[0], ast.Is)
                and isinstance(g.test.comparators[0], ast.Constant) and g.test.comparators[0].value is None and len(g.body) == 1 and isinstance(g.body[0], ast.Raise) and not g.orelse):
            bad(g, 'expected `if T is None: raise ...`')
        if not (isinstance(new, ast.Assign) and len(new.targets) == 1 and _is_name(new.targets[0], 'new') and isinstance(new.value, ast.Call)
                and _is_attr(new.value.func, 'self', '_new') and not new.value.args and not new.value.keywords):
            bad(new, 'expected `new = self._new()`')
        if not (isinstance(ret, ast.Return) and _is_name(ret.value, 'new')):
            bad(ret, 'expected `return new`')
        it = loop.iter if isinstance(loop, ast.For) else None
        if not (it is not None and _is_name(loop.target, 'cpt') and not loop.orelse and isinstance(it, ast.Call) and not it.args and isinstance(it.func, ast.Attribute)
                and it.func.attr == 'values' and _is_attr(it.func.value, 'self', '_elements')):
            bad(loop, 'expected `for cpt in self._elements.values():`')
        lb = loop.body
        if len(lb) != 4:
            bad(loop, 'expected 4 statements in the loop, found %d' % len(lb))
        d, sel, mk, add = lb
        if not (isinstance(d, ast.Assign) and len(d.targets) == 1 and _is_name(d.targets[0], 'ic') and isinstance(d.value, ast.Constant) and d.value.value == 0 and d.value.value is not False):
            bad(d, 'expected the default `ic = 0`')
        if not (isinstance(mk, ast.Assign) and len(mk.targets) == 1 and _is_name(mk.targets[0], 'net') and isinstance(mk.value, ast.Call) and _is_attr(mk.value.func, 'cpt', '_initialize')
                and len(mk.value.args) == 1 and not mk.value.keywords and _is_name(mk.value.args[0], 'ic')):
            bad(mk, 'expected `net = cpt._initialize(ic)`')
        if not (isinstance(add, ast.Expr) and isinstance(add.value, ast.Call) and _is_attr(add.value.func, 'new', '_add') and len(add.value.args) == 1 and _is_name(add.value.args[0], 'net')
                and not add.value.keywords):
            bad(add, 'expected `new._add(net)`')
        # membership test
        t = sel.test if isinstance(sel, ast.If) else None
        if not (t is not None and not sel.orelse and isinstance(t, ast.Compare) and _is_attr(t.left, 'cpt', 'name') and len(t.ops) == 1 and isinstance(t.ops[0], ast.In)
                and _is_attr(t.comparators[0], 'cct', 'reactances')):
            bad(sel, 'expected `if cpt.name in cct.reactances:`')
        if len(sel.body) != 1 or not isinstance(sel.body[0], ast.If):
            bad(sel, 'expected one if/else on cpt.type')
        ty = sel.body[0]
        tt = ty.test
        if not (isinstance(tt, ast.Compare) and _is_attr(tt.left, 'cpt', 'type') and len(tt.ops) == 1 and isinstance(tt.ops[0], ast.Eq) and isinstance(tt.comparators[0], ast.Constant)
                and tt.comparators[0].value == 'C'):
            bad(ty, "expected `if cpt.type == 'C':`")
        if len(ty.body) != 1 or len(ty.orelse) != 1:
            bad(ty, 'expected one assignment per branch')
        rc = self._read(ty.body[0], bad)
        ro = self._read(ty.orelse[0], bad)
        if (rc[1:] != ro[1:]):
            bad(ty, 'the two branches read different circuits / instants / conditions: %s vs %s' % (rc, ro))
        self.wave_c, self.wave_other = rc[0], ro[0]
        self.source, self.point, self.strip = rc[1], rc[2], rc[3]

    @staticmethod
    def _read(st, bad):
        """ic = <circ>[cpt.name].<v|i>[.remove_condition()].subs(<T|0>)  ->  (wave, circ, point, strip)"""
        if not (isinstance(st, ast.Assign) and len(st.targets) == 1 and _is_name(st.targets[0], 'ic')):
            bad(st, 'expected `ic = ...`')
        e = st.value
        if not (isinstance(e, ast.Call) and isinstance(e.func, ast.Attribute) and e.func.attr == 'subs' and len(e.args) == 1 and not e.keywords):
            bad(st, 'expected `.subs(T)`')
        a = e.args[0]
        if _is_name(a, 'T'):
            point = 'AtT'
        elif isinstance(a, ast.Constant) and a.value == 0 and a.value is not False:
            point = 'AtZero'
        else:
            bad(st, 'unexpected evaluation point %s' % ast.unparse(a))
        e = e.func.value
        strip = False
        if isinstance(e, ast.Call) and isinstance(e.func, ast.Attribute) and e.func.attr == 'remove_condition' and not e.args and not e.keywords:
            strip = True
            e = e.func.value
        if not (isinstance(e, ast.Attribute) and e.attr in ('v', 'i')):
            bad(st, 'expected the waveform .v or .i')
        wave = 'WV' if e.attr == 'v' else 'WI'
        e = e.value
        if not (isinstance(e, ast.Subscript) and _is_attr(e.slice, 'cpt', 'name') and isinstance(e.value, ast.Name) and e.value.id in ('cct', 'self')):
            bad(st, 'expected cct[cpt.name] or self[cpt.name]')
        return wave, ('FromBefore' if e.value.id == 'cct' else 'FromSelf'), point, strip

    # -- Cpt / C / L ._initialize ------------------------------------------------------------------------
    @staticmethod
    def _base(path, fn):
        b = _body(fn)
        if [a.arg for a in fn.args.args] != ['self', 'ic']:
            raise Untranslatable('%s:%d: Cpt._initialize: unexpected parameters' % (path, fn.lineno))
        if not (len(b) == 1 and isinstance(b[0], ast.Return) and isinstance(b[0].value, ast.Call) and _is_attr(b[0].value.func, 'self', '_copy') and not b[0].value.args and not b[0].value.keywords):
            raise Untranslatable('%s:%d: Cpt._initialize is not `return self._copy()`' % (path, fn.lineno))
        return True

    @staticmethod
    def _reactive_init(path, fn):
        """return self._netmake(args=(self.args[0], <ic|0>)) -> (icarg, keeps the value)"""
        b = _body(fn)
        if [a.arg for a in fn.args.args] != ['self', 'ic']:
            raise Untranslatable('%s:%d: _initialize: unexpected parameters' % (path, fn.lineno))
        r = b[0].value if len(b) == 1 and isinstance(b[0], ast.Return) else None
        if not (isinstance(r, ast.Call) and _is_attr(r.func, 'self', '_netmake') and not r.args and len(r.keywords) == 1 and r.keywords[0].arg == 'args'
                and isinstance(r.keywords[0].value, ast.Tuple) and len(r.keywords[0].value.elts) == 2):
            raise Untranslatable('%s:%d: _initialize is not `return self._netmake(args=(self.args[0], ic))`' % (path, fn.lineno))
        v, i = r.keywords[0].value.elts
        if not (isinstance(v, ast.Subscript) and _is_attr(v.value, 'self', 'args') and isinstance(v.slice, ast.Constant) and v.slice.value == 0 and v.slice.value is not False):
            raise Untranslatable('%s:%d: _initialize: the first argument is not self.args[0]' % (path, fn.lineno))
        if _is_name(i, 'ic'):
            ic = 'IcGiven'
        elif isinstance(i, ast.Constant) and i.value == 0 and i.value is not False:
            ic = 'IcZero'
        else:
            raise Untranslatable('%s:%d: _initialize: unexpected initial-condition argument %s' % (path, fn.lineno, ast.unparse(i)))
        return ic, True

    def record(self):
        def b(x):
            return 'true' if x else 'false'
        return 'InitDef %s %s %s %s %s (%s, %s) (%s, %s) %s' % (self.wave_c, self.wave_other, self.source, self.point, b(self.strip),
                                                                  self.c_init[0], b(self.c_init[1]), self.l_init[0], b(self.l_init[1]), b(self.base_copies))

    def coq_defs(self):
        return ('(* GENERATED by tools/tr_initialize.py from lcapy/netlist.py (Netlist.initialize), lcapy/netlistmixin.py\n'
                '   (NetlistMixin._initialize_from_circuit) and lcapy/mnacpts.py (Cpt/C/L._initialize). Do not edit. *)\n'
                'Definition init_gen : initdef := %s.\n' % self.record())


def theorems():
    return ('(* the hand-over of the CURRENT source is the specification\'s *)\n'
            'Theorem init_gen_ok : init_gen = init_ok_def.\n'
            'Proof. reflexivity. Qed.\n'
            '(* so every reactive component that `before` also has starts from the state variable (capacitor voltage, inductor\n'
            '   current) of `before` at T, with its value, name and kind unchanged *)\n'
            'Theorem initialize_gen_hands_over_state (name X : Type) (zero : X) sol rb (net : list (cpt name X)) T c :\n'
            '  In c net -> c_kind name X c <> KOther -> rb (c_name name X c) = true ->\n'
            '  In (Cpt name X (c_kind name X c) (c_name name X c) (c_val name X c) (Some (sol FromBefore (c_name name X c) (state_wave (c_kind name X c)) T)))\n'
            '     (initialize name X zero sol rb init_gen net T).\n'
            'Proof. rewrite init_gen_ok. apply initialize_hands_over_state. Qed.\n'
            'Theorem initialize_gen_keeps_structure (name X : Type) (zero : X) sol rb (net : list (cpt name X)) T :\n'
            '  map (fun c => (c_kind name X c, c_name name X c, c_val name X c)) (initialize name X zero sol rb init_gen net T)\n'
            '  = map (fun c => (c_kind name X c, c_name name X c, c_val name X c)) net.\n'
            'Proof. rewrite init_gen_ok. apply initialize_keeps_structure. Qed.\n'
            'Print Assumptions init_gen_ok. Print Assumptions initialize_gen_hands_over_state. Print Assumptions initialize_gen_keeps_structure.\n'
            'Print Assumptions initialize_ok_spec. Print Assumptions initialize_keeps_structure. Print Assumptions initialize_hands_over_state.\n'
            'Print Assumptions initialize_zero_for_new_reactances.\n')


if __name__ == '__main__':
    import sys
    t = InitTranslation(sys.argv[1] if len(sys.argv) > 1 else '/repo')
    print(t.coq_defs() + theorems())
