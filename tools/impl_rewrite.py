"""Worker for C05: runs a netlist rewrite of the REAL lcapy (from /repo, or
$VERIF_REPO) and dumps

  * the original and the rewritten netlist, re-parsed from their text
    (str(cct)) into the component-list model: name, type, node names, keyword,
    raw argument strings and their exact rational values at a rational point;
  * the answers of the oracles the rewrite consulted, in the enumeration
    order actually used: in_series()/in_parallel() sets, the (type, subset)
    items of _find_combine_subsets, every list(subset) conversion inside
    _do_simplify_combine  (the rewrite iterates over Python sets, so the order
    depends on PYTHONHASHSEED);
  * an independent electrical solution of both circuits (node voltages,
    component voltages and currents in the Laplace domain, exact rationals at
    s = s0) for the search oracle.

case: {"netlist":[lines], "op": "simplify"|"renumber"|"copy"|"expand"|"subs"|
       "s_model"|"noisy_kill"|"noisy"|"switch"|"switch_before"|"remove_dangling"|...,
       "args": {...}, "s0": "p/q", "point": {sym: "p/q"}, "solve": bool}
"""
import sys, json, warnings, os
warnings.filterwarnings('ignore')
import sympy as sp
from lcapy import Circuit, expr
from lcapy.sym import ssym
import lcapy.netlistsimplifymixin as NSM
from lcapy.netlistmixin import NetlistMixin

LOG = []


class _LoggingList(list):
    pass


def _log_list(x=()):
    l = list(x)
    if isinstance(x, (set, frozenset)):
        LOG.append(['list', [str(a) for a in l]])
    return l


# `list` is looked up in the module globals of netlistsimplifymixin before the
# builtins: shadow it there (nothing under /repo is edited)
NSM.list = _log_list

_orig_fcs = NetlistMixin._find_combine_subsets
_orig_ser = NetlistMixin._in_series_all
_orig_par = NetlistMixin._in_parallel_all


def _fcs(self, aset):
    r = _orig_fcs(self, aset)
    LOG.append(['subsets', sorted(str(a) for a in aset), [[str(k), sorted(str(a) for a in v)] for k, v in r.items()]])
    return r


def _ser(self):
    r = _orig_ser(self)
    LOG.append(['in_series', [sorted(str(a) for a in x) for x in r]])
    return r


def _par(self):
    r = _orig_par(self)
    LOG.append(['in_parallel', [sorted(str(a) for a in x) for x in r]])
    return r


_orig_cs = NSM.NetlistSimplifyMixin._simplify_combine_series
_orig_cp = NSM.NetlistSimplifyMixin._simplify_combine_parallel


def _cs(self, skip, explain=False, *args, **kwargs):
    LOG.append(['stage', 'series', [{'name': str(n), 'type': str(e.type), 'nodes': [str(x) for x in e.node_names]} for n, e in self._elements.items()]])
    return _orig_cs(self, skip, explain)


def _cp(self, skip, explain=False, *args, **kwargs):
    LOG.append(['stage', 'parallel', [{'name': str(n), 'type': str(e.type), 'nodes': [str(x) for x in e.node_names]} for n, e in self._elements.items()]])
    return _orig_cp(self, skip, explain)


_orig_ci = NSM.NetlistSimplifyMixin._check_ic


def _ci(self, subset, *args, **kwargs):
    # the element _check_ic pops from its copy of the set (set copies are
    # deterministic, so the same operations give the same element)
    first = next(iter(subset.copy()))
    LOG.append(['check_ic', sorted(str(a) for a in subset), str(first)])
    return _orig_ci(self, subset, *args, **kwargs)


NSM.NetlistSimplifyMixin._check_ic = _ci
_orig_anm = NetlistMixin.augment_node_map


def _anm(self, node_map=None):
    # the recorded oracles the model of augment_node_map needs: the items of
    # self.equipotential_nodes in dict order and Python's string order of the node names
    ent = ['node_map_call', {str(k): str(v) for k, v in (node_map or {}).items()},
           [[str(k), [str(n) for n in v]] for k, v in self.equipotential_nodes.items()],
           sorted(str(n) for n in self.nodes.keys())]
    LOG.append(ent)
    r = _orig_anm(self, node_map)
    LOG.append(['node_map', [[str(k), str(v)] for k, v in r.items()]])
    return r


NetlistMixin.augment_node_map = _anm
NSM.NetlistSimplifyMixin._simplify_combine_series = _cs
NSM.NetlistSimplifyMixin._simplify_combine_parallel = _cp
NetlistMixin._find_combine_subsets = _fcs
NetlistMixin._in_series_all = _ser
NetlistMixin._in_parallel_all = _par


def rat(x, point):
    try:
        x = sp.sympify(getattr(x, 'sympy', x))
        sub = {}
        for sy in x.free_symbols:
            if sy.name in point:
                sub[sy] = point[sy.name]
        x = x.subs(sub)
        if not x.is_number:
            x = sp.cancel(sp.together(x))
        if x.is_Rational:
            return '%d/%d' % (x.p, x.q)
        x = sp.nsimplify(sp.simplify(x))
        if x.is_Rational:
            return '%d/%d' % (x.p, x.q)
    except Exception:
        return None
    return None


def crat(x, point):
    """exact value of an expression as a Gaussian rational 'C:a/b:c/d' (or a plain 'a/b' when real), else None"""
    r = rat(x, point)
    if r is not None:
        return r
    try:
        x = sp.sympify(getattr(x, 'sympy', x))
        sub = {sy: point[sy.name] for sy in x.free_symbols if sy.name in point}
        re_, im_ = sp.simplify(x.subs(sub)).as_real_imag()
        re_, im_ = sp.nsimplify(re_), sp.nsimplify(im_)
        if re_.is_Rational and im_.is_Rational:
            return 'C:%d/%d:%d/%d' % (re_.p, re_.q, im_.p, im_.q)
    except Exception:
        return None
    return None


def mk(lines):
    c = Circuit()
    for l in lines:
        c.add(l)
    return c


def parse_net(text, point):
    """re-parse netlist text; one dict per element, in order"""
    c = mk([l for l in text.split('\n') if l.strip()])
    out = []
    for name, e in c.elements.items():
        d = {'name': str(name), 'type': str(e.type), 'cls': type(e).__name__, 'nodes': [str(n) for n in e.node_names],
             'kw': str(e.keyword[1]) if e.keyword and e.keyword[1] else '',
             'args': [None if a is None else str(a) for a in e.args], 'line': str(e)}
        vals = []
        for a in e.args:
            if a is None:
                vals.append(None)
                continue
            try:
                vals.append(crat(expr(a), point))
            except Exception:
                vals.append(None)
        d['vals'] = vals
        try:
            d['has_ic'] = bool(e.cpt.has_ic)
        except Exception:
            d['has_ic'] = False
        out.append(d)
    return out


def solve(c, point):
    """Laplace-domain node voltages and component V/I at s = s0, exact"""
    out = {'V': {}, 'cV': {}, 'cI': {}}
    if '0' not in c.nodes:
        return {'error': 'no ground'}
    try:
        for n in c.nodes:
            out['V'][str(n)] = rat(c.get_Vd(str(n), '0')(ssym), point)
        for name, e in c.elements.items():
            if e.type in ('W', 'O', 'P', 'K', 'XX', 'A') or e.nosim or e.ignore or len(e.node_names) < 2:
                continue
            out['cV'][str(name)] = rat(c.get_Vd(e.node_names[0], e.node_names[1])(ssym), point)
            try:
                out['cI'][str(name)] = rat(c.get_I(name)(ssym), point)
            except Exception as ex:
                out['cI'][str(name)] = None
    except Exception as ex:
        return {'error': type(ex).__name__ + ': ' + str(ex)[:200]}
    return out


def apply_op(c, op, a):
    if op == 'simplify':
        kw = {}
        for k in ('select', 'ignore', 'keep_nodes'):
            if a.get(k) is not None:
                kw[k] = list(a[k])
        for k in ('passes', 'series', 'parallel', 'dangling', 'disconnected'):
            if k in a:
                kw[k] = a[k]
        return c.simplify(**kw)
    if op == 'simplify_series':
        return c.simplify_series(**{k: a[k] for k in ('select', 'ignore', 'passes') if a.get(k) is not None})
    if op == 'simplify_parallel':
        return c.simplify_parallel(**{k: a[k] for k in ('select', 'ignore', 'passes') if a.get(k) is not None})
    if op == 'remove_dangling':
        return c.remove_dangling(**{k: a[k] for k in ('select', 'ignore', 'passes', 'keep_nodes') if a.get(k) is not None})
    if op == 'remove_disconnected':
        return c.remove_disconnected(**{k: a[k] for k in ('select', 'ignore', 'passes', 'keep_nodes') if a.get(k) is not None})
    if op == 'renumber':
        return c.renumber(dict(a['node_map'])) if a.get('node_map') is not None else c.renumber()
    if op == 'copy':
        return c.copy()
    if op == 'expand':
        return c.expand()
    if op == 'subs':
        return c.subs({k: sp.Rational(v) for k, v in a['subs'].items()})
    if op == 's_model':
        return c.s_model()
    if op == 'ac_model':
        return c.ac_model(sp.Rational(a.get('omega', '1')))
    if op == 'noisy':
        return c.noisy(*a.get('names', []))
    if op == 'noisy_kill':
        return c.noisy(*a.get('names', [])).kill_noise()
    if op == 'switch':
        return c.replace_switches(sp.Rational(a['t']))
    if op == 'switch_before':
        return c.replace_switches_before(sp.Rational(a['t']))
    raise ValueError('unknown op ' + op)


def run(case):
    del LOG[:]
    point = {'s': sp.Rational(case.get('s0', '2'))}
    for k, v in case.get('point', {}).items():
        point[k] = sp.Rational(v)
    if case['op'] == 'solve_only':
        c = mk(case['netlist'])
        if case.get('post_subs'):
            c = c.subs({k: sp.Rational(v) for k, v in case['post_subs'].items()})
        return {'solve': solve(c, point)}
    c = mk(case['netlist'])
    res = {'hashseed': os.environ.get('PYTHONHASHSEED')}
    point_o = dict(point)
    if case.get('orig_s_imag'):
        # ac_model: the s-dependent values of the ORIGINAL passive components are read at s = j omega
        point_o['s'] = sp.I * sp.Rational(case['orig_s_imag'])
    res['orig'] = parse_net(str(c), point_o)
    res['ground'] = '0' in c.nodes
    try:
        new = apply_op(c, case['op'], case.get('args', {}))
        text = str(new)
        res['text'] = text
    except Exception as ex:
        res['exc'] = type(ex).__name__
        res['exc_msg'] = str(ex)[:200]
        import traceback
        res['exc_tb'] = traceback.format_exc()[-700:]
        res['log'] = list(LOG)
        return res
    res['log'] = list(LOG)
    try:
        res['new'] = parse_net(text, point)
    except Exception as ex:
        res['reparse_error'] = type(ex).__name__ + ': ' + str(ex)[:200]
        return res
    if case.get('solve', True):
        # independent of the objects the rewrite produced: both circuits are rebuilt from text
        po = dict(point)
        res['solve_orig'] = solve(mk(case['netlist']), po)
        c2 = mk([l for l in text.split('\n') if l.strip()])
        if case.get('post_subs'):
            c2 = c2.subs({k: sp.Rational(v) for k, v in case['post_subs'].items()})
        res['solve_new'] = solve(c2, po)
    return res


class CaseTimeout(Exception):
    pass


def _alarm(signum, frame):
    raise CaseTimeout()


def main():
    import signal
    signal.signal(signal.SIGALRM, _alarm)
    cases = json.load(sys.stdin)
    out = []
    for c in cases:
        try:
            signal.alarm(int(c.get('timeout', 90)))
            try:
                out.append(run(c))
            finally:
                signal.alarm(0)
        except CaseTimeout:
            out.append({'error': 'timeout: case exceeded its time budget'})
        except Exception as e:
            import traceback
            out.append({'error': type(e).__name__ + ': ' + str(e)[:300], 'tb': traceback.format_exc()[-600:]})
    json.dump(out, sys.stdout)


main()
