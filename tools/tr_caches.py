"""Translator for C16: cache structure of the Lcapy netlist classes -> finite
tables and abstract programs for coq/theory/History.v.  Fail-closed: anything
outside the recognised subset raises Untranslatable (= a broken obligation).

What is read (Python `ast`, never executed) from <repo>/lcapy:
  netlist.py netlistmixin.py netlistopsmixin.py netlistsimplifymixin.py
  netfile.py circuit.py        the classes in the MRO of Circuit
  mnacpts.py node.py            call-backs into the circuit (self.cct.<f>)
  *.py                          raw writes of a circuit's element table
  transformer.py + the transformer modules   (result-cache keys)

Recognised subset
  class bodies     : def, decorated def, docstring, simple constant assignment
  decorators       : property, <x>.setter, staticmethod, classmethod,
                     cached_property, lru_cache / lru_cache(N) / lru_cache(maxsize=N)
  memo idiom       : a function that tests  hasattr(self, '_x')  and assigns
                     self._x = ...                      (key '_x')
  _invalidate      : caches = ('a', 'b', ...); for c in caches: getattr(self, c).cache_clear()
                     try: del self.x / except: pass ;  if hasattr(self,'x'): del self.x | delattr(self,'x')
                     for a in ('x', ...): if hasattr(self, a): delattr(self, a) ; self.__dict__.pop('x', None)
  raw writes       : self._elements[k] = v ; self._elements.pop(..) ; del self._elements[k];
                     self.parser.parse(.., self)  (creates the component and registers its nodes);
                     <node>.remove(cpt) / <node>.append(cpt) on an element's nodes
  statements       : Expr Assign AugAssign AnnAssign Return Raise If For While Break Continue
                     Try With Pass Import ImportFrom Assert Delete FunctionDef Global Nonlocal
  abstract events  : W raw write, I self._invalidate(), Q query of a memoised attribute,
                     call f (resolved in the MRO; super() resolved to the next class)

Results (attributes of Translator): memo keys, cleared keys, per-function abstract
programs, summaries (a post-fixpoint that Coq re-checks), dependency lists of the
memo keys and of the views used by the harness, receiver discipline of the
non-invalidating internal mutators, transformer key coverage.
"""
import ast
import hashlib
import os
import warnings
warnings.filterwarnings('ignore', category=SyntaxWarning)

MRO_FILES = ['netlist.py', 'netlistmixin.py', 'netlistopsmixin.py', 'netlistsimplifymixin.py', 'netfile.py', 'circuit.py']
CALLBACK_FILES = ['mnacpts.py', 'node.py']
RAW = {'_elements'}
RAW_CONTAINERS = {'_elements', 'nodes'}      # dictionaries of the circuit whose item writes change the netlist
# plain attributes that are part of a circuit's data (constructor arguments that analyses read)
RAW_ATTRS = {'kind'}
NOQUERY_BUILTINS = {'hasattr', 'getattr', 'isinstance', 'id', 'type', 'super', 'print', 'issubclass'}
# instance attributes that are plain data/configuration (reads are not queries)
CONSTRUCTORS = {'__init__', '_init_parser', '__new__'}
# attribute writes outside constructors that are parser/namespace bookkeeping, not circuit data
CONFIG_WRITES = {'namespace', 'dirname', 'subnetlists', 'namespaces', 'context', 'solver_method', 'allow_anon'}
NODE_WRITERS = {'remove', 'append'}      # Node.remove / Node.append on the nodes of an element
TRANSFORMER_FILES = ['laplace.py', 'inverse_laplace.py', 'fourier.py', 'inverse_fourier.py', 'ztransform.py',
                     'inverse_ztransform.py', 'dtft.py', 'inverse_dtft.py', 'dft.py', 'inverse_dft.py', 'hilbert.py',
                     'transformer.py', 'fourier_sympy.py', 'laplace_sympy.py']
KW_EXEMPT = {'debug', 'pdb'}


class Untranslatable(Exception):
    pass


def fail(node, msg, path='?'):
    raise Untranslatable('%s:%s: %s' % (path, getattr(node, 'lineno', '?'), msg))


# --- abstract statements ------------------------------------------------------
SKIP = ('skip',)
RET = ('ret',)
RAISE = ('raise',)
BRK = ('brk',)
W = ('ev', 'W')
I = ('ev', 'I')
Q = ('ev', 'Q')


def seq(*xs):
    out = None
    for x in xs:
        if x is None or x == SKIP:
            continue
        out = x if out is None else ('seq', out, x)
    return out if out is not None else SKIP


def choice(*xs):
    xs = [x for x in xs if x is not None]
    if not xs:
        return SKIP
    out = xs[0]
    for x in xs[1:]:
        out = ('if', out, x)
    return out


def loop(x):
    return SKIP if x == SKIP else ('loop', x)


def is_self(n, selfname='self'):
    return isinstance(n, ast.Name) and n.id == selfname


class FuncInfo:
    def __init__(self, cls, name, node, kind, path, maxsize=None):
        self.cls, self.name, self.node, self.kind, self.path, self.maxsize = cls, name, node, kind, path, maxsize
        self.qname = '%s.%s' % (cls, name)
        self.memo_attr = None     # hasattr idiom key
        self.prog = None
        self.calls = set()        # qnames called on the receiver
        self.reads_data = False
        self.escapes = False
        self.attr_writes = []


class ClassScan:
    """functions of a list of classes with a method-resolution order"""

    def __init__(self, repo):
        self.repo = repo
        self.classes = {}      # name -> (ClassDef, path, bases)
        self.funcs = {}        # qname -> FuncInfo
        self.shas = {}

    def parse(self, fname):
        path = os.path.join(self.repo, 'lcapy', fname)
        src = open(path).read()
        self.shas[fname] = hashlib.sha256(src.encode()).hexdigest()
        return ast.parse(src), path

    def load_classes(self, fname, only=None):
        tree, path = self.parse(fname)
        for node in tree.body:
            if isinstance(node, ast.ClassDef) and (only is None or node.name in only):
                bases = []
                for b in node.bases:
                    if isinstance(b, ast.Name):
                        bases.append(b.id)
                    else:
                        fail(b, 'unsupported base class expression', path)
                self.classes[node.name] = (node, path, bases)
                self.scan_class(node, path)

    def scan_class(self, cnode, path):
        for st in cnode.body:
            if isinstance(st, ast.Expr) and isinstance(st.value, ast.Constant):
                continue
            if isinstance(st, (ast.Assign, ast.AnnAssign)) and isinstance(getattr(st, 'value', None), (ast.Constant, ast.Tuple, ast.List, ast.Dict, ast.Name, ast.UnaryOp)):
                continue
            if isinstance(st, ast.Pass):
                continue
            if not isinstance(st, ast.FunctionDef):
                fail(st, 'unsupported statement in class body of %s' % cnode.name, path)
            kind, maxsize = 'method', None
            name = st.name
            for d in st.decorator_list:
                if isinstance(d, ast.Name) and d.id == 'property':
                    kind = 'property'
                elif isinstance(d, ast.Name) and d.id in ('staticmethod', 'classmethod'):
                    kind = 'static'
                elif isinstance(d, ast.Attribute) and d.attr == 'setter':
                    kind = 'setter'
                    name = name + '.setter'
                elif isinstance(d, ast.Name) and d.id == 'cached_property':
                    kind = 'cprop'
                elif isinstance(d, ast.Name) and d.id == 'lru_cache':
                    kind, maxsize = 'lru', 128
                elif isinstance(d, ast.Call) and isinstance(d.func, ast.Name) and d.func.id == 'lru_cache':
                    kind = 'lru'
                    if len(d.args) == 1 and isinstance(d.args[0], ast.Constant) and not d.keywords:
                        maxsize = d.args[0].value
                    elif not d.args and len(d.keywords) == 1 and d.keywords[0].arg == 'maxsize' and isinstance(d.keywords[0].value, ast.Constant):
                        maxsize = d.keywords[0].value.value
                    elif not d.args and not d.keywords:
                        maxsize = 128
                    else:
                        fail(d, 'unsupported lru_cache arguments', path)
                else:
                    fail(d, 'unknown decorator on %s.%s' % (cnode.name, st.name), path)
            fi = FuncInfo(cnode.name, name, st, kind, path, maxsize)
            self.funcs[fi.qname] = fi

    def mro(self, cname):
        """C3 linearisation over the scanned classes"""
        if cname == 'object':
            return ['object']
        if cname not in self.classes:
            raise Untranslatable('base class %s is not among the scanned classes' % cname)
        bases = self.classes[cname][2] or ['object']
        seqs = [self.mro(b) for b in bases] + [list(bases)]
        out = [cname]
        while any(seqs):
            for s in seqs:
                if not s:
                    continue
                h = s[0]
                if not any(h in t[1:] for t in seqs):
                    break
            else:
                raise Untranslatable('inconsistent MRO for ' + cname)
            out.append(h)
            for s in seqs:
                if s and s[0] == h:
                    del s[0]
        return out


class Translator:
    def __init__(self, repo):
        self.repo = repo
        self.cs = ClassScan(repo)
        for f in MRO_FILES:
            self.cs.load_classes(f)
        if 'Circuit' not in self.cs.classes:
            raise Untranslatable('class Circuit not found')
        self.mro = [c for c in self.cs.mro('Circuit') if c != 'object']
        self.funcs = {q: f for q, f in self.cs.funcs.items() if f.cls in self.mro}
        # call-backs
        self.cb = ClassScan(repo)
        for f in CALLBACK_FILES:
            self.cb.load_classes(f)
        self.cbnames = {}       # method name -> [FuncInfo]
        for q, f in self.cb.funcs.items():
            self.cbnames.setdefault(f.name, []).append(f)
        self.load_foreign()
        self.find_memo_idiom()
        self.parse_invalidate()
        self.translate_all()
        self.resolve_alpha()
        self.compute_summaries()
        self.check_raw_write_sites()
        self.receiver_discipline()
        self.compute_deps()
        self.cache_mutations()
        self.detach_sites()
        self.env_switches()
        self.transformer_keys()

    # -- foreign code that receives the circuit as an argument ---------------------------
    def load_foreign(self):
        self.trees = {}
        self.fclasses = {}
        d = os.path.join(self.repo, 'lcapy')
        for fname in sorted(os.listdir(d)):
            if not fname.endswith('.py'):
                continue
            try:
                tree = ast.parse(open(os.path.join(d, fname)).read())
            except SyntaxError as e:
                raise Untranslatable('%s: %s' % (fname, e))
            self.trees[fname] = tree
            for node in tree.body:
                if isinstance(node, ast.ClassDef):
                    self.fclasses.setdefault(node.name, []).append((node, os.path.join(d, fname)))
        self.ext = {}           # 'ext:Class.meth@param' -> FuncInfo
        self.ext_pending = []
        self.opaque_escapes = []

    def foreign_method(self, cname, mname, path=None):
        cands = self.fclasses.get(cname, [])
        if len(cands) != 1 and path is not None:
            cands = [c for c in cands if c[1] == path]
        if len(cands) != 1:
            return None
        seen = set()
        stack = [cands[0]]
        while stack:
            node, path = stack.pop(0)
            if node.name in seen:
                continue
            seen.add(node.name)
            for st in node.body:
                if isinstance(st, ast.FunctionDef) and st.name == mname:
                    return node.name, st, path
            for b in node.bases:
                if isinstance(b, ast.Name):
                    bc = self.fclasses.get(b.id, [])
                    if len(bc) != 1:
                        bc = [c for c in bc if c[1] == path]
                    if len(bc) == 1:
                        stack.append(bc[0])
        return None

    def foreign_call(self, e, recv_test, owncls=None, ownpath=None):
        """abstract statement for a call that passes the receiver to foreign code, or None
        when the callee cannot be resolved"""
        f = e.func
        targets = []
        if isinstance(f, ast.Name) and f.id == 'cls' and owncls:
            f = ast.Name(id=owncls, ctx=ast.Load())
        if isinstance(f, ast.Attribute) and is_self(f.value) and owncls:
            r = self.foreign_method(owncls, f.attr, ownpath)
            if r is None:
                return None
            targets.append((r, 1))
        elif isinstance(f, ast.Attribute) and isinstance(f.value, ast.Call) and isinstance(f.value.func, ast.Name) \
                and f.value.func.id == 'super' and owncls and [c for c in self.fclasses.get(owncls, []) if c[1] == ownpath]:
            r = None
            for b in [c for c in self.fclasses[owncls] if c[1] == ownpath][0][0].bases:
                if isinstance(b, ast.Name):
                    r = r or self.foreign_method(b.id, f.attr, ownpath)
            if r is None:
                return None
            targets.append((r, 1))
        elif isinstance(f, ast.Attribute) and isinstance(f.value, ast.Attribute) and f.value.attr == 'nodes' and recv_test(f.value.value):
            r = self.foreign_method('Nodes', f.attr)
            if r is None:
                return None
            targets.append((r, 1))
        elif isinstance(f, ast.Attribute) and f.attr == 'make' and isinstance(f.value, ast.Attribute) and f.value.attr == 'cpts':
            # Parser: self.cpts.make(classname, parent, ...) instantiates a component class of mnacpts.py
            if not (len(e.args) >= 2 and recv_test(e.args[1])):
                return None
            for node, path in [c for cs in self.fclasses.values() for c in cs if os.path.basename(c[1]) == 'mnacpts.py']:
                for st in node.body:
                    if isinstance(st, ast.FunctionDef) and st.name == '__init__':
                        params = [a.arg for a in st.args.args]
                        if len(params) < 2:
                            return None
                        q = 'ext:%s.%s@%s' % (node.name, st.name, params[1])
                        if q not in self.ext:
                            fi = FuncInfo(node.name, st.name, st, 'method', path)
                            fi.qname = q
                            fi.param = params[1]
                            self.ext[q] = fi
                            self.ext_pending.append(q)
                        targets.append(q)
            return choice(*[('call', q) for q in targets]) if targets else None
        elif isinstance(f, ast.Name):
            if f.id not in self.fclasses:
                return None
            for m in ('__new__', '__init__'):
                r = self.foreign_method(f.id, m)
                if r is not None:
                    targets.append((r, 1))
            if not targets:
                return SKIP
        elif isinstance(f, ast.Attribute) and isinstance(f.value, ast.Name) and f.value.id in self.fclasses:
            r = self.foreign_method(f.value.id, f.attr)
            if r is None:
                return None
            targets.append((r, 1))
        elif isinstance(f, ast.Attribute) and f.attr == 'parse' and isinstance(f.value, ast.Attribute) and f.value.attr == 'parser':
            r = self.foreign_method('Parser', 'parse')
            if r is None:
                return None
            targets.append((r, 1))
        else:
            return None
        out = []
        for (cname, fn, path), skip in targets:
            params = [a.arg for a in fn.args.args][skip:]
            bound = []
            for i, a in enumerate(e.args):
                if recv_test(a) and i < len(params):
                    bound.append(params[i])
            for k in e.keywords:
                if recv_test(k.value) and k.arg in params + [a.arg for a in fn.args.kwonlyargs]:
                    bound.append(k.arg)
            if not bound:
                return None
            for pname in bound:
                q = 'ext:%s.%s@%s' % (cname, fn.name, pname)
                if q not in self.ext:
                    fi = FuncInfo(cname, fn.name, fn, 'method', path)
                    fi.qname = q
                    fi.param = pname
                    self.ext[q] = fi
                    self.ext_pending.append(q)
                out.append(('call', q))
        return seq(*out)

    # -- resolution --------------------------------------------------------------
    def resolve(self, name, after=None):
        classes = self.mro
        if after is not None:
            classes = classes[classes.index(after) + 1:]
        for c in classes:
            q = '%s.%s' % (c, name)
            if q in self.funcs:
                return self.funcs[q]
        return None

    # -- memo keys ---------------------------------------------------------------
    def find_memo_idiom(self):
        for fi in self.funcs.values():
            tested, assigned = set(), set()
            for n in ast.walk(fi.node):
                if isinstance(n, ast.Call) and isinstance(n.func, ast.Name) and n.func.id == 'hasattr' and len(n.args) == 2 \
                        and is_self(n.args[0]) and isinstance(n.args[1], ast.Constant) and isinstance(n.args[1].value, str):
                    tested.add(n.args[1].value)
                if isinstance(n, (ast.Assign, ast.AnnAssign)):
                    tg = n.targets if isinstance(n, ast.Assign) else [n.target]
                    for t in tg:
                        if isinstance(t, ast.Attribute) and is_self(t.value):
                            assigned.add(t.attr)
            both = tested & assigned
            if len(both) > 1:
                fail(fi.node, 'more than one hasattr-memoised attribute in %s' % fi.qname, fi.path)
            if both and fi.name not in CONSTRUCTORS:
                fi.memo_attr = both.pop()
        self.memo = {}          # key name -> dict(kind, owner qname, line, maxsize)
        for fi in self.funcs.values():
            if self.resolve(fi.name) is not fi and fi.kind in ('lru', 'cprop'):
                # shadowed memoised definition: still reachable through super(); keep it distinct
                pass
            if fi.kind in ('lru', 'cprop'):
                if fi.name in self.memo:
                    fail(fi.node, 'memoised attribute %s defined twice in the MRO' % fi.name, fi.path)
                self.memo[fi.name] = dict(kind=fi.kind, owner=fi.qname, line=fi.node.lineno, maxsize=fi.maxsize)
            elif fi.memo_attr:
                if fi.memo_attr in self.memo:
                    fail(fi.node, 'memoised attribute %s filled in two places' % fi.memo_attr, fi.path)
                self.memo[fi.memo_attr] = dict(kind='hasattr', owner=fi.qname, line=fi.node.lineno, maxsize=None)
        for k, m in self.memo.items():
            if m['kind'] == 'lru' and m['maxsize'] is None:
                # unbounded: still keyed by the instance, fine
                pass

    def key_of_func(self, fi):
        if fi.kind in ('lru', 'cprop'):
            return fi.name
        return fi.memo_attr

    # -- _invalidate ---------------------------------------------------------------
    def parse_invalidate(self):
        fi = self.resolve('_invalidate')
        if fi is None:
            raise Untranslatable('no _invalidate in the MRO of Circuit')
        self.invalidate = fi
        cleared = []
        consts = {}

        def names_of(node):
            if isinstance(node, ast.Name) and node.id in consts:
                return consts[node.id]
            if isinstance(node, (ast.Tuple, ast.List)) and all(isinstance(e, ast.Constant) and isinstance(e.value, str) for e in node.elts):
                return [e.value for e in node.elts]
            return None

        def del_target(st, loopvar=None, loopnames=None):
            """names deleted by one statement, or None"""
            if isinstance(st, ast.Delete):
                out = []
                for t in st.targets:
                    if isinstance(t, ast.Attribute) and is_self(t.value):
                        out.append(t.attr)
                    else:
                        return None
                return out
            if isinstance(st, ast.Expr) and isinstance(st.value, ast.Call):
                c = st.value
                if isinstance(c.func, ast.Name) and c.func.id == 'delattr' and len(c.args) == 2 and is_self(c.args[0]):
                    a = c.args[1]
                    if isinstance(a, ast.Constant) and isinstance(a.value, str):
                        return [a.value]
                    if loopvar and isinstance(a, ast.Name) and a.id == loopvar:
                        return list(loopnames)
                    return None
                # self.__dict__.pop('x', None)
                if isinstance(c.func, ast.Attribute) and c.func.attr == 'pop' and isinstance(c.func.value, ast.Attribute) \
                        and c.func.value.attr == '__dict__' and is_self(c.func.value.value) and c.args and len(c.args) == 2:
                    if isinstance(c.args[0], ast.Constant):
                        return [c.args[0].value]
                    if loopvar and isinstance(c.args[0], ast.Name) and c.args[0].id == loopvar:
                        return list(loopnames)
                    return None
                # getattr(self, cache).cache_clear() / self.f.cache_clear()
                if isinstance(c.func, ast.Attribute) and c.func.attr == 'cache_clear' and not c.args:
                    r = c.func.value
                    if isinstance(r, ast.Attribute) and is_self(r.value):
                        return [r.attr]
                    if isinstance(r, ast.Call) and isinstance(r.func, ast.Name) and r.func.id == 'getattr' and len(r.args) == 2 and is_self(r.args[0]):
                        a = r.args[1]
                        if isinstance(a, ast.Constant):
                            return [a.value]
                        if loopvar and isinstance(a, ast.Name) and a.id == loopvar:
                            return list(loopnames)
            return None

        def guarded(st, loopvar=None, loopnames=None):
            """[names] cleared by a (possibly guarded) statement; None if unrecognised"""
            d = del_target(st, loopvar, loopnames)
            if d is not None:
                return d
            if isinstance(st, ast.Try):
                if st.orelse or st.finalbody:
                    return None
                for h in st.handlers:
                    if not all(isinstance(x, ast.Pass) for x in h.body):
                        return None
                out = []
                for x in st.body:
                    d = guarded(x, loopvar, loopnames)
                    if d is None:
                        return None
                    out += d
                return out
            if isinstance(st, ast.If) and not st.orelse:
                t = st.test
                ok = isinstance(t, ast.Call) and isinstance(t.func, ast.Name) and t.func.id == 'hasattr' and len(t.args) == 2 and is_self(t.args[0])
                inn = isinstance(t, ast.Compare) and len(t.ops) == 1 and isinstance(t.ops[0], ast.In) and isinstance(t.comparators[0], ast.Attribute) \
                    and t.comparators[0].attr == '__dict__'
                if not (ok or inn):
                    return None
                out = []
                for x in st.body:
                    d = guarded(x, loopvar, loopnames)
                    if d is None:
                        return None
                    out += d
                # the guard must name what is deleted
                gname = t.args[1] if ok else t.left
                if isinstance(gname, ast.Constant):
                    if out != [gname.value]:
                        return None
                elif not (loopvar and isinstance(gname, ast.Name) and gname.id == loopvar):
                    return None
                return out
            return None

        for st in fi.node.body:
            if isinstance(st, ast.Expr) and isinstance(st.value, ast.Constant):
                continue
            if isinstance(st, ast.Assign) and len(st.targets) == 1 and isinstance(st.targets[0], ast.Name):
                ns = names_of(st.value)
                if ns is None:
                    fail(st, 'unsupported assignment in _invalidate', fi.path)
                consts[st.targets[0].id] = ns
                continue
            if isinstance(st, ast.For) and isinstance(st.target, ast.Name) and not st.orelse:
                ns = names_of(st.iter)
                if ns is None:
                    fail(st, 'unsupported loop in _invalidate', fi.path)
                for x in st.body:
                    d = guarded(x, st.target.id, ns)
                    if d is None:
                        fail(x, 'unsupported statement in _invalidate loop', fi.path)
                    cleared += d
                continue
            d = guarded(st)
            if d is None:
                fail(st, 'unsupported statement in _invalidate', fi.path)
            cleared += d
        self.cleared = sorted(set(cleared))
        for c in self.cleared:
            if c not in self.memo:
                # clearing something that is not memoised here is harmless but worth recording
                pass

    # -- abstract programs ---------------------------------------------------------
    def translate_all(self):
        self.order = sorted(self.funcs)                      # qnames, index = Coq function id
        for q in self.order:
            fi = self.funcs[q]
            if fi is self.invalidate:
                fi.prog = I
                continue
            if fi.kind == 'static':
                fi.prog = SKIP
                continue
            tr = FuncTranslator(self, fi, receiver='self')
            body = tr.block(fi.node.body)
            if fi.kind in ('lru', 'cprop'):
                fi.prog = seq(Q, choice(body, SKIP))
            elif fi.memo_attr:
                fi.prog = seq(Q, body)
            else:
                fi.prog = body
        self.translate_ext()
        # call-backs: methods of Cpt / Node classes that reach the circuit through self.cct
        self.cbprogs = {}
        for q, fi in self.cb.funcs.items():
            if fi.kind == 'static':
                fi.prog = SKIP
                continue
            tr = FuncTranslator(self, fi, receiver='self.cct')
            fi.prog = tr.block(fi.node.body)
        # keep only call-back names that transitively touch the circuit
        touching = set()
        changed = True
        while changed:
            changed = False
            for q, fi in self.cb.funcs.items():
                if q in touching:
                    continue
                if any(c in self.funcs for c in fi.calls) or any(c.startswith('cb:') and c[3:] in touching_names(touching) for c in fi.calls) \
                        or fi.escapes or has_event(fi.prog):
                    touching.add(q)
                    changed = True
        self.cb_touching = touching
        names = touching_names(touching)
        self.cb_order = sorted(names)
        for n in self.cb_order:
            defs = [f for f in self.cbnames[n] if f.qname in touching]
            self.cbprogs[n] = choice(*[f.prog for f in defs])
        # prune calls to call-back names that do not touch the circuit
        self.fn_index = {q: i for i, q in enumerate(self.order)}
        for j, n in enumerate(self.cb_order):
            self.fn_index['cb:' + n] = len(self.order) + j
        self.translate_ext()
        self.ext_order = sorted(self.ext)
        for j, q in enumerate(self.ext_order):
            self.fn_index[q] = len(self.order) + len(self.cb_order) + j

    def translate_ext(self):
        depth = 0
        while self.ext_pending:
            q = self.ext_pending.pop()
            fi = self.ext[q]
            if fi.prog is not None:
                continue
            tr = FuncTranslator(self, fi, receiver=fi.param, foreign=True)
            fi.prog = SKIP          # recursion guard
            fi.prog = tr.block(fi.node.body)
            depth += 1
            if depth > 400:
                raise Untranslatable('too many foreign functions receive the circuit')

    def all_progs(self):
        out = [(self.fn_index[q], q, self.funcs[q].prog) for q in self.order]
        out += [(self.fn_index['cb:' + n], 'cb:' + n, self.cbprogs[n]) for n in self.cb_order]
        out += [(self.fn_index[q], q, self.ext[q].prog) for q in self.ext_order]
        return out

    def resolve_alpha(self):
        """replace ('alpha', S) nodes (exception may interrupt S anywhere) by a loop
        over the transitive event alphabet of S"""
        progs = {q: p for _, q, p in self.all_progs()}
        alpha = {q: set() for q in progs}

        def direct(p, acc, calls):
            t = p[0]
            if t == 'ev':
                acc.add(p[1])
            elif t == 'call':
                calls.add(p[1])
            elif t in ('seq', 'if'):
                direct(p[1], acc, calls)
                direct(p[2], acc, calls)
            elif t in ('loop', 'alpha'):
                direct(p[1], acc, calls)
        info = {}
        for q, p in progs.items():
            a, c = set(), set()
            direct(p, a, c)
            info[q] = (a, c)
            alpha[q] = set(a)
        changed = True
        while changed:
            changed = False
            for q, (a, c) in info.items():
                for g in c:
                    if g in alpha and not alpha[g] <= alpha[q]:
                        alpha[q] |= alpha[g]
                        changed = True

        def rw(p):
            t = p[0]
            if t == 'alpha':
                a, c = set(), set()
                direct(p[1], a, c)
                for g in c:
                    a |= alpha.get(g, set())
                return loop(choice(*[('ev', e) for e in sorted(a)])) if a else SKIP
            if t in ('seq', 'if'):
                return (t, rw(p[1]), rw(p[2]))
            if t == 'loop':
                return ('loop', rw(p[1]))
            return p
        for q in self.order:
            self.funcs[q].prog = rw(self.funcs[q].prog)
        for n in self.cb_order:
            self.cbprogs[n] = rw(self.cbprogs[n])
        for q in self.ext_order:
            self.ext[q].prog = rw(self.ext[q].prog)

    # -- the flag lattice (mirror of History.v: chk) ---------------------------------
    @staticmethod
    def fstep(fl, e):
        F, S = fl
        if e == 'W':
            return (F, S or F)
        if e == 'I':
            return (False, False)
        if e == 'Q':
            return (True, S)
        return fl

    @staticmethod
    def ojoin(a, b):
        if a is None:
            return b
        if b is None:
            return a
        return (a[0] or b[0], a[1] or b[1])

    @staticmethod
    def ole(a, b):
        if a is None:
            return True
        if b is None:
            return False
        return (not a[0] or b[0]) and (not a[1] or b[1])

    def chk(self, p, fl, sigma):
        """returns (norm, ret, brk) exit flags (None = unreachable)"""
        t = p[0]
        if t == 'ev':
            return (self.fstep(fl, p[1]), None, None)
        if t == 'skip':
            return (fl, None, None)
        if t == 'ret':
            return (None, fl, None)
        if t == 'raise':
            return (None, None, None)
        if t == 'brk':
            return (None, None, fl)
        if t == 'call':
            return (sigma(p[1], fl), None, None)
        if t == 'seq':
            ra = self.chk(p[1], fl, sigma)
            if ra[0] is None:
                return ra
            rb = self.chk(p[2], ra[0], sigma)
            return (rb[0], self.ojoin(ra[1], rb[1]), self.ojoin(ra[2], rb[2]))
        if t == 'if':
            ra = self.chk(p[1], fl, sigma)
            rb = self.chk(p[2], fl, sigma)
            return tuple(self.ojoin(x, y) for x, y in zip(ra, rb))
        if t == 'loop':
            x = fl
            for _ in range(3):
                r = self.chk(p[1], x, sigma)
                e = self.ojoin(r[0], r[2])
                x = self.ojoin(x, e) if e is not None else x
            r = self.chk(p[1], x, sigma)
            if self.ole(self.ojoin(r[0], r[2]), x):
                return (x, r[1], None)
            return ((True, True), (True, True), None)
        raise Untranslatable('internal: unknown abstract statement %r' % (t,))

    ALL_FLAGS = [(False, False), (False, True), (True, False), (True, True)]

    def compute_summaries(self):
        progs = {q: p for _, q, p in self.all_progs()}
        table = {q: {fl: None for fl in self.ALL_FLAGS} for q in progs}

        def sigma(q, fl):
            if q not in table:
                return fl
            return table[q][fl]
        for _ in range(200):
            changed = False
            for q, p in progs.items():
                for fl in self.ALL_FLAGS:
                    r = self.chk(p, fl, sigma)
                    e = self.ojoin(self.ojoin(r[0], r[1]), r[2])
                    n = self.ojoin(table[q][fl], e)
                    if n != table[q][fl]:
                        table[q][fl] = n
                        changed = True
            if not changed:
                break
        else:
            raise Untranslatable('summary iteration did not converge')
        self.sigma_table = table
        self.sigma = sigma
        # public operations: every function of the MRO that does not start with '_' (and is the
        # resolved definition of its name), from flags (True, False); constructors from (False, False)
        self.public = []
        self.op_ok = {}
        for q in self.order:
            fi = self.funcs[q]
            if self.resolve(fi.name) is not fi and not fi.name.endswith('.setter'):
                continue
            if fi.name.startswith('_') and not (fi.name.startswith('__') and fi.name.endswith('__')):
                continue
            if fi.name in CONSTRUCTORS:
                continue
            self.public.append(q)
            out = table[q][(True, False)]
            self.op_ok[q] = out is None or not out[1]
        # public methods of the component / node objects handed out by the circuit (cct.R1.open_circuit(),
        # cct['2'].rename('7'), ...): they are public operations on the netlist too
        self.cb_public = [n for n in self.cb_order if not n.startswith('_') and n not in NODE_WRITERS]   # Node.remove/append: bookkeeping primitives used by Netlist.remove / the parser
        self.cb_ok = {}
        self.cb_owner = {}
        for n in self.cb_public:
            out = table['cb:' + n][(True, False)]
            self.cb_ok[n] = out is None or not out[1]
            self.cb_owner[n] = sorted(f.qname for f in self.cbnames[n] if f.qname in self.cb_touching)
        self.ctor_ok = {}
        for q in self.order:
            fi = self.funcs[q]
            if fi.name == '__init__':
                out = table[q][(False, False)]
                self.ctor_ok[q] = out is None or not out[1]
        # internal functions that are not safe by themselves (used for the receiver discipline)
        self.unsafe = sorted(q for q in self.order if table[q][(True, False)] is not None and table[q][(True, False)][1])

    # -- every raw write of an element table must be in a function we analysed ----------
    def check_raw_write_sites(self):
        sites = []
        d = os.path.join(self.repo, 'lcapy')
        analysed = {(os.path.basename(f.path), f.node.lineno) for f in self.funcs.values()}
        for fname in sorted(os.listdir(d)):
            if not fname.endswith('.py'):
                continue
            try:
                tree = ast.parse(open(os.path.join(d, fname)).read())
            except SyntaxError as e:
                raise Untranslatable('%s: %s' % (fname, e))
            for fn in ast.walk(tree):
                if not isinstance(fn, (ast.FunctionDef, ast.AsyncFunctionDef)):
                    continue
                for n in ast.walk(fn):
                    hit = None
                    if isinstance(n, (ast.Assign, ast.AugAssign, ast.Delete)):
                        tg = n.targets if not isinstance(n, ast.AugAssign) else [n.target]
                        for t in tg:
                            if isinstance(t, ast.Subscript) and isinstance(t.value, ast.Attribute) and t.value.attr in RAW:
                                hit = t.value
                            if isinstance(t, ast.Attribute) and t.attr in RAW:
                                hit = t
                    if isinstance(n, ast.Call) and isinstance(n.func, ast.Attribute) and n.func.attr in ('pop', 'clear', 'update', 'popitem', 'setdefault', 'move_to_end') \
                            and isinstance(n.func.value, ast.Attribute) and n.func.value.attr in RAW:
                        hit = n.func.value
                    if hit is not None:
                        sites.append((fname, fn.name, n.lineno, (fname, fn.lineno) in analysed, is_self(hit.value) if isinstance(hit, ast.Attribute) else False))
        self.raw_sites = sites
        bad = [s for s in sites if not (s[3] and s[4]) and s[1] not in CONSTRUCTORS]
        # schematic classes keep their own, unrelated `_elements`? they use `elements`; anything else is unknown
        self.raw_sites_bad = bad

    # -- non-invalidating internal mutators applied to other objects ---------------------
    def receiver_discipline(self):
        """For every function of the MRO and every local variable that receives a call of an
        UNSAFE function (one that may leave stale entries when applied to an object with a
        filled cache), follow the flags of that object: bound from self._new() or from a call
        of a function that provably returns an object with an empty cache => (F,S) =
        (False, False); bound from any other call / parameter => (True, False).  Report each
        (function, variable) with whether S is False at every exit."""
        unsafe_names = {self.funcs[q].name for q in self.unsafe}
        self.ret_fresh = set()          # method names that return an object with an empty cache
        self.local_temporaries = []

        def analyse(fi, v):
            tr = FuncTranslator(self, fi, receiver=v, track_binding=True)
            body = self._rw_alpha_local(tr.block(fi.node.body))
            params = {a.arg for a in fi.node.args.args}
            start = (True, False) if v in params else (False, False)
            return self.chk_local(body, start)
        # least fixpoint of "returns a fresh object"
        changed = True
        while changed:
            changed = False
            for q in self.order:
                fi = self.funcs[q]
                if fi.name in self.ret_fresh or fi.kind == 'static' or fi is self.invalidate or self.resolve(fi.name) is not fi:
                    continue
                rets = [n for n in ast.walk(fi.node) if isinstance(n, ast.Return)]
                if not rets:
                    continue
                ok = True
                for r in rets:
                    v = r.value
                    if isinstance(v, ast.Name) and v.id != 'self':
                        res = analyse(fi, v.id)
                        bound = any(isinstance(n, ast.Assign) and any(isinstance(t, ast.Name) and t.id == v.id for t in n.targets) and
                                    isinstance(n.value, ast.Call) for n in ast.walk(fi.node))
                        if not bound or res[1] is None or res[1] != (False, False):
                            ok = False
                    elif isinstance(v, ast.Call) and isinstance(v.func, ast.Attribute) and v.func.attr in self.ret_fresh \
                            and isinstance(v.func.value, ast.Name):
                        pass
                    else:
                        ok = False
                if ok:
                    self.ret_fresh.add(fi.name)
                    changed = True
        res = []
        for q in self.order:
            fi = self.funcs[q]
            if fi is self.invalidate or fi.kind == 'static':
                continue
            names = set()
            for n in ast.walk(fi.node):
                if isinstance(n, ast.Call) and isinstance(n.func, ast.Attribute) and isinstance(n.func.value, ast.Name) \
                        and n.func.value.id != 'self' and n.func.attr in unsafe_names:
                    names.add(n.func.value.id)
            returned = {x.id for n in ast.walk(fi.node) if isinstance(n, ast.Return) and n.value is not None for x in ast.walk(n.value) if isinstance(x, ast.Name)}
            for v in sorted(names):
                r = analyse(fi, v)
                if v in returned:
                    # the object outlives the call: it must not carry stale entries when returned
                    ok = r[1] is None or not r[1][1]
                    res.append((q, v, fi.node.lineno, ok))
                else:
                    # a temporary that dies with the call cannot carry history to later operations
                    e = self.ojoin(self.ojoin(r[0], r[1]), r[2])
                    self.local_temporaries.append((q, v, fi.node.lineno, e is None or not e[1]))
        self.local_sites = res

    def _rw_alpha_local(self, p):
        t = p[0]
        if t == 'alpha':
            return loop(self._flatten_events(p[1]))
        if t in ('seq', 'if'):
            return (t, self._rw_alpha_local(p[1]), self._rw_alpha_local(p[2]))
        if t == 'loop':
            return ('loop', self._rw_alpha_local(p[1]))
        return p

    def _flatten_events(self, p):
        evs = []

        def go(x):
            if x[0] in ('ev', 'call', 'bind'):
                evs.append(x)
            elif x[0] in ('seq', 'if'):
                go(x[1]); go(x[2])
            elif x[0] in ('loop', 'alpha'):
                go(x[1])
        go(p)
        return choice(*evs) if evs else SKIP

    def chk_local(self, p, fl):
        def sigma(q, fl):
            return self.sigma(q, fl)
        if p[0] == 'bind':
            return ((False, False) if p[1] == 'fresh' else (True, False), None, None)
        t = p[0]
        if t in ('seq', 'if', 'loop'):
            # re-implement structurally so that 'bind' is seen at any depth
            if t == 'seq':
                ra = self.chk_local(p[1], fl)
                if ra[0] is None:
                    return ra
                rb = self.chk_local(p[2], ra[0])
                return (rb[0], self.ojoin(ra[1], rb[1]), self.ojoin(ra[2], rb[2]))
            if t == 'if':
                ra = self.chk_local(p[1], fl)
                rb = self.chk_local(p[2], fl)
                return tuple(self.ojoin(x, y) for x, y in zip(ra, rb))
            x = fl
            for _ in range(3):
                r = self.chk_local(p[1], x)
                e = self.ojoin(r[0], r[2])
                x = self.ojoin(x, e) if e is not None else x
            r = self.chk_local(p[1], x)
            if self.ole(self.ojoin(r[0], r[2]), x):
                return (x, r[1], None)
            return ((True, True), (True, True), None)
        return self.chk(p, fl, sigma)

    # -- dependencies between memoised attributes and views ------------------------------
    def compute_deps(self):
        """direct memo reads of every function through non-memoised functions"""
        progs = {q: p for _, q, p in self.all_progs()}
        key_of = {}
        for k, m in self.memo.items():
            key_of[m['owner']] = k

        def direct_calls(p, acc):
            t = p[0]
            if t == 'call':
                acc.add(p[1])
            elif t in ('seq', 'if'):
                direct_calls(p[1], acc); direct_calls(p[2], acc)
            elif t == 'loop':
                direct_calls(p[1], acc)
        calls = {}
        for q, p in progs.items():
            s = set()
            direct_calls(p, s)
            calls[q] = s
        self.calls = calls

        def reach(q):
            """memo keys read (stopping at memoised functions) and whether raw data is read"""
            seen, keys = set(), set()
            data = False
            stack = list(calls.get(q, ()))
            if q in self.funcs and self.funcs[q].reads_data or (q.startswith('cb:')):
                data = True
            while stack:
                g = stack.pop()
                if g in seen:
                    continue
                seen.add(g)
                if g in key_of:
                    keys.add(key_of[g])
                    continue
                if g in self.funcs and (self.funcs[g].reads_data or self.funcs[g].escapes):
                    data = True
                if g.startswith('cb:'):
                    data = True
                stack.extend(calls.get(g, ()))
            return keys, data
        self.reach = reach
        deps = {}
        rdata = {}
        for k, m in self.memo.items():
            ks, d = reach(m['owner'])
            ks.discard(k)
            deps[k] = ks
            fi = self.funcs[m['owner']]
            rdata[k] = d or fi.reads_data or fi.escapes
        # topological numbering
        order, placed = [], set()
        remaining = dict(deps)
        while remaining:
            ready = sorted(k for k, ds in remaining.items() if ds <= placed)
            if not ready:
                raise Untranslatable('cyclic dependency between memoised attributes: %s' % sorted(remaining))
            for k in ready:
                order.append(k)
                placed.add(k)
                del remaining[k]
        self.key_order = order
        self.key_deps = deps
        self.key_readsdata = rdata

    def view(self, name):
        """(direct memo keys, reads raw data) of the public attribute `name` of Circuit,
        or of the call-back 'cb:<method>'"""
        if name.startswith('cb:'):
            if name[3:] not in self.cbprogs:
                raise Untranslatable('unknown call-back ' + name)
            q = name
        else:
            fi = self.resolve(name)
            if fi is None:
                raise Untranslatable('unknown attribute %s of Circuit' % name)
            q = fi.qname
            k = self.key_of_func(fi)
            if k is not None:
                return {k}, False
        ks, d = self.reach(q)
        return ks, d

    # -- node bookkeeping: a component is attached to a node once per terminal and must be detached as often --
    def detach_sites(self):
        """Cpt.__init__ attaches the component to cct.nodes once per ENTRY of node_names (a node that
        occurs twice gets two attachments).  Every loop of the netlist classes that detaches a component
        from its nodes must therefore run over the very list `<cpt>.nodes` (with its repetitions): any other
        iterable (set(..), sorted(..), dict.fromkeys(..), a slice, a filtered comprehension) or a guarded
        node.remove() is reported.  Recognised shapes only; everything else is `bad`."""
        sites = []
        for q in self.order:
            fi = self.funcs[q]
            for loop in ast.walk(fi.node):
                if not isinstance(loop, ast.For) or not isinstance(loop.target, ast.Name):
                    continue
                if not any(isinstance(x, ast.Attribute) and x.attr == 'nodes' and not is_self(x.value) for x in ast.walk(loop.iter)):
                    continue
                for n in ast.walk(loop):
                    if isinstance(n, ast.Call) and isinstance(n.func, ast.Attribute) and n.func.attr == 'remove' \
                            and isinstance(n.func.value, ast.Name) and n.func.value.id == loop.target.id and len(n.args) == 1 and isinstance(n.args[0], ast.Name):
                        c = n.args[0].id
                        exact = isinstance(loop.iter, ast.Attribute) and loop.iter.attr == 'nodes' and isinstance(loop.iter.value, ast.Name) and loop.iter.value.id == c
                        direct = any(isinstance(st, ast.Expr) and st.value is n for st in loop.body) and not loop.orelse
                        sites.append(dict(func=q, line=n.lineno, iter=ast.unparse(loop.iter), ok=bool(exact and direct)))
        # the attaching side
        attach_ok = False
        r = self.foreign_method('Cpt', '__init__', os.path.join(self.repo, 'lcapy', 'mnacpts.py'))
        if r is not None:
            for loop in ast.walk(r[1]):
                if isinstance(loop, ast.For) and isinstance(loop.iter, ast.Name) and loop.iter.id == 'node_names' and len(loop.body) == 1 \
                        and ast.unparse(loop.body[0]).replace(' ', '') == 'self.nodes.append(cct.nodes.add(%s,self,cct))' % loop.target.id:
                    attach_ok = True
        self.detach = sites
        self.attach_ok = attach_ok
        self.detach_bad = [x for x in sites if not x['ok']]

    # -- process-wide switches (lcapy.state.state.<x>) read by the code that fills the caches ----
    ANALYSIS_MODULES = ['netlist.py', 'netlistmixin.py', 'netlistopsmixin.py', 'netlistsimplifymixin.py', 'netfile.py', 'subnetlist.py',
                        'mna.py', 'mnacpts.py', 'current.py', 'voltage.py', 'statespacemaker.py', 'nodalanalysis.py', 'loopanalysis.py',
                        'circuitgraph.py', 'components.py', 'analysis.py', 'simulator.py', 'node.py', 'nodes.py']

    def env_switches(self):
        """switches = attributes that State.__init__ sets to a constant / imported default; a switch that is
        READ in a module whose results end up in a circuit's memoised entries is part of the data those
        entries were derived from, and nothing invalidates them when it is reassigned"""
        tree = self.trees.get('state.py')
        switches = set()
        if tree is not None:
            for node in ast.walk(tree):
                if isinstance(node, ast.FunctionDef) and node.name == '__init__':
                    for st in ast.walk(node):
                        if isinstance(st, ast.Assign) and len(st.targets) == 1 and isinstance(st.targets[0], ast.Attribute) \
                                and is_self(st.targets[0].value) and isinstance(st.value, (ast.Constant, ast.Name)):
                            switches.add(st.targets[0].attr)
        reads = []
        for fname in self.ANALYSIS_MODULES:
            tree = self.trees.get(fname)
            if tree is None:
                continue
            imported = any(isinstance(n, ast.ImportFrom) and n.module == 'state' and any(a.name == 'state' for a in n.names) for n in ast.walk(tree))
            if not imported:
                continue
            for fn in ast.walk(tree):
                if isinstance(fn, ast.FunctionDef):
                    for n in ast.walk(fn):
                        if isinstance(n, ast.Attribute) and isinstance(n.ctx, ast.Load) and isinstance(n.value, ast.Name) and n.value.id == 'state' \
                                and n.attr in switches:
                            reads.append((n.attr, fname, fn.name, n.lineno))
        self.env_reads = sorted(set(reads))
        self.env_switch_names = sorted({r[0] for r in reads})
        # a setter on State that clears the caches would make the reassignment an invalidating mutator: recognise
        # `@<switch>.setter` definitions in state.py that call cache_clear()/_invalidate (none in the current tree)
        self.env_invalidating = set()
        if self.trees.get('state.py') is not None:
            for fn in ast.walk(self.trees['state.py']):
                if isinstance(fn, ast.FunctionDef) and any(isinstance(d, ast.Attribute) and d.attr == 'setter' for d in fn.decorator_list):
                    if any(isinstance(n, ast.Attribute) and n.attr in ('cache_clear', '_invalidate') for n in ast.walk(fn)):
                        self.env_invalidating.add(fn.name)

    # -- a query must not modify, in place, the value it got from a memoised attribute --------
    MUTATING_METHODS = {'remove', 'append', 'extend', 'pop', 'sort', 'clear', 'insert', 'update', 'add', 'discard',
                        'popitem', 'setdefault', 'reverse', 'move_to_end', 'appendleft', 'popleft', '__setitem__', '__delitem__'}
    ALIASING_METHODS = {'values', 'items', 'keys', 'get', '__getitem__'}
    COPYING_CALLS = {'list', 'sorted', 'dict', 'set', 'tuple', 'frozenset', 'copy', 'deepcopy', 'str', 'repr', 'len', 'sum',
                     'min', 'max', 'any', 'all', 'enumerate_copy', 'OrderedDict'}

    def cache_mutations(self):
        """sites where a value reached from a memoised attribute of the circuit (directly, through
        a function that returns such a value, by subscripting / iterating / .values()/.items()/.get())
        is modified in place: v.remove(..), v.append(..), del v[..], v[..] = .., v.attr = ..  (copies made
        with list()/sorted()/dict()/.copy()/slices/comprehensions are clean).  Every function of the MRO,
        every call-back class method and every foreign function that receives the circuit is scanned."""
        cached = set()
        for k, m in self.memo.items():
            cached.add(self.funcs[m['owner']].name)
        units = []      # (FuncInfo, receiver test)
        for q in self.order:
            fi = self.funcs[q]
            if fi is self.invalidate or fi.kind == 'static':
                continue
            units.append((fi, lambda n: is_self(n)))
        for q, fi in self.cb.funcs.items():
            if fi.kind != 'static':
                units.append((fi, lambda n: isinstance(n, ast.Attribute) and n.attr == 'cct' and is_self(n.value)))
        for q in self.ext_order:
            fi = self.ext[q]
            units.append((fi, (lambda pn: (lambda n: isinstance(n, ast.Name) and n.id == pn))(fi.param)))

        def analyse(fi, is_recv, cached):
            tainted = {}

            def src(e):
                """memo key name the expression aliases, or None"""
                if isinstance(e, ast.Name):
                    return tainted.get(e.id)
                if isinstance(e, ast.Attribute):
                    if is_recv(e.value) and e.attr in cached:
                        return e.attr
                    return src(e.value)
                if isinstance(e, ast.Subscript):
                    if isinstance(e.slice, ast.Slice):
                        return None          # a slice is a copy
                    return src(e.value)
                if isinstance(e, ast.Call):
                    f = e.func
                    if isinstance(f, ast.Attribute):
                        if is_recv(f.value) and f.attr in cached:
                            return f.attr
                        if f.attr in self.ALIASING_METHODS:
                            return src(f.value)
                    return None
                if isinstance(e, ast.IfExp):
                    return src(e.body) or src(e.orelse)
                if isinstance(e, ast.BoolOp):
                    for v in e.values:
                        if src(v):
                            return src(v)
                    return None
                if isinstance(e, ast.Starred):
                    return src(e.value)
                return None

            def bind(t, key):
                for x in ast.walk(t):
                    if isinstance(x, ast.Name) and key and x.id not in tainted:
                        tainted[x.id] = key
            for _ in range(4):
                for n in ast.walk(fi.node):
                    if isinstance(n, ast.Assign):
                        k = src(n.value)
                        if k:
                            for t in n.targets:
                                if isinstance(t, (ast.Name, ast.Tuple, ast.List)):
                                    bind(t, k)
                    elif isinstance(n, (ast.For, ast.comprehension)):
                        k = src(n.iter)
                        if k:
                            bind(n.target, k)
                    elif isinstance(n, ast.withitem) and n.optional_vars is not None:
                        k = src(n.context_expr)
                        if k:
                            bind(n.optional_vars, k)
            sites = []
            for n in ast.walk(fi.node):
                if isinstance(n, ast.Call) and isinstance(n.func, ast.Attribute) and n.func.attr in self.MUTATING_METHODS:
                    k = src(n.func.value)
                    if k:
                        sites.append((n.lineno, k, '.%s()' % n.func.attr))
                elif isinstance(n, (ast.Assign, ast.AugAssign, ast.AnnAssign, ast.Delete)):
                    tg = n.targets if isinstance(n, (ast.Assign, ast.Delete)) else [n.target]
                    for t in tg:
                        for x in ([t] if not isinstance(t, (ast.Tuple, ast.List)) else t.elts):
                            if isinstance(x, ast.Subscript):
                                k = src(x.value)
                                if k:
                                    sites.append((n.lineno, k, 'item %s' % ('deletion' if isinstance(n, ast.Delete) else 'assignment')))
                            elif isinstance(x, ast.Attribute) and not is_recv(x.value):
                                k = src(x.value)
                                if k:
                                    sites.append((n.lineno, k, 'attribute %s' % ('deletion' if isinstance(n, ast.Delete) else 'assignment')))
            rets = set()
            for n in ast.walk(fi.node):
                if isinstance(n, ast.Return) and n.value is not None:
                    k = src(n.value)
                    if k:
                        rets.add(k)
            return sites, rets
        # functions of the MRO that hand out (an alias of) a memoised value count as memoised sources too
        alias_of = {}
        changed = True
        while changed:
            changed = False
            for fi, rt in units:
                if fi.qname not in self.funcs or fi.name in cached or self.resolve(fi.name) is not fi:
                    continue
                if self.key_of_func(fi) is not None:
                    continue
                _, rets = analyse(fi, rt, cached)
                if rets:
                    cached.add(fi.name)
                    alias_of[fi.name] = sorted(rets)[0]
                    changed = True
        out = []
        for fi, rt in units:
            sites, _ = analyse(fi, rt, cached)
            for (line, k, how) in sites:
                root = k
                while root in alias_of:
                    root = alias_of[root]
                out.append(dict(func=fi.qname, file=os.path.basename(fi.path), line=line, via=k, key=root, how=how))
        self.cache_mutation_sites = out
        self.cached_sources = sorted(cached)

    # -- transformer result caches ----------------------------------------------------------
    def transformer_keys(self):
        out = []
        d = os.path.join(self.repo, 'lcapy')
        classes = {}
        for fname in TRANSFORMER_FILES:
            p = os.path.join(d, fname)
            if not os.path.exists(p):
                continue
            tree = ast.parse(open(p).read())
            for node in tree.body:
                if isinstance(node, ast.ClassDef):
                    classes[node.name] = (node, fname, [b.id for b in node.bases if isinstance(b, ast.Name)])
        self.transformers = []

        def methods(cname, seen=None):
            seen = seen or set()
            if cname not in classes or cname in seen:
                return []
            seen.add(cname)
            node, fname, bases = classes[cname]
            ms = [(cname, fname, st) for st in node.body if isinstance(st, ast.FunctionDef)]
            for b in bases:
                ms += methods(b, seen)
            return ms
        for cname, (node, fname, bases) in sorted(classes.items()):
            own_key = [st for st in node.body if isinstance(st, ast.FunctionDef) and st.name == 'key']
            if not own_key:
                continue
            k = own_key[0]
            pos = [a.arg for a in k.args.args][1:]
            kwname = k.args.kwarg.arg if k.args.kwarg else None
            rets = [s for s in ast.walk(k) if isinstance(s, ast.Return)]
            if not rets or not isinstance(rets[0].value, ast.Tuple):
                raise Untranslatable('%s:%d: key() of %s does not return a tuple' % (fname, k.lineno, cname))
            elts = rets[0].value.elts
            head = [e.id for e in elts[:3] if isinstance(e, ast.Name)]
            covered = set()
            for e in elts[3:]:
                if isinstance(e, ast.Call) and isinstance(e.func, ast.Attribute) and e.func.attr == 'get' and isinstance(e.func.value, ast.Name) \
                        and e.func.value.id == kwname and e.args and isinstance(e.args[0], ast.Constant):
                    covered.add(e.args[0].value)
                else:
                    raise Untranslatable('%s:%d: unsupported element in key() of %s' % (fname, k.lineno, cname))
            used = {}
            seen_names = set()
            for (c, f, st) in methods(cname):
                if st.name in seen_names or st.name in ('key', 'dummy_var'):
                    continue
                seen_names.add(st.name)
                kw = st.args.kwarg.arg if st.args.kwarg else None
                if kw is None:
                    continue
                # explicit keyword parameters next to **kwargs
                nd = len(st.args.defaults)
                for a in (st.args.args[-nd:] if nd else []):
                    if a.arg not in ('evaluate', 'cache', 'conjvar') and st.name in ('check', 'term'):
                        used.setdefault(a.arg, '%s.%s' % (c, st.name))
                for n in ast.walk(st):
                    if isinstance(n, ast.Call) and isinstance(n.func, ast.Attribute) and n.func.attr in ('get', 'pop') \
                            and isinstance(n.func.value, ast.Name) and n.func.value.id == kw and n.args and isinstance(n.args[0], ast.Constant):
                        used.setdefault(n.args[0].value, '%s.%s' % (c, st.name))
                    if isinstance(n, ast.Subscript) and isinstance(n.value, ast.Name) and n.value.id == kw and isinstance(n.slice, ast.Constant):
                        used.setdefault(n.slice.value, '%s.%s' % (c, st.name))
            missing = sorted(u for u in used if u not in covered and u not in KW_EXEMPT)
            ext = self._transformer_ext(cname, classes, methods, k, kwname, elts[3:])
            for u, site in ext.pop('ext_used'):
                used.setdefault(u, site)
            missing = sorted(u for u in used if u not in covered and u not in KW_EXEMPT)
            self.transformers.append(dict(cls=cname, file=fname, line=k.lineno, head_ok=(head == pos[:3] and len(head) == 3),
                                          covered=sorted(covered), used={u: used[u] for u in sorted(used)}, missing=missing, **ext))

    # -- extension: defaults of the options, instance state, shape of doit() -----------------
    def _transformer_ext(self, cname, classes, methods, keyfn, kwname, key_elts):
        WILD = '*'
        dump = lambda n: ast.dump(n) if n is not None else ast.dump(ast.Constant(value=None))
        key_defaults = {}
        for e in key_elts:
            key_defaults[e.args[0].value] = dump(e.args[1] if len(e.args) > 1 else None)
        ms = []
        seen = set()
        for (c, f, st) in methods(cname):
            if st.name in seen:
                continue
            seen.add(st.name)
            ms.append((c, f, st))
        mdict = {st.name: (c, f, st) for c, f, st in ms}
        allfuncs = {}
        for cn, (node, fn, bases) in classes.items():
            for st in node.body:
                if isinstance(st, ast.FunctionDef):
                    allfuncs.setdefault(st.name, []).append(st)

        def parents(fn):
            par = {}
            for n in ast.walk(fn):
                for ch in ast.iter_child_nodes(n):
                    par[ch] = n
            return par

        def bool_ctx(node, par):
            p = par.get(node)
            while isinstance(p, (ast.BoolOp,)) or (isinstance(p, ast.UnaryOp) and isinstance(p.op, ast.Not)):
                node, p = p, par.get(p)
            return isinstance(p, (ast.If, ast.IfExp, ast.While)) and p.test is node

        def param_bool_only(fn, pname):
            par = parents(fn)
            uses = [n for n in ast.walk(fn) if isinstance(n, ast.Name) and n.id == pname]
            return bool(uses) and all(isinstance(n.ctx, ast.Load) and bool_ctx(n, par) for n in uses)

        uses = []       # (option, default dump or WILD, site, truthiness-only)
        for (c, f, st) in ms:
            if st.name in ('key', 'dummy_var'):
                continue
            kw = st.args.kwarg.arg if st.args.kwarg else None
            par = parents(st)
            for n in ast.walk(st):
                if kw and isinstance(n, ast.Call) and isinstance(n.func, ast.Attribute) and n.func.attr in ('get', 'pop') \
                        and isinstance(n.func.value, ast.Name) and n.func.value.id == kw and n.args and isinstance(n.args[0], ast.Constant):
                    d = dump(n.args[1] if len(n.args) > 1 else None) if (n.func.attr == 'get' or len(n.args) > 1) else WILD
                    tonly = bool_ctx(n, par)
                    pp = par.get(n)
                    if not tonly and isinstance(pp, ast.Call) and n in pp.args and isinstance(pp.func, ast.Attribute) and not any(isinstance(a, ast.Starred) for a in pp.args):
                        cands = allfuncs.get(pp.func.attr, [])
                        if len(cands) == 1:
                            ps = [a.arg for a in cands[0].args.args][1:]
                            i = pp.args.index(n)
                            tonly = i < len(ps) and param_bool_only(cands[0], ps[i])
                    uses.append((n.args[0].value, d, '%s.%s:%d' % (c, st.name, n.lineno), tonly))
                if kw and isinstance(n, ast.Subscript) and isinstance(n.value, ast.Name) and n.value.id == kw and isinstance(n.slice, ast.Constant):
                    uses.append((n.slice.value, WILD, '%s.%s:%d' % (c, st.name, n.lineno), False))
                # named parameters bound through a **kwargs splat
                if isinstance(n, ast.Call) and isinstance(n.func, ast.Attribute) and any(k2.arg is None for k2 in n.keywords):
                    recv = n.func.value
                    is_self = isinstance(recv, ast.Name) and recv.id == 'self'
                    is_super = isinstance(recv, ast.Call) and isinstance(recv.func, ast.Name) and recv.func.id == 'super'
                    if not (is_self or is_super):
                        if isinstance(recv, ast.Name) and recv.id in ('kwargs', 'assumptions'):
                            continue
                        # a foreign callee receives the options: only the names it is documented to take could be judged
                        callee = n.func.attr
                        raise Untranslatable('%s:%d: %s.%s passes **options to foreign callee %s' % (f, n.lineno, c, st.name, callee))
                    if is_super:
                        own = classes[c][2]
                        tgt = None
                        for b in own:
                            for (c2, f2, st2) in methods(b):
                                if st2.name == n.func.attr:
                                    tgt = st2
                                    break
                            if tgt:
                                break
                    else:
                        tgt = mdict.get(n.func.attr, (None, None, None))[2]
                    if tgt is None:
                        raise Untranslatable('%s:%d: cannot resolve %s called with **options' % (f, n.lineno, n.func.attr))
                    ps = tgt.args.args[1:]
                    nd = len(tgt.args.defaults)
                    defaults = [None] * (len(ps) - nd) + list(tgt.args.defaults)
                    given = {k2.arg for k2 in n.keywords if k2.arg}
                    npos = len(ps) if any(isinstance(a, ast.Starred) for a in n.args) else len(n.args)
                    for i, a in enumerate(ps):
                        if i < npos or a.arg in given:
                            continue
                        if tgt.name == 'doit' and a.arg == 'cache':
                            continue        # modelled: the look-up guard of doit()
                        if not param_used(tgt, a.arg):
                            continue
                        d = dump(defaults[i]) if defaults[i] is not None else WILD
                        uses.append((a.arg, d, '%s.%s(%s)' % (c, tgt.name, a.arg), param_bool_only(tgt, a.arg)))
                    for a, dflt in zip(tgt.args.kwonlyargs, tgt.args.kw_defaults):
                        if a.arg not in given and param_used(tgt, a.arg):
                            uses.append((a.arg, dump(dflt) if dflt is not None else WILD, '%s.%s(%s)' % (c, tgt.name, a.arg), False))
        FALSY = {ast.dump(ast.Constant(value=None)), ast.dump(ast.Constant(value=False))}
        mism = []
        pairs = []
        for (u, d, site, tonly) in uses:
            if u in KW_EXEMPT or u not in key_defaults:
                continue            # options missing from key() are reported by tkey_<cls>
            kd = key_defaults[u]
            if d == WILD or d == kd or (tonly and d in FALSY and kd in FALSY):
                pairs.append((u, kd))
            else:
                pairs.append((u, d))
                mism.append(dict(opt=u, key_default=kd, use_default=d, site=site))
        # instance state: attributes read by the computation must be (re)assigned by check() on every call
        consts, mnames = set(), set(mdict)
        for (c, f, st) in ms:
            pass
        seenc = set()
        def cls_consts(cn):
            if cn in seenc or cn not in classes:
                return
            seenc.add(cn)
            for st in classes[cn][0].body:
                if isinstance(st, ast.Assign):
                    for tg in st.targets:
                        if isinstance(tg, ast.Name):
                            consts.add(tg.id)
            for b in classes[cn][2]:
                cls_consts(b)
        cls_consts(cname)
        WRITERS = {'__init__', 'clear_cache', 'transform', 'check'}
        written, check_written, state_bad = {}, set(), []
        for (c, f, st) in ms:
            for n in ast.walk(st):
                if isinstance(n, ast.Attribute) and isinstance(n.value, ast.Name) and n.value.id == 'self' and isinstance(n.ctx, (ast.Store, ast.Del)):
                    written.setdefault(n.attr, set()).add(st.name)
                    if st.name not in WRITERS:
                        state_bad.append('%s.%s writes self.%s' % (c, st.name, n.attr))
                    if st.name == 'check':
                        check_written.add(n.attr)
        # check() of a base class reached through super()
        for (c, f, st) in methods(cname):
            if st.name == 'check':
                for n in ast.walk(st):
                    if isinstance(n, ast.Attribute) and isinstance(n.value, ast.Name) and n.value.id == 'self' and isinstance(n.ctx, ast.Store):
                        check_written.add(n.attr)
        reads = set()
        for (c, f, st) in ms:
            if st.name in ('error', 'debug', '__init__', 'clear_cache'):
                continue
            for n in ast.walk(st):
                if isinstance(n, ast.Attribute) and isinstance(n.value, ast.Name) and n.value.id == 'self' and isinstance(n.ctx, ast.Load):
                    if n.attr in mnames or n.attr in consts or n.attr in ('cache', 'expr', '_debug'):
                        continue
                    reads.add(n.attr)
                    if n.attr not in check_written:
                        state_bad.append('%s.%s reads self.%s which check() does not assign' % (c, st.name, n.attr))
        # doit(): owner in the MRO and its shape
        downer = mdict['doit'][0] if 'doit' in mdict else None
        if downer is None:
            raise Untranslatable('%s has no doit()' % cname)
        shape = doit_shape(mdict['doit'][2], mdict['doit'][1])
        return dict(ext_used=[(u, site) for (u, d, site, tonly) in uses], key_defaults=key_defaults, opt_pairs=sorted(set(pairs)), default_mismatch=mism, state_reads=sorted(reads),
                    state_bad=sorted(set(state_bad)), doit_owner=downer, doit_bypass=shape['bypass'], doit_flag=shape['flag'])


def param_used(fn, name):
    return any(isinstance(n, ast.Name) and n.id == name and isinstance(n.ctx, ast.Load) for n in ast.walk(fn))


def doit_shape(fn, fname):
    """fail-closed structural translation of a doit() of lcapy/transformer.py into the two flags of
    the Coq model `doit` (coq/props/C16xform.v): [pure preamble]; [if not evaluate: return noevaluate];
    const, expr = factor_const; key = self.key(expr, var, conjvar, **kw); if [cache and] key in self.cache:
    return POST(self.cache[key]); ...compute (no return)...; self.cache[key] = V; return POST(V)"""
    def bad(msg, n=None):
        raise Untranslatable('%s:%d: doit(): %s' % (fname, getattr(n, 'lineno', fn.lineno), msg))
    ps = [a.arg for a in fn.args.args]
    if len(ps) < 5 or ps[4] != 'evaluate' or fn.args.kwarg is None:
        bad('unexpected signature')
    kw = fn.args.kwarg.arg
    body = [st for st in fn.body if not (isinstance(st, ast.Expr) and isinstance(st.value, ast.Constant))]
    ikey = [i for i, st in enumerate(body) if isinstance(st, ast.Assign) and len(st.targets) == 1 and isinstance(st.targets[0], ast.Name)
            and st.targets[0].id == 'key']
    if len(ikey) != 1:
        bad('expected exactly one `key = ...`')
    ik = ikey[0]
    kc = body[ik].value
    if not (isinstance(kc, ast.Call) and isinstance(kc.func, ast.Attribute) and kc.func.attr == 'key' and isinstance(kc.func.value, ast.Name)
            and kc.func.value.id == 'self' and [getattr(a, 'id', None) for a in kc.args] == ps[1:4]
            and len(kc.keywords) == 1 and kc.keywords[0].arg is None and getattr(kc.keywords[0].value, 'id', None) == kw):
        bad('key is not self.key(expr, var, conjvar, **kwargs)', body[ik])
    bypass = False
    for st in body[:ik]:
        if isinstance(st, ast.FunctionDef):
            continue
        if any(isinstance(n, ast.Attribute) and n.attr == 'cache' for n in ast.walk(st)):
            bad('cache touched before the key is computed', st)
        rets = [n for n in ast.walk(st) if isinstance(n, ast.Return)]
        if rets:
            ok = isinstance(st, ast.If) and isinstance(st.test, ast.UnaryOp) and isinstance(st.test.op, ast.Not) and getattr(st.test.operand, 'id', None) == 'evaluate' \
                and len(st.body) == 1 and isinstance(st.body[0], ast.Return) and not st.orelse \
                and isinstance(st.body[0].value, ast.Call) and getattr(st.body[0].value.func, 'attr', None) == 'noevaluate'
            if not ok:
                bad('return before the look-up that is not the evaluate=False bypass', st)
            bypass = True
        elif any(isinstance(n, ast.Name) and n.id == 'evaluate' for n in ast.walk(st)):
            bad('evaluate read outside the bypass', st)
    if ik + 1 >= len(body) or not isinstance(body[ik + 1], ast.If):
        bad('no look-up after the key')
    lk = body[ik + 1]
    isin = lambda t: isinstance(t, ast.Compare) and len(t.ops) == 1 and isinstance(t.ops[0], ast.In) and getattr(t.left, 'id', None) == 'key' \
        and ast.dump(t.comparators[0]) == ast.dump(ast.parse('self.cache', mode='eval').body)
    flag = False
    if isin(lk.test):
        pass
    elif isinstance(lk.test, ast.BoolOp) and isinstance(lk.test.op, ast.And) and len(lk.test.values) == 2 and getattr(lk.test.values[0], 'id', None) == 'cache' \
            and 'cache' in ps and isin(lk.test.values[1]):
        flag = True
    else:
        bad('unexpected look-up test', lk)
    if lk.orelse or len(lk.body) != 1 or not isinstance(lk.body[0], ast.Return):
        bad('look-up must return at once', lk)
    hit = lk.body[0].value
    rest = body[ik + 2:]
    if not rest or not isinstance(rest[-1], ast.Return):
        bad('no final return')
    stores = [i for i, st in enumerate(rest) if isinstance(st, ast.Assign) and len(st.targets) == 1 and isinstance(st.targets[0], ast.Subscript)
              and ast.dump(st.targets[0].value) == ast.dump(ast.parse('self.cache', mode='eval').body) and getattr(st.targets[0].slice, 'id', None) == 'key']
    if stores != [len(rest) - 2]:
        bad('expected `self.cache[key] = V` right before the final return')
    for st in rest[:-2]:
        for n in ast.walk(st):
            if isinstance(n, ast.Return) and not any(isinstance(m, ast.FunctionDef) and n in ast.walk(m) for m in fn.body if isinstance(m, ast.FunctionDef)):
                bad('return between look-up and store', n)
            if isinstance(n, ast.Name) and n.id in ('key', 'const', kw, 'evaluate') and isinstance(n.ctx, ast.Store):
                bad('%s reassigned between look-up and store' % n.id, n)
            if isinstance(n, ast.Name) and n.id == 'evaluate':
                bad('evaluate read after the look-up', n)
            if isinstance(n, ast.Attribute) and n.attr == 'cache' and isinstance(n.value, ast.Name) and n.value.id == 'self':
                bad('cache touched between look-up and store', n)
    V = rest[-2].value
    slot = ast.dump(ast.parse('self.cache[key]', mode='eval').body)
    TOKEN = '<<stored>>'
    hit_s = ast.dump(hit).replace(slot, TOKEN)
    miss_s = ast.dump(rest[-1].value).replace(slot, TOKEN)
    vs = ast.dump(V)
    if isinstance(V, ast.Tuple):
        pass                # the miss path must read the slot it has just written
    else:
        miss_s = miss_s.replace(vs, TOKEN)
    if hit_s != miss_s or TOKEN not in hit_s:
        bad('the value returned on a hit is not the same function of the stored value as on a miss', rest[-1])
    return dict(bypass=bypass, flag=flag)


def has_event(p):
    if p is None:
        return False
    if p[0] == 'ev':
        return True
    if p[0] in ('seq', 'if'):
        return has_event(p[1]) or has_event(p[2])
    if p[0] in ('loop', 'alpha'):
        return has_event(p[1])
    return False


def touching_names(touching):
    return {q.split('.', 1)[1] for q in touching}


class FuncTranslator:
    """abstract program of one function with respect to one receiver
    ('self', 'self.cct' for call-backs, or a local variable name)"""

    def __init__(self, T, fi, receiver='self', track_binding=False, foreign=False):
        self.T, self.fi, self.recv, self.track, self.foreign = T, fi, receiver, track_binding, foreign
        self.path = fi.path
        # local names bound to the circuit (cct = self.cct) in a call-back method
        self.aliases = set()
        if receiver == 'self.cct':
            for n in ast.walk(fi.node):
                if isinstance(n, ast.Assign) and len(n.targets) == 1 and isinstance(n.targets[0], ast.Name) \
                        and isinstance(n.value, ast.Attribute) and n.value.attr == 'cct' and is_self(n.value.value):
                    self.aliases.add(n.targets[0].id)
        self.cptlike = set()
        self.find_cptlike()

    # receiver tests ------------------------------------------------------------------
    def is_recv(self, n):
        if self.recv == 'self.cct':
            if isinstance(n, ast.Name) and n.id in self.aliases:
                return True
            return isinstance(n, ast.Attribute) and n.attr == 'cct' and is_self(n.value)
        return isinstance(n, ast.Name) and n.id == self.recv

    def rooted(self, n):
        """expression denoting an object stored inside the receiver (component, node)"""
        if isinstance(n, ast.Name):
            return n.id in self.cptlike
        if isinstance(n, ast.Subscript):
            return self.is_recv(n.value) or self.rooted(n.value)
        if isinstance(n, ast.Attribute):
            if self.is_recv(n.value):
                return n.attr in ('elements', '_elements', 'nodes')
            return self.rooted(n.value)
        if isinstance(n, ast.Call) and isinstance(n.func, ast.Attribute) and n.func.attr in ('values', 'items', 'get'):
            return self.rooted(n.func.value)
        return False

    def find_cptlike(self):
        if self.recv == 'self.cct':
            return
        for _ in range(3):
            for n in ast.walk(self.fi.node):
                tgts, val = [], None
                if isinstance(n, ast.Assign):
                    tgts, val = n.targets, n.value
                elif isinstance(n, (ast.For, ast.comprehension)):
                    tgts, val = [n.target], n.iter
                for t in tgts:
                    if val is not None and self.rooted(val):
                        for x in ast.walk(t):
                            if isinstance(x, ast.Name):
                                self.cptlike.add(x.id)

    # statements -------------------------------------------------------------------------
    def block(self, stmts):
        return seq(*[self.stmt(s) for s in stmts])

    def stmt(self, s):
        if isinstance(s, ast.Expr):
            return self.expr(s.value)
        if isinstance(s, ast.Assign):
            return seq(self.expr(s.value), *[self.target(t, s.value) for t in s.targets])
        if isinstance(s, ast.AugAssign):
            return seq(self.expr(s.value), self.target(s.target, s.value))
        if isinstance(s, ast.AnnAssign):
            return seq(self.expr(s.value) if s.value else SKIP, self.target(s.target, s.value))
        if isinstance(s, ast.Return):
            return seq(self.expr(s.value) if s.value else SKIP, RET)
        if isinstance(s, ast.Raise):
            return seq(self.expr(s.exc) if s.exc else SKIP, RAISE)
        if isinstance(s, ast.If):
            t = s.test
            if isinstance(t, ast.Call) and isinstance(t.func, ast.Name) and t.func.id == 'hasattr' and len(t.args) == 2 \
                    and self.is_recv(t.args[0]) and not isinstance(t.args[1], ast.Constant):
                # hasattr(circuit, <dynamic name>): True => an existing attribute (possibly a property,
                # possibly memoised) was evaluated; False => ordinary lookup failed and __getattr__ ran
                ga = self.T.resolve('__getattr__') if self.recv == 'self' else None
                return seq(self.expr(t.args[1]),
                           choice(seq(loop(Q), self.block(s.body)),
                                  seq(('call', ga.qname) if ga else SKIP, self.block(s.orelse))))
            return seq(self.expr(s.test), choice(self.block(s.body), self.block(s.orelse)))
        if isinstance(s, ast.For):
            return seq(self.expr(s.iter), loop(seq(self.target(s.target, None), self.block(s.body))), self.block(s.orelse))
        if isinstance(s, ast.While):
            return seq(loop(seq(self.expr(s.test), self.block(s.body))), self.expr(s.test), self.block(s.orelse))
        if isinstance(s, (ast.Break, ast.Continue)):
            return BRK
        if isinstance(s, ast.Try):
            body = self.block(s.body)
            for x in ast.walk(ast.Module(body=s.finalbody, type_ignores=[])):
                if isinstance(x, ast.Return):
                    fail(x, 'return inside finally', self.path)
            handlers = choice(*[self.block(h.body) for h in s.handlers]) if s.handlers else RAISE
            normal = seq(body, self.block(s.orelse))
            # the exception interrupts the body inside its (k+1)-th statement, after the first k
            # statements have completed: events of the interrupted statement in any order
            parts = [self.stmt(x) for x in s.body]
            prefixes = [seq(*parts[:k], ('alpha', parts[k])) for k in range(len(parts))]
            exc = seq(choice(*prefixes), handlers)
            return seq(choice(normal, exc), self.block(s.finalbody))
        if isinstance(s, ast.With):
            return seq(*[self.expr(i.context_expr) for i in s.items], self.block(s.body))
        if isinstance(s, (ast.Pass, ast.Import, ast.ImportFrom, ast.Global, ast.Nonlocal)):
            return SKIP
        if isinstance(s, ast.Assert):
            return self.expr(s.test)
        if isinstance(s, ast.Delete):
            return seq(*[self.target(t, None, delete=True) for t in s.targets])
        if isinstance(s, ast.FunctionDef):
            return loop(self.block(s.body))
        fail(s, 'unsupported statement %s' % type(s).__name__, self.path)

    def target(self, t, value, delete=False):
        """effect of storing into / deleting t"""
        if isinstance(t, (ast.Tuple, ast.List)):
            return seq(*[self.target(x, None, delete) for x in t.elts])
        if isinstance(t, ast.Starred):
            return self.target(t.value, None, delete)
        if isinstance(t, ast.Name):
            if self.track and t.id == self.recv and not delete:
                return ('bind', 'fresh' if self.is_new_call(value) else 'other')
            return SKIP
        if isinstance(t, ast.Subscript):
            ev = seq(self.expr(t.value), self.expr(t.slice))
            if isinstance(t.value, ast.Attribute) and self.is_recv(t.value.value):
                a = t.value.attr
                if a in RAW_CONTAINERS:
                    return seq(ev, W)
                if a in CONFIG_WRITES or self.fi.name in CONSTRUCTORS or self.recv != 'self':
                    return ev
                fail(t, 'unclassified write into self.%s[...]' % a, self.path)
            return ev
        if isinstance(t, ast.Attribute):
            if self.is_recv(t.value):
                a = t.attr
                self.fi.attr_writes.append(a)
                if a in RAW or a in RAW_ATTRS:
                    return SKIP if (self.fi.name in CONSTRUCTORS and self.recv == 'self') else W
                if delete:
                    if self.recv == 'self':
                        fail(t, 'del self.%s outside _invalidate' % a, self.path)
                    return SKIP
                if a == self.fi.memo_attr or self.fi.name in CONSTRUCTORS or a in CONFIG_WRITES or self.recv != 'self':
                    return SKIP
                fail(t, 'unclassified attribute write self.%s in %s' % (a, self.fi.qname), self.path)
            return self.expr(t.value)
        fail(t, 'unsupported assignment target', self.path)

    def is_new_call(self, v):
        fresh = {'_new'} | getattr(self.T, 'ret_fresh', set())
        return isinstance(v, ast.Call) and isinstance(v.func, ast.Attribute) and v.func.attr in fresh and isinstance(v.func.value, ast.Name)

    # expressions ------------------------------------------------------------------------------
    def expr(self, e):
        if e is None:
            return SKIP
        if isinstance(e, (ast.Constant, ast.Name)):
            return SKIP
        if isinstance(e, ast.Attribute):
            return self.attribute(e, call=False)
        if isinstance(e, ast.Call):
            return self.call(e)
        if isinstance(e, ast.BoolOp):
            return seq(self.expr(e.values[0]), choice(seq(*[self.expr(v) for v in e.values[1:]]), SKIP))
        if isinstance(e, ast.IfExp):
            return seq(self.expr(e.test), choice(self.expr(e.body), self.expr(e.orelse)))
        if isinstance(e, (ast.ListComp, ast.SetComp, ast.GeneratorExp, ast.DictComp)):
            gens = e.generators
            inner = seq(*[self.expr(c) for g in gens[1:] for c in [g.iter] + g.ifs], *[self.expr(c) for c in gens[0].ifs],
                        *( [self.expr(e.key), self.expr(e.value)] if isinstance(e, ast.DictComp) else [self.expr(e.elt)] ))
            return seq(self.expr(gens[0].iter), loop(inner))
        if isinstance(e, ast.Lambda):
            return loop(self.expr(e.body))
        if isinstance(e, (ast.Await, ast.Yield, ast.YieldFrom, ast.NamedExpr)):
            fail(e, 'unsupported expression %s' % type(e).__name__, self.path)
        # generic: children in source order
        return seq(*[self.expr(c) for c in ast.iter_child_nodes(e) if isinstance(c, ast.expr)])

    def attribute(self, e, call):
        """load of e (an Attribute)"""
        if self.is_recv(e.value):
            return self.recv_attr(e.attr, e)
        if self.recv == 'self.cct' and is_self(e.value) and e.attr != 'cct':
            # own method / property of the call-back class
            if e.attr in self.T.cbnames:
                self.fi.calls.add('cb:' + e.attr)
                return ('call', 'cb:' + e.attr)
            return SKIP
        base = self.expr(e.value)
        if self.recv != 'self.cct' and self.rooted(e.value) and e.attr in self.T.cbnames:
            self.fi.calls.add('cb:' + e.attr)
            return seq(base, ('call', 'cb:' + e.attr))
        return base

    def recv_attr(self, name, node):
        T = self.T
        if name == '_invalidate':
            return I
        fi = T.resolve(name)
        if fi is not None:
            self.fi.calls.add(fi.qname)
            return ('call', fi.qname)
        if name in T.memo and T.memo[name]['kind'] == 'hasattr':
            return SKIP
        if name.startswith('__') and name.endswith('__'):
            return SKIP
        self.fi.reads_data = True
        return SKIP

    def call(self, e):
        f = e.func
        args = list(e.args) + [k.value for k in e.keywords]
        argev = seq(*[self.expr(a) for a in args])
        escapes = any(self.is_recv(a) for a in args)
        esc = SKIP
        if escapes and not (isinstance(f, ast.Name) and f.id in NOQUERY_BUILTINS):
            if isinstance(f, ast.Name) and f.id in ('str', 'repr'):
                esc = self.recv_attr('__str__' if (f.id == 'str' and self.T.resolve('__str__')) else '__repr__', e)
            else:
                esc = self.T.foreign_call(e, self.is_recv, self.fi.cls if self.foreign else None, self.fi.path if self.foreign else None)
                if esc is None:
                    self.fi.escapes = True
                    self.T.opaque_escapes.append((self.fi.qname, e.lineno, ast.unparse(e.func)))
                    esc = loop(Q)
        # builtins on the receiver
        if isinstance(f, ast.Name):
            if f.id in ('hasattr', 'getattr') and len(e.args) >= 2 and self.is_recv(e.args[0]):
                a = e.args[1]
                if isinstance(a, ast.Constant) and isinstance(a.value, str):
                    if f.id == 'hasattr' and (a.value in self.T.memo and self.T.memo[a.value]['kind'] == 'hasattr'):
                        return SKIP
                    return self.recv_attr(a.value, e)
                if f.id == 'hasattr':
                    return seq(self.expr(a), loop(Q))      # may evaluate any property
                fail(e, 'dynamic getattr on the circuit', self.path)
            if f.id in ('setattr', 'delattr') and e.args and self.is_recv(e.args[0]):
                fail(e, '%s on the circuit outside _invalidate' % f.id, self.path)
            if f.id == 'super':
                return SKIP
            return seq(argev, esc)
        if isinstance(f, ast.Attribute):
            # super(...).m(...)
            if isinstance(f.value, ast.Call) and isinstance(f.value.func, ast.Name) and f.value.func.id == 'super' and self.recv == 'self':
                after = self.fi.cls
                sa = f.value.args
                if sa:
                    if not (isinstance(sa[0], ast.Name) and len(sa) == 2 and is_self(sa[1])):
                        fail(e, 'unsupported super() form', self.path)
                    after = sa[0].id
                tgt = self.T.resolve(f.attr, after=after)
                if tgt is None:
                    return seq(argev, esc)           # object.__init__ etc.
                self.fi.calls.add(tgt.qname)
                return seq(argev, ('call', tgt.qname))
            if self.is_recv(f.value):
                return seq(argev, self.recv_attr(f.attr, e), esc)
            # raw data containers of the receiver
            if isinstance(f.value, ast.Attribute) and self.is_recv(f.value.value):
                a = f.value.attr
                if a in RAW_CONTAINERS and f.attr in ('pop', 'clear', 'update', 'popitem', 'setdefault', 'move_to_end', '_delete'):
                    return seq(argev, W)
                if a == 'parser' and f.attr == 'parse':
                    if not escapes:
                        fail(e, 'parser.parse without the circuit argument', self.path)
                    return seq(argev, W, esc)
                base = self.recv_attr(a, f.value)
                if self.rooted(f.value) and f.attr in self.T.cbnames:
                    self.fi.calls.add('cb:' + f.attr)
                    return seq(argev, base, ('call', 'cb:' + f.attr), esc)
                return seq(argev, base, esc)
            # call-back class calling its own method
            if self.recv == 'self.cct' and is_self(f.value):
                if f.attr in self.T.cbnames:
                    self.fi.calls.add('cb:' + f.attr)
                    return seq(argev, ('call', 'cb:' + f.attr), esc)
                return seq(argev, esc)
            base = self.expr(f.value)
            # node bookkeeping on the nodes of an element of the receiver
            if self.recv != 'self.cct' and self.rooted(f.value):
                if f.attr in NODE_WRITERS and any(self.rooted(a) for a in e.args):
                    return seq(base, argev, W)
                if f.attr in self.T.cbnames:
                    self.fi.calls.add('cb:' + f.attr)
                    return seq(base, argev, ('call', 'cb:' + f.attr), esc)
            return seq(base, argev, esc)
        return seq(self.expr(f), argev, esc)


# ---- Coq emission ---------------------------------------------------------------------
def coq_stm(p, idx):
    t = p[0]
    if t == 'ev':
        return '(SEv %s)' % {'W': 'AWrite', 'I': 'AInval', 'Q': 'AQuery', 'N': 'ANone'}[p[1]]
    if t == 'skip':
        return 'SSkip'
    if t == 'ret':
        return 'SReturn'
    if t == 'raise':
        return 'SRaise'
    if t == 'brk':
        return 'SBreak'
    if t == 'call':
        if p[1] not in idx:
            return 'SSkip'
        return '(SCall %d)' % idx[p[1]]
    if t == 'seq':
        return '(SSeq %s %s)' % (coq_stm(p[1], idx), coq_stm(p[2], idx))
    if t == 'if':
        return '(SIf %s %s)' % (coq_stm(p[1], idx), coq_stm(p[2], idx))
    if t == 'loop':
        return '(SLoop %s)' % coq_stm(p[1], idx)
    raise Untranslatable('internal: cannot emit %r' % (t,))


def size(p):
    if p[0] in ('seq', 'if'):
        return 1 + size(p[1]) + size(p[2])
    if p[0] == 'loop':
        return 1 + size(p[1])
    return 1


def simplify(p):
    """drop skips; collapse identical branches (purely cosmetic, semantics-preserving
    for the flag automaton: SIf a a == a, SSeq SSkip a == a)"""
    t = p[0]
    if t == 'seq':
        a, b = simplify(p[1]), simplify(p[2])
        if a == SKIP:
            return b
        if b == SKIP:
            return a
        return ('seq', a, b)
    if t == 'if':
        a, b = simplify(p[1]), simplify(p[2])
        if a == b:
            return a
        return ('if', a, b)
    if t == 'loop':
        a = simplify(p[1])
        if a == SKIP:
            return SKIP
        if a[0] == 'loop':
            return a
        return ('loop', a)
    return p


if __name__ == '__main__':
    import sys
    T = Translator(sys.argv[1] if len(sys.argv) > 1 else '/repo')
    print('MRO', T.mro)
    print('memo', {k: (m['kind'], m['owner'], m['maxsize']) for k, m in T.memo.items()})
    print('cleared', T.cleared)
    print('not cleared', sorted(set(T.memo) - set(T.cleared)))
    print('key order', T.key_order)
    for k in T.key_order:
        print('  ', k, 'deps', sorted(T.key_deps[k]), 'readsdata', T.key_readsdata[k])
    print('unsafe', T.unsafe)
    print('public not ok', [q for q, ok in T.op_ok.items() if not ok])
    print('ctor', T.ctor_ok)
    print('raw sites', T.raw_sites)
    print('raw sites bad', T.raw_sites_bad)
    print('cache mutation sites', T.cache_mutation_sites)
    print('detach', T.detach, T.attach_ok)
    print('cb public', {n: T.cb_ok[n] for n in T.cb_public})
    print('env reads', T.env_reads, T.env_invalidating)
    print('cached sources', T.cached_sources)
    print('local sites', [s for s in T.local_sites])
    print('callbacks', T.cb_order)
    for t in T.transformers:
        print('transformer', t['cls'], 'covered', t['covered'], 'used', t['used'], 'missing', t['missing'], 'head', t['head_ok'])
        print('   ', 'pairs', t['opt_pairs'], 'mismatch', t['default_mismatch'], 'state', t['state_reads'], t['state_bad'], 'doit', t['doit_owner'], t['doit_bypass'], t['doit_flag'])
    print('nfuncs', len(T.order), 'total size', sum(size(simplify(p)) for _, _, p in T.all_progs()))
