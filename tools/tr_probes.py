"""Fail-closed translator of the netlist probes of lcapy/netlistopsmixin.py:
NetlistOpsMixin.Aparams / Bparams / Zparams (test source, termination, the quotient taken for each entry),
Gparams / Hparams / Yparams (which probe and which conversion they return) and twoport() (which reading is
stored as which source of which model class, and from which probe the matrix comes).

The method bodies are read as text (ast, never imported).  Recognised subset (anything else raises
Untranslatable):
  doc-string | from .twoport import ... | N1p, N1m, N2p, N2m = self._parse_node_args4(N1p, N1m, N2p, N2m, '<name>')
  N1p, N1m, N2p, N2m = self._check_nodes(N1p, N1m, N2p, N2m)
  new = self.kill()   (probes: the network is source free)   |   new = self.copy()   (twoport: sources alive)
  new._add_ground(N1m)
  try: <probe statements> except ValueError [as e]: <fall-back, NOT modelled: taken when an analysis has no solution,
                                                      which the theorems exclude by hypothesis>
  test = new._add_test_voltage_source(Nkp, Nkm) | test = new._add_test_current_source(Nkp, Nkm) | new.remove(test)
  X = <expr>  with  <expr> ::= new.Voc(Nkp, Nkm)(s) | new.Isc(Nkp, Nkm)(s) | current(0 * s + 1) | impedance(<expr>)
                              | - <expr> | <expr> / <expr> | <expr> * <expr> | <name assigned before>
  M = AMatrix|BMatrix|ZMatrix(((X11, X12), (X21, X22))) ; return M
  return self.Aparams|Zparams(N1p, N1m, N2p, N2m).<K>params
  twoport: if model == '<K>': S1 = new.Voc|Isc(Nkp, Nkm, nowarn=True)(s) ; S2 = ... ; M = new.Aparams|Zparams(N1p, N1m, N2p, N2m) ;
           return TwoPort<K>Model(M | M.<K>params, <kw>=S1, <kw>=S2)   elif ...   else: raise ...
"""
import ast
import hashlib
import os
import warnings


class Untranslatable(Exception):
    pass


FNAME = 'lcapy/netlistopsmixin.py'
PORTS = {('N1p', 'N1m'): 1, ('N2p', 'N2m'): 2}
FOUR = ['N1p', 'N1m', 'N2p', 'N2m']
SRC_OWN = {'B': ('V2b', 'I2b'), 'A': ('V1a', 'I1a'), 'G': ('I1g', 'V2g'), 'H': ('V1h', 'I2h'), 'Y': ('I1y', 'I2y'), 'Z': ('V1z', 'V2z')}


def fail(node, why):
    raise Untranslatable('%s:%s: %s: %s' % (FNAME, getattr(node, 'lineno', '?'), why,
                                            ast.unparse(node)[:140] if isinstance(node, ast.AST) else str(node)))


def names_of(nodes):
    return [n.id if isinstance(n, ast.Name) else None for n in nodes]


def port_of(args, node):
    k = PORTS.get(tuple(names_of(args)))
    if k is None:
        fail(node, 'not a port of the two-port (expected N1p, N1m or N2p, N2m)')
    return k


class ProbeTranslator:
    def __init__(self, repo):
        self.path = os.path.join(repo, 'lcapy', 'netlistopsmixin.py')
        src = open(self.path).read()
        self.sha = hashlib.sha256(src.encode()).hexdigest()
        with warnings.catch_warnings():
            warnings.simplefilter('ignore')
            tree = ast.parse(src)
        cls = [n for n in tree.body if isinstance(n, ast.ClassDef) and n.name == 'NetlistOpsMixin']
        if len(cls) != 1:
            raise Untranslatable('%s: class NetlistOpsMixin not found' % FNAME)
        self.meths = {n.name: n for n in cls[0].body if isinstance(n, ast.FunctionDef)}
        self.probes = {}     # 'A' -> (e11, e12, e21, e22) IR
        self.via = {}        # 'G' -> 'A'   (Gparams = Aparams(...).Gparams)
        self.models = {}     # 'B' -> {'probe': 'A', 'conv': 'B' or None, 'src': (ir1, ir2)}
        self.errors = {}

    # ---- expressions -------------------------------------------------------------------------
    def expr(self, e, env, drive, opts=()):
        if isinstance(e, ast.Name):
            if e.id not in env:
                fail(e, 'name not assigned by the probe')
            return env[e.id]
        if isinstance(e, ast.UnaryOp) and isinstance(e.op, ast.USub):
            return ('neg', self.expr(e.operand, env, drive, opts))
        if isinstance(e, ast.BinOp) and isinstance(e.op, (ast.Div, ast.Mult)):
            return ('div' if isinstance(e.op, ast.Div) else 'mul', self.expr(e.left, env, drive, opts), self.expr(e.right, env, drive, opts))
        if isinstance(e, ast.Call) and isinstance(e.func, ast.Name) and e.func.id == 'impedance' and len(e.args) == 1 and not e.keywords:
            return self.expr(e.args[0], env, drive, opts)
        if isinstance(e, ast.Call) and isinstance(e.func, ast.Name) and e.func.id == 'current' and len(e.args) == 1 and not e.keywords:
            if ast.unparse(e.args[0]) != '0 * s + 1':
                fail(e, 'test current other than 1')
            return ('one',)
        # new.Voc(Nkp, Nkm)(s)
        if (isinstance(e, ast.Call) and len(e.args) == 1 and isinstance(e.args[0], ast.Name) and e.args[0].id == 's' and not e.keywords
                and isinstance(e.func, ast.Call) and isinstance(e.func.func, ast.Attribute)
                and isinstance(e.func.func.value, ast.Name) and e.func.func.value.id == 'new' and e.func.func.attr in ('Voc', 'Isc')):
            inner = e.func
            kws = sorted((k.arg, ast.unparse(k.value)) for k in inner.keywords)
            if kws != sorted(opts):
                fail(e, 'unexpected keyword arguments')
            k = port_of(inner.args, e)
            if drive is None:
                fail(e, 'reading taken without a test source')
            return ('meas', drive, 'Q%s%d' % (inner.func.attr, k))
        fail(e, 'expression outside the recognised subset')

    # ---- Aparams / Bparams / Zparams --------------------------------------------------------------
    def preamble(self, st, name, node):
        """the statements every probe starts with; returns the index of the first statement after them and the 'new =' kind"""
        i = 0
        if i < len(st) and isinstance(st[i], ast.Expr) and isinstance(st[i].value, ast.Constant) and isinstance(st[i].value.value, str):
            i += 1
        while i < len(st) and isinstance(st[i], ast.ImportFrom):
            i += 1
        for fn, extra in (('_parse_node_args4', 1), ('_check_nodes', 0)):
            s_ = st[i] if i < len(st) else None
            ok = (isinstance(s_, ast.Assign) and len(s_.targets) == 1 and isinstance(s_.targets[0], ast.Tuple)
                  and names_of(s_.targets[0].elts) == FOUR and isinstance(s_.value, ast.Call) and not s_.value.keywords
                  and ast.unparse(s_.value.func) == 'self.' + fn and names_of(s_.value.args[:4]) == FOUR and len(s_.value.args) == 4 + extra)
            if not ok:
                fail(s_ or node, 'expected N1p, N1m, N2p, N2m = self.%s(N1p, N1m, N2p, N2m...)' % fn)
            i += 1
        s_ = st[i] if i < len(st) else None
        if not (isinstance(s_, ast.Assign) and names_of(s_.targets) == ['new'] and ast.unparse(s_.value) in ('self.kill()', 'self.copy()')):
            fail(s_ or node, 'expected new = self.kill() / self.copy()')
        kind = ast.unparse(s_.value)
        i += 1
        s_ = st[i] if i < len(st) else None
        if not (isinstance(s_, ast.Expr) and ast.unparse(s_.value) == 'new._add_ground(N1m)'):
            fail(s_ or node, 'expected new._add_ground(N1m)')
        return i + 1, kind

    def probe(self, X):
        name = X + 'params'
        node = self.meths.get(name)
        if node is None:
            raise Untranslatable('%s: NetlistOpsMixin.%s not found' % (FNAME, name))
        if names_of([ast.Name(id=a.arg) for a in node.args.args]) != ['self'] + FOUR:
            fail(node, 'unexpected signature')
        st = node.body
        i, kind = self.preamble(st, name, node)
        if kind != 'self.kill()':
            fail(node, 'the probe does not kill the independent sources')
        if i != len(st) - 1 or not isinstance(st[i], ast.Try):
            fail(node, 'expected one try statement after the preamble')
        tr = st[i]
        if tr.orelse or tr.finalbody or not all(isinstance(h.type, ast.Name) and h.type.id == 'ValueError' for h in tr.handlers):
            fail(tr, 'unexpected try structure')
        env, drive, result = {}, None, None
        body = list(tr.body)
        for k, s_ in enumerate(body):
            if isinstance(s_, ast.Try):
                if (len(s_.body) != 1 or not isinstance(s_.body[0], ast.Assign) or s_.orelse or s_.finalbody
                        or not all(isinstance(h.type, ast.Name) and h.type.id == 'ValueError' for h in s_.handlers)):
                    fail(s_, 'unexpected inner try structure')
                s_ = s_.body[0]
            if isinstance(s_, ast.Assign) and names_of(s_.targets) == ['test']:
                v = s_.value
                if not (isinstance(v, ast.Call) and ast.unparse(v.func) in ('new._add_test_voltage_source', 'new._add_test_current_source') and not v.keywords):
                    fail(s_, 'expected a test source')
                if drive is not None:
                    fail(s_, 'a test source is added while another one is in place')
                drive = 'D%s%d' % ('V' if 'voltage' in v.func.attr else 'I', port_of(v.args, s_))
            elif isinstance(s_, ast.Expr) and ast.unparse(s_.value) == 'new.remove(test)':
                if drive is None:
                    fail(s_, 'no test source to remove')
                drive = None
            elif isinstance(s_, ast.Assign) and len(s_.targets) == 1 and isinstance(s_.targets[0], ast.Name):
                v = s_.value
                if isinstance(v, ast.Call) and isinstance(v.func, ast.Name) and v.func.id == X + 'Matrix':
                    if len(v.args) != 1 or v.keywords or not isinstance(v.args[0], ast.Tuple) or len(v.args[0].elts) != 2:
                        fail(s_, 'expected a 2 x 2 tuple')
                    rows = v.args[0].elts
                    if not all(isinstance(r, ast.Tuple) and len(r.elts) == 2 for r in rows):
                        fail(s_, 'expected a 2 x 2 tuple')
                    if drive is not None:
                        fail(s_, 'the matrix is built while a test source is in place')
                    env[s_.targets[0].id] = ('mat', [self.expr(e, env, None) for r in rows for e in r.elts])
                else:
                    env[s_.targets[0].id] = self.expr(v, env, drive)
            elif isinstance(s_, ast.Return):
                if k != len(body) - 1 or not isinstance(s_.value, ast.Name) or env.get(s_.value.id, ('',))[0] != 'mat':
                    fail(s_, 'expected the matrix to be returned last')
                result = env[s_.value.id][1]
            else:
                fail(s_, 'statement outside the recognised subset')
        if result is None:
            fail(node, 'no matrix returned')
        return tuple(result)

    def derived(self, Y):
        node = self.meths.get(Y + 'params')
        if node is None:
            raise Untranslatable('%s: NetlistOpsMixin.%sparams not found' % (FNAME, Y))
        st = [s_ for s_ in node.body if not (isinstance(s_, ast.Expr) and isinstance(s_.value, ast.Constant))]
        if len(st) != 1 or not isinstance(st[0], ast.Return):
            fail(node, 'expected a single return')
        src = ast.unparse(st[0].value)
        for X in 'AZ':
            if src == 'self.%sparams(N1p, N1m, N2p, N2m).%sparams' % (X, Y):
                return X
        fail(st[0], 'expected self.Aparams|Zparams(N1p, N1m, N2p, N2m).%sparams' % Y)

    # ---- twoport() ---------------------------------------------------------------------------------
    def twoport(self):
        node = self.meths.get('twoport')
        if node is None:
            raise Untranslatable('%s: NetlistOpsMixin.twoport not found' % FNAME)
        st = node.body
        i, kind = self.preamble(st, 'twoport', node)
        if kind != 'self.copy()':
            fail(node, 'twoport() is expected to keep the sources (new = self.copy())')
        if i != len(st) - 1 or not isinstance(st[i], ast.If):
            fail(node, 'expected one if/elif chain on the model')
        cur = st[i]
        out = {}
        while True:
            t = cur.test
            if not (isinstance(t, ast.Compare) and isinstance(t.left, ast.Name) and t.left.id == 'model' and len(t.ops) == 1
                    and isinstance(t.ops[0], ast.Eq) and isinstance(t.comparators[0], ast.Constant) and t.comparators[0].value in SRC_OWN):
                fail(t, "expected model == '<K>'")
            X = t.comparators[0].value
            if X in out:
                fail(t, 'model tested twice')
            out[X] = self.model_branch(X, cur.body, cur)
            if len(cur.orelse) == 1 and isinstance(cur.orelse[0], ast.If):
                cur = cur.orelse[0]
                continue
            if not (len(cur.orelse) == 1 and isinstance(cur.orelse[0], ast.Raise)):
                fail(cur, 'expected a final else: raise')
            break
        return out

    def model_branch(self, X, body, node):
        if len(body) != 4:
            fail(node, 'expected two readings, one matrix and a return')
        env = {}
        for s_ in body[:2]:
            if not (isinstance(s_, ast.Assign) and len(s_.targets) == 1 and isinstance(s_.targets[0], ast.Name)):
                fail(s_, 'expected a reading')
            env[s_.targets[0].id] = self.expr(s_.value, {}, 'NoDrive', opts=[('nowarn', 'True')])
        m_ = body[2]
        probe = None
        if isinstance(m_, ast.Assign) and len(m_.targets) == 1 and isinstance(m_.targets[0], ast.Name):
            for P in 'AZ':
                if ast.unparse(m_.value) == 'new.%sparams(N1p, N1m, N2p, N2m)' % P:
                    probe = P
        if probe is None:
            fail(m_, 'expected M = new.Aparams|Zparams(N1p, N1m, N2p, N2m)')
        mname = m_.targets[0].id
        r_ = body[3]
        via = None
        if (isinstance(r_, ast.Return) and isinstance(r_.value, ast.Attribute) and r_.value.attr == X + 'model' and X != 'Z'
                and isinstance(r_.value.value, ast.Call) and isinstance(r_.value.value.func, ast.Name) and r_.value.value.func.id == 'TwoPortZModel'):
            # return TwoPortZModel(Z, V1z=.., V2z=..).<X>model : the Z model of the readings, converted by the model classes
            self.check_model_property(X)
            via = 'Z'
            r_ = ast.Return(value=r_.value.value, lineno=r_.lineno)
        if not (isinstance(r_, ast.Return) and isinstance(r_.value, ast.Call) and isinstance(r_.value.func, ast.Name) and len(r_.value.args) == 1):
            fail(r_, 'expected return TwoPort<K>Model(...)')
        X0, X = X, (via or X)
        if r_.value.func.id != 'TwoPort%sModel' % X:
            fail(r_, "model == '%s' does not return a TwoPort%sModel" % (X, X))
        a0 = ast.unparse(r_.value.args[0])
        if a0 == mname:
            conv = None
            if probe != X:
                fail(r_, 'a %s matrix is passed to TwoPort%sModel' % (probe, X))
        elif a0 == '%s.%sparams' % (mname, X):
            conv = X
        else:
            fail(r_, 'unexpected matrix argument')
        kws = {k.arg: k.value for k in r_.value.keywords}
        if sorted(kws) != sorted(SRC_OWN[X]):
            fail(r_, 'expected the keywords %s, %s' % SRC_OWN[X])
        src = []
        for kw in SRC_OWN[X]:
            v = kws[kw]
            if not (isinstance(v, ast.Name) and v.id in env):
                fail(r_, 'source keyword is not one of the readings')
            src.append(env[v.id])
        return {'probe': probe, 'conv': X0 if via else conv, 'src': tuple(src), 'via': via, 'kind': X}

    def check_model_property(self, X):
        """TwoPort.<X>model in lcapy/twoport.py must be  return TwoPort<X>Model(self.<X>params, <own1>=self.<own1>, <own2>=self.<own2>)
        (the conversions self.<own k> are translated by tools/tr_sections.py and proved as src_conv_*)"""
        path = os.path.join(os.path.dirname(self.path), 'twoport.py')
        with warnings.catch_warnings():
            warnings.simplefilter('ignore')
            tree = ast.parse(open(path).read())
        want = 'TwoPort%sModel(self.%sparams, %s=self.%s, %s=self.%s)' % (X, X, SRC_OWN[X][0], SRC_OWN[X][0], SRC_OWN[X][1], SRC_OWN[X][1])
        for c in tree.body:
            if isinstance(c, ast.ClassDef) and c.name == 'TwoPort':
                for f in c.body:
                    if isinstance(f, ast.FunctionDef) and f.name == X + 'model':
                        rets = [s_ for s_ in ast.walk(f) if isinstance(s_, ast.Return)]
                        if len(rets) == 1 and ast.unparse(rets[0].value) == want:
                            return
                        raise Untranslatable('lcapy/twoport.py:%s: TwoPort.%smodel is not %s' % (f.lineno, X, want))
        raise Untranslatable('lcapy/twoport.py: TwoPort.%smodel not found' % X)

    # ---- driver ------------------------------------------------------------------------------------------
    def translate_all(self):
        for X in 'ABZ':
            try:
                self.probes[X] = self.probe(X)
            except Untranslatable as e:
                self.errors['translate_probe_' + X] = str(e)
        for Y in 'GHY':
            try:
                self.via[Y] = self.derived(Y)
            except Untranslatable as e:
                self.errors['translate_probe_' + Y] = str(e)
        try:
            self.models = self.twoport()
        except Untranslatable as e:
            self.errors['translate_twoport'] = str(e)
        return self

    # ---- Coq ------------------------------------------------------------------------------------------------
    def coq(self, ir):
        t = ir[0]
        if t == 'meas':
            return '(m %s %s)' % (ir[1], ir[2])
        if t == 'one':
            return '1'
        if t == 'neg':
            return '(fopp %s)' % self.coq(ir[1])
        if t in ('div', 'mul'):
            return '(%s %s %s)' % (self.coq(ir[1]), '/' if t == 'div' else '*', self.coq(ir[2]))
        raise Untranslatable('unknown IR ' + repr(ir))

    def atoms(self, ir, acc=None):
        acc = [] if acc is None else acc
        if ir[0] == 'meas':
            if (ir[1], ir[2]) not in acc:
                acc.append((ir[1], ir[2]))
        else:
            for x in ir[1:]:
                if isinstance(x, tuple):
                    self.atoms(x, acc)
        return acc

    def emit_defs(self):
        out = ['(* GENERATED by tools/tr_probes.py from %s (sha256 %s) *)' % (FNAME, self.sha[:16]),
               'Require Import LT.FieldSec LT.TwoPort LT.Sections Gen.C07probe Gen.TwoPortGen.', 'Local Open Scope F_scope.',
               'Section Gen.', 'Variable K : fld.']
        names = []
        for X, es in self.probes.items():
            out.append('(* NetlistOpsMixin.%sparams *)' % X)
            out.append('Definition probe_%s (m : meas K) : mat K :=\n  Mat %s.' % (X, '\n      '.join(self.coq(e) for e in es)))
            names.append('probe_' + X)
        for Y, X in self.via.items():
            if X in self.probes:
                out.append('(* NetlistOpsMixin.%sparams = %sparams(...).%sparams *)' % (Y, X, Y))
                out.append('Definition probe_%s (Z0 : K) (m : meas K) : mat K := %s_%sparams Z0 (probe_%s m).' % (Y, X, Y, X))
                names.append('probe_' + Y)
        for X, d in self.models.items():
            if d['probe'] not in self.probes:
                continue
            out.append("(* NetlistOpsMixin.twoport(model='%s') *)" % X)
            mexp = 'probe_%s m' % d['probe'] if d['conv'] is None else '%s_%sparams Z0 (probe_%s m)' % (d['probe'], d['conv'], d['probe'])
            out.append('Definition tp_mat_%s (Z0 : K) (m : meas K) : mat K := %s.' % (X, mexp))
            for k in (0, 1):
                out.append('Definition tp_src_%s_%d (m : meas K) : K := %s.' % (X, k + 1, self.coq(d['src'][k])))
                names.append('tp_src_%s_%d' % (X, k + 1))
            names.append('tp_mat_' + X)
        out.append('End Gen.')
        out += ['Arguments %s {K}.' % n for n in names]
        return '\n'.join(out) + '\n'

    HDR = ('(* GENERATED statement (template in tools/tr_probes.py) about definitions regenerated from lcapy/netlistopsmixin.py *)\n'
           'Require Import LT.FieldSec LT.TwoPort LT.Sections Gen.C07probe Gen.TwoPortGen Gen.ProbesGen.\nLocal Open Scope F_scope.\n'
           'Ltac use_meas H HR := let v := fresh "v" in let Rv := fresh "Rv" in let C := fresh "C" in let U := fresh "U" in let E := fresh "E" in\n'
           '  destruct H as [[v [Rv C]] U]; pose proof (U v Rv C) as E; apply HR in Rv; destruct v; cbn in Rv, C, E; destruct Rv, C; clear U.\n'
           'Section Obl.\nVariable K : fld.\nAdd Field KFobl : (fth K).\n')

    def emit_obligations(self):
        """{file: (names, text)}"""
        files = {}
        for X in self.probes:
            names = ['probe_%s_sound' % X]
            if X == 'Z':
                body = ('''
(* NetlistOpsMixin.Zparams: for every two-port relation that has a Z representation and on which the four analyses have a
   solution, the matrix built from the readings IS that representation *)
Theorem probe_Z_sound (Z0 : K) (R : port K -> Prop) (M : mat K) (m : meas K) :
  (forall v, R v <-> rel_Z Z0 M v) -> meas_Z_ok R m -> probe_Z m = M.
Proof.
  intros HR Hm. rewrite <- (extract_Z_spec K Z0 R M m HR Hm). unfold probe_Z, spec_Z. apply mat_eq; first [reflexivity | ring].
Qed.
''')
            else:
                body = ('''
(* NetlistOpsMixin.%sparams: for every two-port relation that has a%s %s representation and on which the five analyses have a
   solution, the matrix built from the readings IS that representation (in particular no reading used as a divisor is 0) *)
Theorem probe_%s_sound (Z0 : K) (R : port K -> Prop) (M : mat K) (m : meas K) :
  (forall v, R v <-> rel_%s Z0 M v) -> meas_%s_ok R m -> probe_%s m = M.
Proof.
  intros HR Hm. destruct (extract_%s_spec K Z0 R M m HR Hm) as [(U & N1 & N2 & N3 & N4) E]. rewrite <- E.
  unfold probe_%s, spec_%s. rewrite ?U. apply mat_eq; first [reflexivity | field; repeat split; assumption].
Qed.
''' % (X, 'n' if X == 'A' else '', X, X, X, X, X, X, X, X))
            if X == 'A':
                body += '''
(* ... and for a network whose port relation is the B relation of a section (theorems section_sem_X, chain_sem, ladder_sem_X) *)
Theorem probe_A_section (Z0 : K) (R : port K -> Prop) (Bm : mat K) (m : meas K) :
  (forall v, R v <-> rel_B Z0 Bm v) -> m11 Bm * m22 Bm - m12 Bm * m21 Bm <> 0 -> meas_A_ok R m ->
  forall v, R v <-> rel_A Z0 (probe_A m) v.
Proof.
  intros HR Hd Hm. assert (HA : forall v, R v <-> rel_A Z0 (B_as_A Bm) v) by (intro v; rewrite HR; apply relB_as_A; exact Hd).
  rewrite (probe_A_sound Z0 R _ m HA Hm). exact HA.
Qed.
'''
            elif X == 'Z':
                body += '''
(* ... and for a network whose port relation is the B relation of a section (theorems section_sem_X, chain_sem, ladder_sem_X) *)
Theorem probe_Z_section (Z0 : K) (R : port K -> Prop) (Bm : mat K) (m : meas K) :
  (forall v, R v <-> rel_B Z0 Bm v) -> m21 Bm <> 0 -> meas_Z_ok R m ->
  forall v, R v <-> rel_Z Z0 (probe_Z m) v.
Proof.
  intros HR Hd Hm. assert (HA : forall v, R v <-> rel_Z Z0 (B_as_Z Bm) v) by (intro v; rewrite HR; apply relB_as_Z; exact Hd).
  rewrite (probe_Z_sound Z0 R _ m HA Hm). exact HA.
Qed.
'''
            else:
                body += '''
Theorem probe_B_section (Z0 : K) (R : port K -> Prop) (Bm : mat K) (m : meas K) :
  (forall v, R v <-> rel_B Z0 Bm v) -> meas_B_ok R m -> forall v, R v <-> rel_B Z0 (probe_B m) v.
Proof. intros HR Hm. rewrite (probe_B_sound Z0 R Bm m HR Hm). exact HR. Qed.
'''
            names.append('probe_%s_section' % X)
            for Y, X2 in self.via.items():
                if X2 != X:
                    continue
                body += ('''
(* NetlistOpsMixin.%sparams: the %s probe followed by the conversion %sMatrix.%sparams (whose soundness is C08's conv_sound_%s_%s) *)
Theorem probe_%s_sound (Z0 : K) (R : port K -> Prop) (M : mat K) (m : meas K) :
  (forall v, R v <-> rel_%s Z0 M v) -> meas_%s_ok R m -> probe_%s Z0 m = %s_%sparams Z0 M.
Proof. intros HR Hm. unfold probe_%s. rewrite (probe_%s_sound Z0 R M m HR Hm). reflexivity. Qed.
''' % (Y, X, X, Y, X, Y, Y, X, X, Y, X, Y, Y, X))
                names.append('probe_%s_sound' % Y)
            files['C07_probe_%s.v' % X] = (names, self.HDR + body + 'End Obl.\n' + '\n'.join('Print Assumptions %s.' % n for n in names) + '\n')
        rel = {'A': 'relAs M s1 s2', 'B': 'relBs (TPM M s1 s2)', 'G': 'relGs M s1 s2', 'H': 'relHs M s1 s2', 'Y': 'relYs M s1 s2', 'Z': 'relZs M s1 s2'}
        for X, d in self.models.items():
            if d['probe'] not in self.probes:
                continue
            ats = []
            for ir in d['src']:
                self.atoms(ir, ats)
            hyps = ' ->\n  '.join('is_meas R %s %s (m %s %s)' % (a, b, a, b) for a, b in ats)
            nm = 'twoport_src_%s_sound' % X
            X0, X = X, d.get('kind', X)
            body = ('(* twoport(model=%r) returns TwoPort%sModel(...).%smodel: the statement is about the intermediate %s model; the conversion\n'
                    '   .%smodel uses the source conversions proved as src_conv_%s_B and src_conv_B_* / src_conv_TwoPort_* *)\n' % (X0, X, X0, X, X0, X)) if d.get('via') else ''
            body += ('''
(* NetlistOpsMixin.twoport(model='%s'): the two readings stored as %s, %s of the returned TwoPort%sModel are the source
   vector of the affine %s relation of the network (sources alive), whenever the analyses have a solution *)
Theorem %s (R : port K -> Prop) (M : mat K) (s1 s2 : K) (m : meas K) :
  (forall v, R v <-> %s v) ->
  %s ->
  tp_src_%s_1 m = s1 /\\ tp_src_%s_2 m = s2.
Proof.
  intros HR. destruct M as [x11 x12 x21 x22]. unfold relAs, relBs, relGs, relHs, relYs, relZs in HR. cbn [tB tV2b tI2b m11 m12 m21 m22] in HR.
  %s
  unfold tp_src_%s_1, tp_src_%s_2. split; knsatz.
Qed.
''' % (X0, SRC_OWN[X][0], SRC_OWN[X][1], X, X, nm, rel[X], hyps, X0, X0,
                 ' '.join('intros Hmeas%d. use_meas Hmeas%d HR.' % (k, k) for k in range(len(ats))), X0, X0))
            files['C07_tpsrc_%s.v' % X0] = ([nm], self.HDR + body + 'End Obl.\nPrint Assumptions %s.\n' % nm)
        return files


if __name__ == '__main__':
    import sys
    t = ProbeTranslator(sys.argv[1] if len(sys.argv) > 1 else '/repo').translate_all()
    print(t.errors)
    print(t.emit_defs())
    for f, (n, txt) in t.emit_obligations().items():
        print('=====', f, n)
        print(txt)
