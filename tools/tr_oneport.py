"""Fail-closed translator: the leaf classes of lcapy/oneport.py -> Coq table.

Reads the *source text* of lcapy/oneport.py and lcapy/network.py with `ast`
(never imports them).  For every leaf class the property quantifies over it
lowers `__init__` (found along the MRO) to

    which of  _Z / _Y / _Voc / _Isc  the constructor sets, and to what
    (field expression over the constructor parameters and the Laplace variable s)

plus the public attributes used by ParSer._combine (R._R, L.L, L.i0, has_ic,
zeroic, ...), the class flags (has_independent_source, is_voltage_source,
is_current_source, cpt_type, netkeyword), `expand()` of compound classes as a
tree, the shape of `_net_make` (default / reciprocal argument / expand), the
guard of ParSer.Voc / ParSer.Isc, and the normal forms of the one-line
Ser/Par immittance and source methods.

Recognised subset of `__init__` (anything else raises Untranslatable):
  self.kwargs = kwargs | self.args = <tuple> | if ..: self.args = .. [elif/else]
  if isinstance(X, str) and X == 'I': warn(..)
  self.has_ic = X is not None | if X is None: X = <int|omega0sym>
  X = W(X[, dc=True]) for the value-preserving wrappers W below
  X = AngularFourierNoiseDomainVoltage|Current(X, nid=nid)        (opaque)
  self.<attr> = <expr> | self.zeroic = self.<attr> == 0
  self._Z|_Y|_Voc|_Isc = <expr>
  <expr> ::= param | s | int | self.<attr> | + - * / unary- | s ** param
           | W(<expr>[, causal=True]) | <expr> * Heaviside(t)      (step source)
           | phasor(self.a * exp(j * self.b), omega=self.c)        (ac source)
           | self.expand().impedance
Sources whose value is a signal (dc, step, ac, noise, arbitrary, time-domain)
are emitted through opaque transform functions xf_* of the constructor
arguments: the table records THAT the class sets only _Voc (or _Isc) and from
which arguments, not what the Laplace/phasor transform is (that is C09/C14).
"""
import ast
import hashlib
import os

WRAPPERS = {'cexpr', 'expr', 'impedance', 'admittance', 'LaplaceDomainExpression',
            'SuperpositionVoltage', 'SuperpositionCurrent', 'voltage', 'current'}
LEAVES = ['R', 'NR', 'G', 'NG', 'L', 'C', 'CPE', 'Y', 'Z',
          'sV', 'V', 'Vstep', 'Vdc', 'Vac', 'Vnoise', 'v',
          'sI', 'I', 'Istep', 'Idc', 'Iac', 'Inoise', 'i',
          'Xtal', 'FerriteBead']
FLAGS = ['has_independent_source', 'is_voltage_source', 'is_current_source', 'cpt_type', 'netkeyword']
FIELDS = ['_Z', '_Y', '_Voc', '_Isc']


class Untranslatable(Exception):
    pass


def fail(node, why, fname='lcapy/oneport.py'):
    raise Untranslatable('%s:%s: %s: %s' % (fname, getattr(node, 'lineno', '?'), why,
                                            ast.unparse(node)[:160] if isinstance(node, ast.AST) else str(node)))


class Val:
    """a lowered value: Coq text over the constructor parameters, or opaque signal"""

    def __init__(self, coq, tag='plain', opt=False, args=None):
        self.coq = coq      # Coq expression text (type K, or option K when opt)
        self.tag = tag      # plain | time | step | dc | ac | noise | raw (unwrapped parameter)
        self.opt = opt      # an `option K` parameter not yet defaulted
        self.args = args or []


class LeafClass:
    def __init__(self, name):
        self.name = name
        self.params = []     # [(name, 'K' | 'opt')]
        self.fields = {}     # '_Z' -> Coq text
        self.attrs = {}      # public attribute -> Coq text (K) / bool text
        self.battrs = {}     # boolean attributes: has_ic, zeroic
        self.flags = {}
        self.expand = None   # Coq text of a tree (compound classes)
        self.netmake = 'default'
        self.netarg = None   # Coq text of the argument printed by an overriding _net_make
        self.init_owner = None
        self.lineno = 0


class OnePortTranslator:
    def __init__(self, repo):
        self.repo = repo
        self.path = os.path.join(repo, 'lcapy', 'oneport.py')
        self.src = open(self.path).read()
        self.npath = os.path.join(repo, 'lcapy', 'network.py')
        self.nsrc = open(self.npath).read()
        self.sha = hashlib.sha256((self.src + self.nsrc).encode()).hexdigest()
        self.classes = {}
        self.bases = {}
        for src, fn in ((self.nsrc, 'lcapy/network.py'), (self.src, 'lcapy/oneport.py')):
            for n in ast.parse(src).body:
                if isinstance(n, ast.ClassDef):
                    self.classes[n.name] = n
                    self.bases[n.name] = [ast.unparse(b) for b in n.bases]
        for need in LEAVES + ['OnePort', 'ParSer', 'Ser', 'Par', 'Network']:
            if need not in self.classes:
                raise Untranslatable('class %s not found' % need)
        self.leaves = {}
        self.order = []
        self.guard = None
        self.normal = {}

    # ---- class machinery ------------------------------------------------------
    def mro(self, name):
        out = []

        def go(n):
            if n in out or n not in self.classes:
                return
            out.append(n)
            for b in self.bases[n]:
                go(b)
        go(name)
        return out

    def method(self, cname, meth):
        for c in self.mro(cname):
            for n in self.classes[c].body:
                if isinstance(n, ast.FunctionDef) and n.name == meth:
                    return c, n
        return None, None

    def class_attr(self, cname, attr):
        for c in self.mro(cname):
            for n in self.classes[c].body:
                if isinstance(n, ast.Assign) and len(n.targets) == 1 and isinstance(n.targets[0], ast.Name) \
                        and n.targets[0].id == attr:
                    if isinstance(n.value, ast.Constant):
                        return n.value.value
                    fail(n, 'class attribute %s is not a constant' % attr)
        return None

    # ---- expressions ----------------------------------------------------------
    def lower(self, e, env, lc):
        if isinstance(e, ast.Constant):
            if isinstance(e.value, int) and not isinstance(e.value, bool) and 0 <= e.value <= 16:
                n = e.value
                return Val('0' if n == 0 else '1' if n == 1 else '(' + '+'.join(['1'] * n) + ')')
            fail(e, 'unsupported constant')
        if isinstance(e, ast.Name):
            if e.id in env:
                return env[e.id]
            if e.id == 's':
                return Val('s')
            fail(e, 'unknown name')
        if isinstance(e, ast.Attribute) and isinstance(e.value, ast.Name) and e.value.id == 'self':
            if e.attr in lc.attrs:
                return lc.attrs[e.attr]
            fail(e, 'attribute read before assignment')
        if isinstance(e, ast.UnaryOp) and isinstance(e.op, ast.USub):
            x = self.need_plain(self.lower(e.operand, env, lc), e)
            return Val('(fopp %s)' % x.coq)
        if isinstance(e, ast.BinOp):
            if isinstance(e.op, ast.Pow):
                if isinstance(e.left, ast.Name) and e.left.id == 's':
                    r = self.need_plain(self.lower(e.right, env, lc), e)
                    return Val('(spow %s)' % r.coq)
                fail(e, 'unsupported power')
            # <time-domain value> * Heaviside(t)
            if isinstance(e.op, ast.Mult) and ast.unparse(e.right) == 'Heaviside(t)':
                l = self.lower(e.left, env, lc)
                if l.tag != 'time':
                    fail(e, 'Heaviside(t) times a non time-domain value')
                return Val('(xf_step %s)' % l.coq, 'step')
            l = self.need_plain(self.lower(e.left, env, lc), e)
            r = self.need_plain(self.lower(e.right, env, lc), e)
            op = {ast.Add: '+', ast.Sub: '-', ast.Mult: '*', ast.Div: '/'}.get(type(e.op))
            if op is None:
                fail(e, 'unsupported operator')
            return Val('(%s %s %s)' % (l.coq, op, r.coq))
        if isinstance(e, ast.Call):
            f = e.func
            if isinstance(f, ast.Name):
                kw = {k.arg: ast.unparse(k.value) for k in e.keywords}
                if f.id in WRAPPERS and len(e.args) == 1:
                    x = self.lower(e.args[0], env, lc)
                    if set(kw) - {'causal', 'dc'}:
                        fail(e, 'unsupported keyword')
                    if kw.get('dc') == 'True':
                        if f.id != 'cexpr' or x.tag not in ('plain', 'raw'):
                            fail(e, 'dc=True on a non-constant')
                        return Val('(xf_dc %s)' % x.coq, 'dc')
                    if f.id in ('cexpr', 'expr', 'impedance', 'admittance', 'LaplaceDomainExpression') and x.tag == 'raw':
                        return Val(x.coq, 'plain', x.opt)
                    return x
                if f.id == 'TimeDomainExpression' and len(e.args) == 1 and not kw:
                    x = self.lower(e.args[0], env, lc)
                    if x.tag not in ('plain', 'raw'):
                        fail(e, 'TimeDomainExpression of a signal')
                    return Val(x.coq, 'time')
                if f.id in ('AngularFourierNoiseDomainVoltage', 'AngularFourierNoiseDomainCurrent') \
                        and len(e.args) == 1 and set(kw) == {'nid'}:
                    x = self.lower(e.args[0], env, lc)
                    return Val('(xf_noise %s)' % x.coq, 'noise')
                if f.id == 'phasor' and len(e.args) == 1 and set(kw) == {'omega'}:
                    a = e.args[0]
                    if not (isinstance(a, ast.BinOp) and isinstance(a.op, ast.Mult)
                            and isinstance(a.right, ast.Call) and ast.unparse(a.right.func) == 'exp'
                            and len(a.right.args) == 1 and isinstance(a.right.args[0], ast.BinOp)
                            and ast.unparse(a.right.args[0].left) == 'j'):
                        fail(e, 'unsupported phasor argument')
                    amp = self.need_plain(self.lower(a.left, env, lc), e)
                    ph = self.need_plain(self.lower(a.right.args[0].right, env, lc), e)
                    om = self.lower([k.value for k in e.keywords if k.arg == 'omega'][0], env, lc)
                    return Val('(xf_ac %s %s %s)' % (amp.coq, ph.coq, om.coq), 'ac')
            if isinstance(f, ast.Attribute):
                pass
        if ast.unparse(e) == 'self.expand().impedance':
            if lc.expand is None:
                fail(e, 'expand() not translated')
            return Val('(Zt ld0 %s)' % lc.expand_call)
        fail(e, 'unsupported expression')

    def need_plain(self, v, node):
        if v.tag == 'raw':
            return Val(v.coq, 'plain', v.opt)
        if v.tag != 'plain' or v.opt:
            fail(node, 'arithmetic on a signal-valued or optional argument')
        return v

    # ---- __init__ ---------------------------------------------------------------
    def translate_leaf(self, cname):
        lc = LeafClass(cname)
        owner, fn = self.method(cname, '__init__')
        if fn is None or owner in ('OnePort', 'Network', 'ParSer'):
            raise Untranslatable('no __init__ for leaf class %s' % cname)
        lc.init_owner, lc.lineno = owner, fn.lineno
        a = fn.args
        if a.vararg or a.kwonlyargs or a.kwarg is None or a.kwarg.arg != 'kwargs':
            fail(fn, 'unexpected signature')
        names = [x.arg for x in a.args][1:]
        defaults = [None] * (len(names) - len(a.defaults)) + list(a.defaults)
        env = {}
        for nm, d in zip(names, defaults):
            if d is not None and isinstance(d, ast.Constant) and d.value is None:
                lc.params.append((nm, 'opt'))
                env[nm] = Val('a_' + nm, 'raw', opt=True)
            else:
                lc.params.append((nm, 'K'))
                env[nm] = Val('a_' + nm, 'raw')
        # Iac declares phi=0 but tests `phi is None`: treat as given
        for fl in FLAGS:
            lc.flags[fl] = self.class_attr(cname, fl)
        # expand() first: __init__ may use it
        eo, efn = self.method(cname, 'expand')
        if efn is not None and eo == cname:
            self.translate_expand(lc, efn)
        for st in fn.body:
            self.stmt(st, env, lc)
        setf = [f for f in FIELDS if f in lc.fields]
        if not setf:
            fail(fn, 'constructor sets none of _Z/_Y/_Voc/_Isc')
        # _net_make
        no, nfn = self.method(cname, '_net_make')
        if no == 'Network':
            lc.netmake = 'default'
        elif no == cname or no in self.mro(cname):
            self.translate_netmake(lc, no, nfn, env)
        self.leaves[cname] = lc
        self.order.append(cname)
        return lc

    def is_args_only(self, stmts):
        for s in stmts:
            if isinstance(s, ast.Assign) and len(s.targets) == 1 and ast.unparse(s.targets[0]) == 'self.args':
                continue
            if isinstance(s, ast.If) and self.is_args_only(s.body) and self.is_args_only(s.orelse):
                continue
            return False
        return True

    def stmt(self, st, env, lc):
        if isinstance(st, ast.Expr) and isinstance(st.value, ast.Constant) and isinstance(st.value.value, str):
            return
        if isinstance(st, ast.Assign) and len(st.targets) == 1:
            tg = ast.unparse(st.targets[0])
            if tg in ('self.kwargs', 'self.args'):
                return
            if tg == 'self.has_ic':
                t = st.value
                if isinstance(t, ast.Compare) and len(t.ops) == 1 and isinstance(t.ops[0], ast.IsNot) \
                        and isinstance(t.left, ast.Name) and ast.unparse(t.comparators[0]) == 'None' \
                        and t.left.id in env and env[t.left.id].opt:
                    lc.battrs['has_ic'] = '(is_some %s)' % env[t.left.id].coq
                    return
                fail(st, 'unsupported has_ic')
            if tg == 'self.zeroic':
                t = st.value
                if isinstance(t, ast.Compare) and len(t.ops) == 1 and isinstance(t.ops[0], ast.Eq) \
                        and ast.unparse(t.comparators[0]) == '0':
                    x = self.need_plain(self.lower(t.left, env, lc), st)
                    lc.battrs['zeroic'] = '(eq0 %s)' % x.coq
                    return
                fail(st, 'unsupported zeroic')
            if isinstance(st.targets[0], ast.Name):
                nm = st.targets[0].id
                env[nm] = self.lower(st.value, env, lc)
                return
            if isinstance(st.targets[0], ast.Attribute) and ast.unparse(st.targets[0].value) == 'self':
                at = st.targets[0].attr
                v = self.lower(st.value, env, lc)
                if at in FIELDS:
                    if v.opt:
                        fail(st, 'optional value stored in ' + at)
                    if v.tag == 'raw':
                        # SuperpositionVoltage(Vval): an arbitrary signal
                        v = Val('(xf_any %s)' % v.coq, 'any')
                    if v.tag == 'time':
                        v = Val('(xf_time %s)' % v.coq, 'timesig')
                    lc.fields[at] = v
                else:
                    lc.attrs[at] = v
                return
            fail(st, 'unsupported assignment')
        if isinstance(st, ast.If):
            t = ast.unparse(st.test)
            # warn-only
            if len(st.body) == 1 and not st.orelse and isinstance(st.body[0], ast.Expr) \
                    and isinstance(st.body[0].value, ast.Call) and ast.unparse(st.body[0].value.func) == 'warn':
                return
            if self.is_args_only(st.body) and self.is_args_only(st.orelse):
                return
            # if X is None: X = <default>
            if isinstance(st.test, ast.Compare) and len(st.test.ops) == 1 and isinstance(st.test.ops[0], ast.Is) \
                    and isinstance(st.test.left, ast.Name) and ast.unparse(st.test.comparators[0]) == 'None' \
                    and not st.orelse and len(st.body) == 1 and isinstance(st.body[0], ast.Assign) \
                    and ast.unparse(st.body[0].targets[0]) == st.test.left.id:
                nm = st.test.left.id
                if nm not in env:
                    fail(st, 'default for unknown name')
                d = ast.unparse(st.body[0].value)
                cur = env[nm]
                if not cur.opt:
                    # parameter declared with a non-None default: the test is never true for supplied values
                    return
                if d == '0':
                    env[nm] = Val('(odef %s 0)' % cur.coq, 'raw')
                elif d == 'omega0sym':
                    env[nm] = Val('(odef %s omega0)' % cur.coq, 'raw')
                else:
                    fail(st, 'unsupported default')
                return
            fail(st, 'unsupported if')
        fail(st, 'unsupported statement')

    # ---- expand() -> tree ---------------------------------------------------------
    def translate_expand(self, lc, fn):
        body = [s for s in fn.body if not (isinstance(s, ast.Expr) and isinstance(s.value, ast.Constant))]
        if len(body) != 1 or not isinstance(body[0], ast.Return):
            fail(fn, 'unsupported expand()')
        lc.expand_src = body[0].value

    def tree_of(self, e, lc):
        if isinstance(e, ast.BinOp) and isinstance(e.op, ast.Add):
            return '(Ser [%s; %s])' % (self.tree_of(e.left, lc), self.tree_of(e.right, lc))
        if isinstance(e, ast.BinOp) and isinstance(e.op, ast.BitOr):
            return '(Par [%s; %s])' % (self.tree_of(e.left, lc), self.tree_of(e.right, lc))
        if isinstance(e, ast.Call) and isinstance(e.func, ast.Name) and e.func.id in ('R', 'L', 'C', 'G') \
                and len(e.args) == 1 and not e.keywords:
            v = self.need_plain(self.lower(e.args[0], {}, lc), e)
            sub = self.leaves.get(e.func.id)
            if sub is None:
                fail(e, 'expand() uses a class that is not translated yet')
            extra = ' None' * (len(sub.params) - 1)
            return '(Leaf (L_%s %s%s))' % (e.func.id, v.coq, extra)
        fail(e, 'unsupported expand() expression')

    def translate_netmake(self, lc, owner, fn, env):
        src = ast.unparse(fn)
        body = [s for s in fn.body if not (isinstance(s, ast.Expr) and isinstance(s.value, ast.Constant))]
        u = [ast.unparse(s) for s in body]
        if u == ['net = self.expand()', 'return net._net_make(netlist, n1, n2, dir)']:
            lc.netmake = 'expand'
            return
        # G: 'R? n1 n2 {1 / self._G}'
        if len(u) == 4 and u[0].startswith('if n1 == None') and u[1].startswith('if n2 == None') \
                and u[2] == 'opts_str = self._opts_str(dir)' and isinstance(body[3], ast.Return):
            r = body[3].value
            if isinstance(r, ast.BinOp) and isinstance(r.op, ast.Mod) and isinstance(r.left, ast.Constant) \
                    and r.left.value.startswith('R? %s %s {%s}') and isinstance(r.right, ast.Tuple) and len(r.right.elts) == 4:
                v = self.need_plain(self.lower(r.right.elts[2], env, lc), fn)
                lc.netmake = 'asR'
                lc.netarg = v.coq
                return
        fail(fn, 'unsupported _net_make override')

    # ---- guards and one-line methods of Ser / Par / ParSer -----------------------
    def body_of(self, cname, meth):
        for n in self.classes[cname].body:
            if isinstance(n, ast.FunctionDef) and n.name == meth:
                return n, [s for s in n.body if not (isinstance(s, ast.Expr) and isinstance(s.value, ast.Constant))]
        raise Untranslatable('%s.%s not found' % (cname, meth))

    def sum_form(self, cname, meth):
        """X = 0; for arg in self.args: X += arg.<attr>; return X  ->  ('sum', attr)
           return 1 / self.<attr>                                   ->  ('inv', attr)"""
        fn, b = self.body_of(cname, meth)
        # an initial value problem is handed to the netlist route as a whole (same value: code_eq_spec)
        if meth in ('Voc', 'Isc') and b and isinstance(b[0], ast.If) and not b[0].orelse and ast.unparse(b[0].test) == 'self.is_IVP' \
                and [ast.unparse(x) for x in b[0].body] == ['return self.cct.%s(1, 0)' % meth]:
            b = b[1:]
        u = [ast.unparse(s) for s in b]
        if len(b) == 3 and isinstance(b[0], ast.Assign) and ast.unparse(b[0].value) == '0' and isinstance(b[1], ast.For) \
                and ast.unparse(b[1].iter) == 'self.args' and len(b[1].body) == 1 and isinstance(b[1].body[0], ast.AugAssign) \
                and isinstance(b[1].body[0].op, ast.Add):
            x = ast.unparse(b[0].targets[0])
            tgt = b[1].target.id
            v = b[1].body[0].value
            if ast.unparse(b[1].body[0].target) == x and u[2] == 'return ' + x and isinstance(v, ast.Attribute) \
                    and ast.unparse(v.value) == tgt:
                return ('sum', v.attr)
        if len(b) == 1 and isinstance(b[0], ast.Return) and isinstance(b[0].value, ast.BinOp) \
                and isinstance(b[0].value.op, ast.Div) and ast.unparse(b[0].value.left) == '1' \
                and isinstance(b[0].value.right, ast.Attribute) and ast.unparse(b[0].value.right.value) == 'self':
            return ('inv', b[0].value.right.attr)
        fail(fn, 'unsupported body of %s.%s' % (cname, meth))

    def guard_form(self, meth):
        """ParSer.Voc / ParSer.Isc:  if <guard>: return self.cct.<meth>(1, 0); return Superposition..(0)"""
        fn, b = self.body_of('ParSer', meth)
        if len(b) == 2 and isinstance(b[0], ast.If) and not b[0].orelse and len(b[0].body) == 1 \
                and ast.unparse(b[0].body[0]) == 'return self.cct.%s(1, 0)' % meth \
                and ast.unparse(b[1]) in ('return SuperpositionVoltage(0)', 'return SuperpositionCurrent(0)'):
            return self.guard_expr(b[0].test, 'self')
        if len(b) == 1 and ast.unparse(b[0]) == 'return self.cct.%s(1, 0)' % meth:
            return ['true']
        fail(fn, 'unsupported body of ParSer.' + meth)

    def guard_expr(self, t, who):
        """disjunction of  <who>.has_independent_source | not <who>.zeroic  ->  list of atoms"""
        if isinstance(t, ast.BoolOp) and isinstance(t.op, ast.Or):
            out = []
            for v in t.values:
                out += self.guard_expr(v, who)
            return out
        u = ast.unparse(t)
        if u == who + '.has_independent_source':
            return ['src']
        if u == 'not %s.zeroic' % who:
            return ['ic']
        fail(t, 'unsupported guard')

    def any_form(self, cname, meth):
        """for arg in self.args: if <guard over arg>: return True; return False"""
        fn, b = self.body_of(cname, meth)
        if len(b) == 2 and isinstance(b[0], ast.For) and ast.unparse(b[0].iter) == 'self.args' and len(b[0].body) == 1 \
                and isinstance(b[0].body[0], ast.If) and not b[0].body[0].orelse \
                and [ast.unparse(x) for x in b[0].body[0].body] == ['return True'] and ast.unparse(b[1]) == 'return False':
            return self.guard_expr(b[0].body[0].test, b[0].target.id)
        fail(fn, 'unsupported body of %s.%s' % (cname, meth))

    def all_form(self, cname, meth):
        """return all((arg.zeroic for arg in self.args))"""
        fn, b = self.body_of(cname, meth)
        if len(b) == 1 and ast.unparse(b[0]) in ('return all((arg.zeroic for arg in self.args))',
                                                 'return all([arg.zeroic for arg in self.args])'):
            return ['zeroic']
        fail(fn, 'unsupported body of %s.%s' % (cname, meth))

    def translate_all(self):
        for c in LEAVES:
            if c in ('Xtal', 'FerriteBead'):
                continue
            self.translate_leaf(c)
        for c in ('Xtal', 'FerriteBead'):
            # expand tree needs the basic leaves
            self.translate_leaf_compound(c)
        # the flags a ParSer node computes from its arguments
        self.normal['Ser.impedance'] = self.sum_form('Ser', 'impedance')
        self.normal['Ser.admittance'] = self.sum_form('Ser', 'admittance')
        self.normal['Ser.Voc'] = self.sum_form('Ser', 'Voc')
        self.normal['Par.admittance'] = self.sum_form('Par', 'admittance')
        self.normal['Par.impedance'] = self.sum_form('Par', 'impedance')
        self.normal['Par.Isc'] = self.sum_form('Par', 'Isc')
        for cname, meth in (('Ser', 'Isc'), ('Par', 'Voc')):
            for n in self.classes[cname].body:
                if isinstance(n, ast.FunctionDef) and n.name == meth:
                    fail(n, '%s.%s is defined (the model uses ParSer.%s)' % (cname, meth, meth))
        gv = self.guard_form('Voc')
        gi = self.guard_form('Isc')
        if gv != gi:
            raise Untranslatable('ParSer.Voc and ParSer.Isc use different guards: %s / %s' % (gv, gi))
        # each atom of the guard, evaluated on a ParSer node, must be "any argument"
        atoms = []
        for at in gv:
            if at == 'true':
                atoms.append('true')
            elif at == 'src':
                atoms += self.any_form('ParSer', 'has_independent_source')
            elif at == 'ic':
                # not self.zeroic with zeroic = all(arg.zeroic) == any(not arg.zeroic)
                self.all_form('ParSer', 'zeroic')
                atoms.append('ic')
        self.guard = sorted(set(atoms))
        if not set(self.guard) <= {'true', 'src', 'ic'}:
            raise Untranslatable('unsupported guard atoms %s' % self.guard)
        # a node-level atom must be closed under the node-level definition:
        # has_independent_source of a ParSer may itself mention `not arg.zeroic`
        return self

    def translate_leaf_compound(self, cname):
        lc = LeafClass(cname)
        owner, fn = self.method(cname, '__init__')
        lc.init_owner, lc.lineno = owner, fn.lineno
        a = fn.args
        names = [x.arg for x in a.args][1:]
        if a.defaults or a.vararg or a.kwarg is None:
            fail(fn, 'unexpected signature')
        env = {}
        for nm in names:
            lc.params.append((nm, 'K'))
            env[nm] = Val('a_' + nm, 'raw')
        for fl in FLAGS:
            lc.flags[fl] = self.class_attr(cname, fl)
        eo, efn = self.method(cname, 'expand')
        if efn is None or eo != cname:
            fail(fn, 'compound class without expand()')
        self.translate_expand(lc, efn)
        lc.expand = True
        lc.expand_call = '(expand_%s %s)' % (cname, ' '.join('a_' + n for n in names))
        for st in fn.body:
            self.stmt(st, env, lc)
        lc.expand_tree = self.tree_of(lc.expand_src, lc)
        if set(lc.fields) != {'_Z'} or lc.fields['_Z'].coq != '(Zt ld0 %s)' % lc.expand_call:
            fail(fn, 'compound class must set exactly _Z = self.expand().impedance')
        no, nfn = self.method(cname, '_net_make')
        self.translate_netmake(lc, no, nfn, env)
        if lc.netmake != 'expand':
            fail(nfn, 'compound class must emit its expansion')
        self.leaves[cname] = lc
        self.order.append(cname)

    # ---- Coq emission --------------------------------------------------------------
    def emit(self, stamp_owner):
        """stamp_owner: netlist type name -> stamp-defining class of mnacpts.py (from tools/tr_stamps.py)"""
        o = ['(* GENERATED from lcapy/oneport.py + lcapy/network.py (sha256 %s) by tools/tr_oneport.py.' % self.sha,
             '   Do not edit: regenerated from /repo on every run. *)',
             'Require Import LT.FieldSec LT.OnePort.', 'Local Open Scope F_scope.', '',
             'Inductive nkind := NK_RC | NK_L | NK_V | NK_I.', '',
             'Section Gen.', 'Variable K : fld.',
             'Variable s : K.                         (* the Laplace variable *)',
             'Variable spow : K -> K.                 (* s ** alpha (CPE), opaque *)',
             'Variable omega0 : K.',
             'Variable xf_dc : K -> K.', 'Variable xf_step : K -> K.', 'Variable xf_any : K -> K.',
             'Variable xf_time : K -> K.', 'Variable xf_noise : K -> K.', 'Variable xf_ac : K -> K -> K -> K.', '',
             'Definition odef (o : option K) (d : K) : K := match o with Some x => x | None => d end.',
             'Definition is_some (o : option K) : bool := match o with Some _ => true | None => false end.',
             'Definition eq0 (x : K) : bool := if fdec K x 0 then true else false.', '']
        ctors = []
        for c in self.order:
            lc = self.leaves[c]
            ps = ' '.join('(a_%s : %s)' % (n, 'K' if t == 'K' else 'option K') for n, t in lc.params)
            ctors.append('  | L_%s %s' % (c, ps))
        o.append('Inductive lf :=\n' + '\n'.join(ctors) + '.\n')

        def pat(lc):
            return 'L_%s %s' % (lc.name, ' '.join('a_' + n for n, _ in lc.params))

        # expansion trees of the compound classes
        for c in self.order:
            lc = self.leaves[c]
            if lc.expand:
                ps = ' '.join('(a_%s : K)' % n for n, _ in lc.params)
                o.append('(* %s.expand, line %d *)' % (c, lc.expand_src.lineno))
                o.append('Definition expand_%s %s : tree lf :=\n  %s.\n' % (c, ps, lc.expand_tree))

        def fld(lc, f):
            return '(Some %s)' % lc.fields[f].coq if f in lc.fields else 'None'
        o.append('(* what each __init__ sets: _Z _Y _Voc _Isc *)')
        arms = []
        for c in self.order:
            lc = self.leaves[c]
            if lc.expand:
                arms.append('  | %s => LD None None None None' % pat(lc))
            else:
                arms.append('  | %s => LD %s %s %s %s   (* %s.__init__, line %d *)' % (
                    pat(lc), fld(lc, '_Z'), fld(lc, '_Y'), fld(lc, '_Voc'), fld(lc, '_Isc'), lc.init_owner, lc.lineno))
        o.append('Definition ld0 (l : lf) : ldata K :=\n  match l with\n' + '\n'.join(arms) + '\n  end.\n')
        arms = []
        for c in self.order:
            lc = self.leaves[c]
            if lc.expand:
                arms.append('  | %s => LD %s None None None   (* %s.__init__, line %d *)' % (pat(lc), fld(lc, '_Z'), lc.init_owner, lc.lineno))
        arms.append('  | _ => ld0 l')
        o.append('Definition ld (l : lf) : ldata K :=\n  match l with\n' + '\n'.join(arms) + '\n  end.\n')

        def btable(name, f):
            arms = ['  | %s => %s' % (pat(self.leaves[c]), f(self.leaves[c])) for c in self.order]
            o.append('Definition %s (l : lf) : bool :=\n  match l with\n%s\n  end.\n' % (name, '\n'.join(arms)))
        btable('has_src', lambda lc: 'true' if lc.flags['has_independent_source'] else 'false')
        btable('is_vsrc', lambda lc: 'true' if lc.flags['is_voltage_source'] else 'false')
        btable('is_isrc', lambda lc: 'true' if lc.flags['is_current_source'] else 'false')
        btable('has_ic', lambda lc: lc.battrs.get('has_ic', 'false'))
        btable('zeroic', lambda lc: lc.battrs.get('zeroic', 'true'))
        # guard of ParSer.Voc / ParSer.Isc restricted to a leaf
        terms = []
        for at in self.guard:
            terms.append({'true': 'true', 'src': 'has_src l', 'ic': 'negb (zeroic l)'}[at])
        o.append('(* guard of ParSer.Voc / ParSer.Isc (atoms: %s) *)' % ', '.join(self.guard))
        o.append('Definition gl (l : lf) : bool := %s.\n' % (' || '.join(terms) if terms else 'false'))
        # netlist side
        arms = []
        for c in self.order:
            lc = self.leaves[c]
            if lc.expand:
                arms.append('  | %s => None' % pat(lc))
                continue
            typ = lc.flags['cpt_type'] or c
            if lc.netmake == 'asR':
                typ = 'R'
            ow = stamp_owner(typ)
            if ow not in ('RC', 'L', 'V', 'I'):
                raise Untranslatable('netlist type %s of %s has stamp class %s' % (typ, c, ow))
            arms.append('  | %s => Some NK_%s   (* netlist type %s *)' % (pat(lc), ow, typ))
        o.append('(* stamp class of the netlist component a leaf is printed as *)')
        o.append('Definition nkind_of (l : lf) : option nkind :=\n  match l with\n' + '\n'.join(arms) + '\n  end.\n')
        arms = []
        for c in self.order:
            lc = self.leaves[c]
            if lc.netmake == 'asR':
                arms.append('  | %s => L_R %s' % (pat(lc), lc.netarg))
        arms.append('  | _ => l')
        o.append('(* the one-port the netlist component is built from (G is printed as R with 1/G) *)')
        o.append('Definition nleaf (l : lf) : lf :=\n  match l with\n' + '\n'.join(arms) + '\n  end.\n')
        arms = []
        for c in self.order:
            lc = self.leaves[c]
            if lc.expand:
                arms.append('  | %s => Some %s' % (pat(lc), lc.expand_call))
        arms.append('  | _ => None')
        o.append('Definition nexpand (l : lf) : option (tree lf) :=\n  match l with\n' + '\n'.join(arms) + '\n  end.\n')
        # class tag and constructor arguments (structural comparison in the correspondence evaluation)
        arms = ['  | %s => %d%%nat' % (pat(self.leaves[c]), k) for k, c in enumerate(self.order)]
        o.append('Definition ctag (l : lf) : nat :=\n  match l with\n' + '\n'.join(arms) + '\n  end.\n')
        arms = []
        for c in self.order:
            lc = self.leaves[c]
            arms.append('  | %s => [%s]' % (pat(lc), '; '.join(('Some a_%s' % n) if t == 'K' else ('a_' + n) for n, t in lc.params)))
        o.append('Definition largs (l : lf) : list (option K) :=\n  match l with\n' + '\n'.join(arms) + '\n  end.\n')
        # public attributes used by _combine
        for attr, cl in (('_R', 'R'), ('_G', 'G'), ('L', 'L'), ('i0', 'L'), ('C', 'C'), ('v0', 'C'), ('v0', 'Vdc'), ('i0', 'Idc')):
            lc = self.leaves[cl]
            if attr not in lc.attrs:
                raise Untranslatable('%s.%s is not assigned in __init__' % (cl, attr))
            v = lc.attrs[attr]
            ps = ' '.join('(a_%s : %s)' % (n, 'K' if t == 'K' else 'option K') for n, t in lc.params)
            o.append('Definition attr_%s_%s %s : K := %s.' % (cl, attr.strip('_'), ps, v.coq))
        o.append('')
        o.append('(* normal forms of the one-line methods: %s *)' % self.normal)
        o.append('End Gen.\n')
        for nm in ['odef', 'is_some', 'eq0', 'ld0', 'ld', 'has_src', 'is_vsrc', 'is_isrc', 'has_ic', 'zeroic', 'gl',
                   'nkind_of', 'nleaf', 'nexpand', 'ctag', 'largs'] + ['L_' + c for c in self.order] + \
                ['expand_' + c for c in self.order if self.leaves[c].expand] + \
                ['attr_R_R', 'attr_G_G', 'attr_L_L', 'attr_L_i0', 'attr_C_C', 'attr_C_v0', 'attr_Vdc_v0', 'attr_Idc_i0']:
            o.append('Arguments %s {K}.' % nm)
        return '\n'.join(o) + '\n'


def main(repo):
    tr = OnePortTranslator(repo)
    tr.translate_all()
    return tr


if __name__ == '__main__':
    import sys
    sys.path.insert(0, os.path.dirname(os.path.abspath(__file__)))
    import tr_stamps as TS
    tr = main(sys.argv[1] if len(sys.argv) > 1 else '/repo')
    st = TS.StampTranslator(os.path.join(tr.repo, 'lcapy', 'mnacpts.py'))
    st.translate_all()
    print(tr.emit(lambda t: st.stamp_owner(t) if t in st.bases else None))
