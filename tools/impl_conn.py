import warnings, json, sys
warnings.simplefilter('ignore')
from lcapy.twoport import *
from fractions import Fraction as Fr
spec = json.load(sys.stdin)
out = []
for meth, K, a, b in spec:
    M = {'Z': (ZMatrix, TwoPortZModel), 'Y': (YMatrix, TwoPortYModel), 'H': (HMatrix, TwoPortHModel), 'G': (GMatrix, TwoPortGModel)}[K]
    def mk(m):
        from lcapy import expr
        return M[1](M[0](((expr(m[0]), expr(m[1])), (expr(m[2]), expr(m[3])))))
    try:
        r = getattr(mk(a), meth)(mk(b))
        P = getattr(r, K + 'params')
        out.append({'cls': type(r).__name__, 'params': [str(P[i, j].sympy) for i in (0, 1) for j in (0, 1)]})
    except Exception as e:
        out.append({'error': repr(e)[:300]})
print(json.dumps(out))
