"""Fail-closed translator for property C17 (numerical evaluation).

Reads the *source text* (python `ast`, nothing is imported or run) of

  lcapy/expr.py            Expr.evaluate: the nested numeric definitions inside
                           evaluate_expr (rect, sign, dtsign, dtrect, sinc, sincn,
                           sincu, psinc, trap, tri, ramp, rampstep, dirac,
                           unitimpulse, unitstep, heaviside), the lambdify name
                           table, the causal short-circuit in `func`, the
                           scalar / list structure of evaluate_expr
  lcapy/config.py          heaviside_zero, unitstep_zero
  lcapy/extrafunctions.py  eval / rewrite bodies of UnitImpulse, UnitStep, rect,
                           dtrect, dtsign, sincn, sincu, psinc, tri, trap, ramp,
                           rampstep
  lcapy/acdc.py            the argument test of CausalChecker._has_causal_factor

and lowers them to a small IR from which checks/c17.py emits Coq definitions:
piecewise functions over Q for the piecewise-linear ones, functions over an
abstract field K with abstract `sn` (sine), `pi` and integrality oracle
`int_of` for the sinc family.

Recognised subset (anything else raises Untranslatable with file:line):
  statements : docstring | comment | `name = <expr>` | `return <expr>`
             | if / elif / else over <cond>
             | `if zero is None: zero = <expr>`  (default of an optional parameter)
             | sym side only: the outer guard `if val.is_Number [and alpha.is_number]:`
               (the model is the Number case; the other case is "unevaluated")
             | rewrite only: `x = self.args[i]`
  expressions: parameters / locals | int and float literals (floats must be
               exact dyadic rationals) | + - * / unary - | abs(e)
             | np.pi, sym.pi | np.sin(e), sym.sin(e[, evaluate=False]) | np.inf
             | S.Zero, S.One, S.Half | calls of sibling definitions
             | sym.Heaviside(e) | heaviside_zero, unitstep_zero
             | `a if <cond> else b`
  conditions : < <= > >= == between expressions | and / or
             | e.is_zero | fuzzy_not(e.is_zero) | e.is_nonnegative | e.is_negative
             | e.is_integer and e.is_even / e.is_odd | x == np.round(x) | e % 2 == 0
"""
import ast
import hashlib
import os
from fractions import Fraction


class Untranslatable(Exception):
    pass


def fail(node, why, fname):
    raise Untranslatable('%s:%s: %s: %s' % (fname, getattr(node, 'lineno', '?'), why,
                                            ast.unparse(node)[:160] if isinstance(node, ast.AST) else str(node)))


NUM_TRANSLATED = ['rect', 'sign', 'dtsign', 'dtrect', 'sinc', 'sincn', 'sincu', 'psinc', 'trap', 'tri',
                  'ramp', 'rampstep', 'dirac', 'unitimpulse', 'unitstep', 'heaviside']
# present in the source, outside the model (named in the evidence): Bessel
# functions (scipy), the overflow clamp of exp, complex promotion of sqrt
NUM_OPAQUE = ['besseli', 'besselj', 'exp', 'sqrt']
SYM_CLASSES = ['UnitImpulse', 'UnitStep', 'rect', 'dtrect', 'dtsign', 'sincn', 'sincu', 'psinc', 'tri',
               'trap', 'ramp', 'rampstep']
SYM_IGNORED = ['Degrees', 'Radians']
# sympy's own functions that appear as lambdify keys (specified by hand in coq/theory/NumEval.v)
SYMPY_BUILTIN = ['DiracDelta', 'Heaviside', 'sinc', 'sign']


def is_doc(st):
    return isinstance(st, ast.Expr) and isinstance(st.value, ast.Constant) and isinstance(st.value.value, str)


class Lower:
    """lowers one function body to the IR

    expression IR : ('var',n) ('q',Fraction) ('inf',) ('pi',) ('sin',e) ('add',a,b) ('sub',a,b)
                    ('mul',a,b) ('div',a,b) ('neg',a) ('abs',a) ('call',fname,[args]) ('cfg',name)
                    ('ite',cond,a,b) ('dflt',name,e)
    condition IR  : ('lt',a,b) ('le',a,b) ('eq',a,b) ('or',c,d) ('and',c,d) ('not',c)
                    ('isint',e) ('iseven',e) ('isodd',e)
    statement tree: ('ret',e) ('if',cond,T,E) ('let',name,e,T) ('fall',)
    """

    def __init__(self, fname, side, siblings, cfg_names):
        self.fname = fname
        self.side = side            # 'num' | 'sym'
        self.siblings = siblings    # callable names on this side
        self.cfg = cfg_names

    # -- expressions --------------------------------------------------------
    def const(self, node):
        v = node.value
        if isinstance(v, bool) or not isinstance(v, (int, float)):
            fail(node, 'unsupported constant', self.fname)
        if isinstance(v, float):
            # the literal must denote exactly the float (dyadic rational)
            txt = ast.unparse(node)
            try:
                if Fraction(txt) != Fraction(v):
                    fail(node, 'float literal is not an exact dyadic rational', self.fname)
            except ValueError:
                fail(node, 'unsupported float literal', self.fname)
        return ('q', Fraction(v))

    def expr(self, e, env):
        F = self.fname
        if isinstance(e, ast.Constant):
            return self.const(e)
        if isinstance(e, ast.Name):
            if e.id in env:
                return ('var', e.id)
            if e.id in self.cfg:
                return ('cfg', e.id)
            fail(e, 'unknown name', F)
        if isinstance(e, ast.UnaryOp) and isinstance(e.op, ast.USub):
            return ('neg', self.expr(e.operand, env))
        if isinstance(e, ast.BinOp):
            ops = {ast.Add: 'add', ast.Sub: 'sub', ast.Mult: 'mul', ast.Div: 'div'}
            if type(e.op) not in ops:
                fail(e, 'unsupported operator', F)
            return (ops[type(e.op)], self.expr(e.left, env), self.expr(e.right, env))
        if isinstance(e, ast.IfExp):
            return ('ite', self.cond(e.test, env), self.expr(e.body, env), self.expr(e.orelse, env))
        if isinstance(e, ast.Attribute) and isinstance(e.value, ast.Name):
            key = (e.value.id, e.attr)
            if key in (('np', 'pi'), ('sym', 'pi')):
                return ('pi',)
            if key == ('np', 'inf') and self.side == 'num':
                return ('inf',)
            if self.side == 'sym' and e.value.id == 'S':
                tab = {'Zero': Fraction(0), 'One': Fraction(1), 'Half': Fraction(1, 2)}
                if e.attr in tab:
                    return ('q', tab[e.attr])
            fail(e, 'unsupported attribute', F)
        if isinstance(e, ast.Call):
            fn = e.func
            if isinstance(fn, ast.Name) and fn.id == 'abs' and len(e.args) == 1 and not e.keywords:
                return ('abs', self.expr(e.args[0], env))
            if isinstance(fn, ast.Attribute) and isinstance(fn.value, ast.Name) and fn.attr == 'sin' \
                    and fn.value.id in ('np', 'sym') and len(e.args) == 1:
                for kw in e.keywords:
                    if not (kw.arg == 'evaluate' and isinstance(kw.value, ast.Constant)):
                        fail(e, 'unsupported keyword', F)
                return ('sin', self.expr(e.args[0], env))
            if isinstance(fn, ast.Attribute) and isinstance(fn.value, ast.Name) and fn.value.id == 'sym' \
                    and fn.attr == 'Heaviside' and self.side == 'sym' and len(e.args) == 1 and not e.keywords:
                return ('call', 'sympy_Heaviside', [self.expr(e.args[0], env)])
            if isinstance(fn, ast.Name) and fn.id in self.siblings and not e.keywords:
                return ('call', fn.id, [self.expr(a, env) for a in e.args])
            fail(e, 'unsupported call', F)
        fail(e, 'unsupported expression', F)

    # -- conditions ---------------------------------------------------------
    def cond(self, c, env):
        F = self.fname
        if isinstance(c, ast.BoolOp):
            # e.is_integer and e.is_even / is_odd
            if isinstance(c.op, ast.And) and len(c.values) == 2 and all(
                    isinstance(v, ast.Attribute) for v in c.values) and c.values[0].attr == 'is_integer':
                a, b = c.values
                if ast.unparse(a.value) != ast.unparse(b.value) or b.attr not in ('is_even', 'is_odd'):
                    fail(c, 'unsupported integrality test', F)
                return ('iseven' if b.attr == 'is_even' else 'isodd', self.expr(a.value, env))
            op = 'and' if isinstance(c.op, ast.And) else 'or'
            r = self.cond(c.values[0], env)
            for v in c.values[1:]:
                r = (op, r, self.cond(v, env))
            return r
        if isinstance(c, ast.Compare):
            if len(c.ops) != 1:
                fail(c, 'chained comparison', F)
            o = type(c.ops[0])
            rhs = c.comparators[0]
            # x == np.round(x): x is an integer
            if o is ast.Eq and isinstance(rhs, ast.Call) and ast.unparse(rhs.func) == 'np.round' and len(rhs.args) == 1 \
                    and not rhs.keywords and ast.unparse(rhs.args[0]) == ast.unparse(c.left):
                return ('isint', self.expr(c.left, env))
            # e % 2 == 0: e is an even integer
            if o is ast.Eq and isinstance(c.left, ast.BinOp) and isinstance(c.left.op, ast.Mod) \
                    and isinstance(c.left.right, ast.Constant) and c.left.right.value == 2 \
                    and isinstance(rhs, ast.Constant) and rhs.value == 0:
                return ('iseven', self.expr(c.left.left, env))
            a = self.expr(c.left, env)
            b = self.expr(rhs, env)
            if o is ast.Lt:
                return ('lt', a, b)
            if o is ast.LtE:
                return ('le', a, b)
            if o is ast.Gt:
                return ('lt', b, a)
            if o is ast.GtE:
                return ('le', b, a)
            if o is ast.Eq:
                return ('eq', a, b)
            fail(c, 'unsupported comparison', F)
        if self.side == 'sym':
            if isinstance(c, ast.Attribute):
                a = self.expr(c.value, env)
                if c.attr == 'is_zero':
                    return ('eq', a, ('q', Fraction(0)))
                if c.attr == 'is_nonnegative':
                    return ('le', ('q', Fraction(0)), a)
                if c.attr == 'is_negative':
                    return ('lt', a, ('q', Fraction(0)))
                fail(c, 'unsupported sympy predicate', F)
            if isinstance(c, ast.Call) and isinstance(c.func, ast.Name) and c.func.id == 'fuzzy_not' \
                    and len(c.args) == 1:
                return ('not', self.cond(c.args[0], env))
        fail(c, 'unsupported condition', F)

    # -- statements ---------------------------------------------------------
    def block(self, stmts, env):
        F = self.fname
        if not stmts:
            return ('fall',)
        st, rest = stmts[0], stmts[1:]
        if is_doc(st):
            return self.block(rest, env)
        if isinstance(st, ast.Return):
            if st.value is None:
                fail(st, 'bare return', F)
            return ('ret', self.expr(st.value, env))
        if isinstance(st, ast.Assign):
            if len(st.targets) != 1 or not isinstance(st.targets[0], ast.Name):
                fail(st, 'unsupported assignment', F)
            nm = st.targets[0].id
            return ('let', nm, self.expr(st.value, env), self.block(rest, env | {nm}))
        if isinstance(st, ast.If):
            t = st.test
            # `if zero is None: zero = X`
            if isinstance(t, ast.Compare) and len(t.ops) == 1 and isinstance(t.ops[0], ast.Is) \
                    and isinstance(t.comparators[0], ast.Constant) and t.comparators[0].value is None:
                if not (isinstance(t.left, ast.Name) and t.left.id in env and len(st.body) == 1 and not st.orelse
                        and isinstance(st.body[0], ast.Assign) and len(st.body[0].targets) == 1
                        and isinstance(st.body[0].targets[0], ast.Name) and st.body[0].targets[0].id == t.left.id):
                    fail(st, 'unsupported `is None` idiom', F)
                nm = t.left.id
                return ('let', nm, ('dflt', nm, self.expr(st.body[0].value, env - {nm})), self.block(rest, env))
            c = self.cond(t, env)
            return ('if', c, self.block(list(st.body) + rest, env), self.block(list(st.orelse) + rest, env))
        fail(st, 'unsupported statement', F)


def params_of(fn, fname, skip=0):
    a = fn.args
    if a.vararg or a.kwarg or a.kwonlyargs or a.posonlyargs:
        fail(fn, 'unsupported signature', fname)
    names = [x.arg for x in a.args][skip:]
    ndef = len(a.defaults)
    opt = []
    for nm, d in zip(names[len(names) - ndef:] if ndef else [], a.defaults):
        if not (isinstance(d, ast.Constant) and d.value is None):
            fail(fn, 'unsupported default', fname)
        opt.append(nm)
    return names, opt


class NumFuncs:
    """everything C17 needs from the source text"""

    def __init__(self, repo):
        self.repo = repo
        self.files = {}
        self.num = {}      # name -> dict(params, opt, tree, line)
        self.sym = {}      # class -> dict(eval=..., rewrite=...)
        self.cfg = {}
        self.table = {}    # lambdify key -> numeric function name
        self.causal = None
        self.structure = None
        self.load_config()
        self.load_expr()
        self.load_extra()
        self.load_acdc()

    def read(self, rel):
        import warnings
        p = os.path.join(self.repo, rel)
        src = open(p).read()
        self.files[rel] = hashlib.sha256(src.encode()).hexdigest()
        with warnings.catch_warnings():
            warnings.simplefilter('ignore')
            return ast.parse(src)

    # -- config.py ----------------------------------------------------------
    def load_config(self):
        F = 'lcapy/config.py'
        tree = self.read(F)
        for st in tree.body:
            if isinstance(st, ast.Assign) and len(st.targets) == 1 and isinstance(st.targets[0], ast.Name) \
                    and st.targets[0].id in ('heaviside_zero', 'unitstep_zero'):
                if not isinstance(st.value, ast.Constant):
                    fail(st, 'configuration value is not a literal', F)
                self.cfg[st.targets[0].id] = Lower(F, 'num', [], []).const(st.value)[1]
        for k in ('heaviside_zero', 'unitstep_zero'):
            if k not in self.cfg:
                raise Untranslatable('%s: %s not defined' % (F, k))

    # -- expr.py ------------------------------------------------------------
    def load_expr(self):
        F = 'lcapy/expr.py'
        tree = self.read(F)
        imp = [ast.unparse(st) for st in tree.body if isinstance(st, ast.ImportFrom) and st.module == 'config']
        if not any('heaviside_zero' in s and 'unitstep_zero' in s for s in imp):
            raise Untranslatable('%s: heaviside_zero/unitstep_zero are not imported from .config' % F)
        cls = [n for n in tree.body if isinstance(n, ast.ClassDef) and n.name == 'Expr']
        if len(cls) != 1:
            raise Untranslatable('%s: class Expr not found' % F)
        ev = [n for n in cls[0].body if isinstance(n, ast.FunctionDef) and n.name == 'evaluate']
        if len(ev) != 1:
            raise Untranslatable('%s: Expr.evaluate not found' % F)
        ev = ev[0]
        self.evaluate_line = ev.lineno
        ee = [n for n in ev.body if isinstance(n, ast.FunctionDef)]
        if [n.name for n in ee] != ['evaluate_expr']:
            fail(ev, 'unexpected nested definitions in evaluate', F)
        ee = ee[0]
        if [a.arg for a in ee.args.args] != ['expr', 'var', 'arg']:
            fail(ee, 'unexpected signature of evaluate_expr', F)
        # is_causal as computed at the top of evaluate
        pre = [ast.unparse(st) for st in ev.body if isinstance(st, ast.Assign)]
        want = ['is_time = self.is_time_domain or self.is_discrete_time_domain', 'is_causal = is_time and self.is_causal']
        for wnt in want:
            if wnt not in pre:
                raise Untranslatable('%s:%d: expected `%s` in evaluate' % (F, ev.lineno, wnt))
        nested = [n for n in ee.body if isinstance(n, ast.FunctionDef)]
        names = [n.name for n in nested]
        expected = set(NUM_TRANSLATED + NUM_OPAQUE + ['func'])
        if set(names) != expected or len(names) != len(set(names)):
            raise Untranslatable('%s:%d: nested numeric definitions changed: unexpected %s, missing %s' % (
                F, ee.lineno, sorted(set(names) - expected), sorted(expected - set(names))))
        low = Lower(F, 'num', NUM_TRANSLATED, list(self.cfg))
        for n in nested:
            if n.name in NUM_TRANSLATED:
                ps, opt = params_of(n, F)
                self.num[n.name] = {'params': ps, 'opt': opt, 'tree': low.block(list(n.body), set(ps)), 'line': n.lineno}
        # lambdify table
        lam = None
        for st in ee.body:
            if isinstance(st, ast.Assign) and isinstance(st.value, ast.Call) and ast.unparse(st.value.func) == 'lambdify':
                lam = st
        if lam is None or ast.unparse(lam.targets[0]) != 'func1':
            raise Untranslatable('%s: lambdify call not found in evaluate_expr' % F)
        la = lam.value.args
        if len(la) != 3 or ast.unparse(la[0]) != 'var' or ast.unparse(la[1]) != 'expr' or not isinstance(la[2], ast.List) \
                or not isinstance(la[2].elts[0], ast.Dict):
            fail(lam, 'unexpected lambdify arguments', F)
        mods = [ast.unparse(x) for x in la[2].elts[1:]]
        if mods != ["'scipy'", "'numpy'", "'math'", "'sympy'"]:
            fail(lam, 'unexpected lambdify module list', F)
        for k, v in zip(la[2].elts[0].keys, la[2].elts[0].values):
            if not (isinstance(k, ast.Constant) and isinstance(k.value, str) and isinstance(v, ast.Name)):
                fail(lam, 'unexpected lambdify table entry', F)
            if v.id not in NUM_TRANSLATED + NUM_OPAQUE:
                fail(lam, 'lambdify table names an unknown definition %s' % v.id, F)
            self.table[k.value] = v.id
        self.lambdify_line = lam.lineno
        # func: causal short-circuit
        fn = [n for n in nested if n.name == 'func'][0]
        body = [st for st in fn.body if not is_doc(st)]
        if [a.arg for a in fn.args.args] != ['arg']:
            fail(fn, 'unexpected signature of func', F)
        g = body[0]
        if not (isinstance(g, ast.If) and not g.orelse and len(g.body) == 1 and isinstance(g.body[0], ast.Return)):
            fail(g, 'unexpected first statement of func (causal short-circuit)', F)
        t = g.test
        if not (isinstance(t, ast.BoolOp) and isinstance(t.op, ast.And) and len(t.values) == 2
                and isinstance(t.values[0], ast.Name) and t.values[0].id == 'is_causal'):
            fail(g, 'unexpected causal guard', F)
        gl = Lower(F, 'num', [], [])
        self.causal = {'cond': gl.cond(t.values[1], {'arg'}), 'value': gl.expr(g.body[0].value, {'arg'}), 'line': g.lineno}
        rest = [ast.unparse(st) for st in body[1:]]
        want_rest = [
            'try:\n    result = func1(arg)\nexcept ZeroDivisionError:\n    expr_limit = expr.limit(var, arg)\n    result = complex(expr_limit)',
            'if np.isnan(result):\n    result = complex(expr.limit(var, arg))',
            'if np.isinf(result):\n    result = complex(sym.simplify(expr).limit(var, arg))',
            'return result']
        if rest != want_rest:
            raise Untranslatable('%s:%d: body of func after the causal guard changed:\n%s' % (F, fn.lineno, '\n'.join(rest)))
        # scalar / list structure of evaluate_expr after `func`
        idx = ee.body.index(fn)
        tail = [st for st in ee.body[idx + 1:]]
        head = [st for st in ee.body[:idx] if not isinstance(st, ast.FunctionDef) and not is_doc(st) and st is not lam]
        if len(head) != 1 or ast.unparse(head[0]) != 'try:\n    arg0 = arg[0]\n    scalar = False\nexcept:\n    arg0 = arg\n    scalar = True':
            raise Untranslatable('%s:%d: scalar/vector detection in evaluate_expr changed' % (F, ee.lineno))
        prog = []
        if len(tail) != 5:
            raise Untranslatable('%s:%d: tail of evaluate_expr changed (%d statements)' % (F, ee.lineno, len(tail)))
        t0 = tail[0]
        if not (isinstance(t0, ast.Try) and len(t0.body) == 1 and ast.unparse(t0.body[0]) == 'response = func(arg0)'
                and all(len(h.body) >= 1 and isinstance(h.body[-1], ast.Raise) for h in t0.handlers)
                and not t0.orelse and not t0.finalbody):
            fail(t0, 'first evaluation `response = func(arg0)` changed', F)
        prog.append('PFirst')
        t1 = tail[1]
        if ast.unparse(t1) != 'if scalar:\n    if np.allclose(response.imag, 0.0):\n        response = response.real\n    return response':
            fail(t1, 'scalar return changed', F)
        prog.append('PScalarRet')
        t2 = tail[2]
        if not (isinstance(t2, ast.Try) and len(t2.body) == 1
                and ast.unparse(t2.body[0]) == 'response = np.array([complex(func(arg0)) for arg0 in arg])'
                and all(isinstance(h.body[-1], ast.Raise) for h in t2.handlers)):
            fail(t2, 'list evaluation is not the comprehension over `arg`', F)
        prog.append('PMapAll')
        if ast.unparse(tail[3]) != 'if np.allclose(response.imag, 0.0):\n    response = response.real' \
                or ast.unparse(tail[4]) != 'return response':
            fail(tail[3], 'vector return changed', F)
        prog.append('PVectorRet')
        self.structure = prog
        # the final dispatch of evaluate: evaluate_expr(expr, var, arg), retried on the simplified expression
        last = ev.body[-1]
        ok_last = ['try:\n    return evaluate_expr(expr, var, arg)\nexcept:\n    return evaluate_expr(expr.simplify(), var, arg)',
                   # variant that refuses to simplify away a Piecewise without an otherwise-clause
                   'try:\n    return evaluate_expr(expr, var, arg)\nexcept:\n    if expr.is_Piecewise and expr.args[-1][1] != True:\n        raise\n'
                   '    return evaluate_expr(expr.simplify(), var, arg)']
        if ast.unparse(last) not in ok_last:
            fail(last, 'final dispatch of evaluate changed', F)

    # -- extrafunctions.py ---------------------------------------------------
    def load_extra(self):
        F = 'lcapy/extrafunctions.py'
        tree = self.read(F)
        classes = [n for n in tree.body if isinstance(n, ast.ClassDef)]
        names = [c.name for c in classes]
        if set(names) != set(SYM_CLASSES + SYM_IGNORED):
            raise Untranslatable('%s: function classes changed: unexpected %s, missing %s' % (
                F, sorted(set(names) - set(SYM_CLASSES + SYM_IGNORED)), sorted(set(SYM_CLASSES + SYM_IGNORED) - set(names))))
        imp = [ast.unparse(st) for st in tree.body if isinstance(st, ast.ImportFrom) and st.module == 'config']
        if not any('unitstep_zero' in s for s in imp):
            raise Untranslatable('%s: unitstep_zero is not imported from .config' % F)
        low = Lower(F, 'sym', SYM_CLASSES, ['unitstep_zero'])
        for c in classes:
            if c.name in SYM_IGNORED:
                continue
            if [ast.unparse(b) for b in c.bases] != ['sym.Function']:
                fail(c, 'unexpected base class', F)
            d = {'line': c.lineno}
            for m in c.body:
                if is_doc(m):
                    continue
                if isinstance(m, ast.Assign) and ast.unparse(m) == 'is_integer = True':
                    continue
                if not isinstance(m, ast.FunctionDef):
                    fail(m, 'unexpected class member', F)
                if m.name == 'eval':
                    if [ast.unparse(x) for x in m.decorator_list] != ['classmethod']:
                        fail(m, 'eval is not a classmethod', F)
                    ps, opt = params_of(m, F, skip=1)
                    body = [st for st in m.body if not is_doc(st)]
                    # outer Number guard
                    guarded = False
                    if len(body) == 1 and isinstance(body[0], ast.If) and not body[0].orelse:
                        t = ast.unparse(body[0].test)
                        pats = ['%s.is_Number' % ps[0]]
                        if len(ps) == 2:
                            pats.append('%s.is_Number and %s.is_number' % (ps[0], ps[1]))
                        if len(ps) == 2:
                            pats.append('%s.is_Number' % ps[1])
                        if t in pats:
                            guarded = True
                            body = list(body[0].body)
                    d['eval'] = {'params': ps, 'opt': opt, 'tree': low.block(body, set(ps)), 'guarded': guarded, 'line': m.lineno}
                elif m.name == 'rewrite':
                    if ast.unparse(m.args) != 'self, *args, **hints':
                        fail(m, 'unexpected signature of rewrite', F)
                    body = [st for st in m.body if not is_doc(st)]
                    env = []
                    argmap = {}
                    k = 0
                    while k < len(body) and isinstance(body[k], ast.Assign):
                        st = body[k]
                        v = st.value
                        if isinstance(v, ast.Subscript) and ast.unparse(v.value) == 'self.args' and isinstance(v.slice, ast.Constant):
                            argmap[st.targets[0].id] = ('arg', v.slice.value)
                            k += 1
                        elif isinstance(v, ast.BinOp) and ast.unparse(v.left) == 'sym.pi' and isinstance(v.op, ast.Mult) \
                                and isinstance(v.right, ast.Subscript) and ast.unparse(v.right.value) == 'self.args':
                            argmap[st.targets[0].id] = ('piarg', v.right.slice.value)
                            k += 1
                        else:
                            break
                    d['rewrite'] = {'argmap': argmap, 'tree': low.block(body[k:], set(argmap)), 'line': m.lineno}
                else:
                    fail(m, 'unexpected method', F)
            if 'eval' not in d:
                fail(c, 'class without eval', F)
            self.sym[c.name] = d
        # every Lcapy function class must be routed to a numeric definition by name
        for c in SYM_CLASSES:
            if c not in self.table:
                raise Untranslatable('lcapy/expr.py:%d: lambdify table has no entry for %s' % (self.lambdify_line, c))
        for c in SYMPY_BUILTIN:
            if c not in self.table:
                raise Untranslatable('lcapy/expr.py:%d: lambdify table has no entry for %s' % (self.lambdify_line, c))

    # -- acdc.py ------------------------------------------------------------
    def load_acdc(self):
        F = 'lcapy/acdc.py'
        tree = self.read(F)
        cc = [n for n in tree.body if isinstance(n, ast.ClassDef) and n.name == 'CausalChecker']
        if len(cc) != 1:
            raise Untranslatable('%s: CausalChecker not found' % F)
        hf = [n for n in cc[0].body if isinstance(n, ast.FunctionDef) and n.name == '_has_causal_factor']
        if len(hf) != 1:
            raise Untranslatable('%s: _has_causal_factor not found' % F)
        hf = hf[0]
        loop = [st for st in hf.body if isinstance(st, ast.For)]
        if len(loop) != 1:
            fail(hf, 'unexpected structure', F)
        body = loop[0].body
        src = [ast.unparse(st) for st in body]
        # which functions count
        funs = None
        for st in body:
            if isinstance(st, ast.If) and 'factor.func not in' in ast.unparse(st.test):
                cmp_ = st.test.values[1]
                funs = [ast.unparse(x) for x in cmp_.comparators[0].elts]
                if ast.unparse(st.test.values[0]) != 'not factor.is_Function' or ast.unparse(st.body[0]) != 'continue':
                    fail(st, 'unexpected function filter', F)
        if funs is None:
            fail(hf, 'function filter not found', F)
        known = {'sym.Heaviside': 'Heaviside', 'sym.DiracDelta': 'DiracDelta', 'UnitImpulse': 'UnitImpulse', 'UnitStep': 'UnitStep'}
        for f_ in funs:
            if f_ not in known:
                fail(hf, 'function %s is not known to vanish for negative arguments' % f_, F)
        self.causal_funs = [known[f_] for f_ in funs]
        if 'if factor.args[0] == self.var:\n    return True' not in src:
            fail(hf, 'direct-argument rule changed', F)
        for wnt in ('p = sym.Poly(factor.args[0], self.var)', 'coeffs = p.all_coeffs()',
                    'if len(coeffs) != 2:\n    return False', 'a, b = coeffs'):
            if wnt not in src:
                fail(hf, 'expected `%s`' % wnt.split('\n')[0], F)
        last = body[-1]
        if not (isinstance(last, ast.If) and not last.orelse and ast.unparse(last.body[0]) == 'return True'):
            fail(last, 'unexpected affine-argument rule', F)
        self.causal_arg = self.sign_cond(last.test, F)
        self.causal_arg_line = last.lineno
        # _is_causal: every expanded term must have a causal factor
        ic = [n for n in cc[0].body if isinstance(n, ast.FunctionDef) and n.name == '_is_causal'][0]
        want = ['terms = expr.expand().as_ordered_terms()',
                'for term in terms:\n    if not self._has_causal_factor(term):\n        return False', 'return True']
        if [ast.unparse(st) for st in ic.body] != want:
            fail(ic, '_is_causal changed', F)

    def sign_cond(self, c, F):
        """a.is_positive and (b.is_negative or b.is_zero) -> condition IR over vars a, b"""
        if isinstance(c, ast.BoolOp):
            op = 'and' if isinstance(c.op, ast.And) else 'or'
            r = self.sign_cond(c.values[0], F)
            for v in c.values[1:]:
                r = (op, r, self.sign_cond(v, F))
            return r
        if isinstance(c, ast.Attribute) and isinstance(c.value, ast.Name) and c.value.id in ('a', 'b'):
            v = ('var', c.value.id)
            z = ('q', Fraction(0))
            tab = {'is_positive': ('lt', z, v), 'is_negative': ('lt', v, z), 'is_zero': ('eq', v, z),
                   'is_nonnegative': ('le', z, v), 'is_nonpositive': ('le', v, z)}
            if c.attr in tab:
                return tab[c.attr]
        fail(c, 'unsupported sign test', F)


# ---------------------------------------------------------------------------
# IR utilities
def uses(tree, tags):
    """does the IR mention any node with a tag in `tags`"""
    if isinstance(tree, tuple):
        if tree and tree[0] in tags:
            return True
        return any(uses(x, tags) for x in tree[1:])
    if isinstance(tree, list):
        return any(uses(x, tags) for x in tree)
    return False


def calls_in(tree, acc=None):
    acc = set() if acc is None else acc
    if isinstance(tree, tuple):
        if tree and tree[0] == 'call':
            acc.add(tree[1])
        for x in tree[1:]:
            calls_in(x, acc)
    elif isinstance(tree, list):
        for x in tree:
            calls_in(x, acc)
    return acc


if __name__ == '__main__':
    import pprint
    import sys
    nf = NumFuncs(sys.argv[1] if len(sys.argv) > 1 else '/repo')
    pprint.pprint(nf.num)
    pprint.pprint(nf.sym)
    pprint.pprint((nf.cfg, nf.table, nf.causal, nf.structure, nf.causal_funs, nf.causal_arg))


# ---------------------------------------------------------------------------
# Coq emission
def qlit(fr):
    fr = Fraction(fr)
    return '(Qmake (%d) %d)' % (fr.numerator, fr.denominator)


class Emit:
    """emits Gen/NumFuncsGen.v from a NumFuncs object"""

    def __init__(self, nf):
        self.nf = nf
        self.funs = {}     # coq name -> dict(side, key, params[(name, kind)], tree, domain, rtype)
        self.order = []
        self.collect()
        self.domains()
        self.toposort()
        self.types()

    def collect(self):
        nf = self.nf
        for nm, d in nf.num.items():
            self.funs['num_' + nm] = {'side': 'num', 'key': nm, 'params': [(p, 'opt' if p in d['opt'] else 'val') for p in d['params']],
                                      'tree': d['tree'], 'line': d['line'], 'src': 'lcapy/expr.py'}
        for cn, d in nf.sym.items():
            e = d['eval']
            self.funs['sym_' + cn] = {'side': 'sym', 'key': cn, 'params': [(p, 'opt' if p in e['opt'] else 'val') for p in e['params']],
                                      'tree': e['tree'], 'line': e['line'], 'src': 'lcapy/extrafunctions.py'}
            if 'rewrite' in d:
                r = d['rewrite']
                idx = sorted(set(v[1] for v in r['argmap'].values()))
                if idx != list(range(len(idx))):
                    raise Untranslatable('lcapy/extrafunctions.py:%d: unexpected argument indices in rewrite' % r['line'])
                tree = r['tree']
                for nm, (kind, i) in reversed(list(r['argmap'].items())):
                    v = ('var', 'a%d' % i)
                    tree = ('let', nm, v if kind == 'arg' else ('mul', ('pi',), v), tree)
                self.funs['rw_' + cn] = {'side': 'sym', 'key': cn, 'params': [('a%d' % i, 'val') for i in idx],
                                         'tree': tree, 'line': r['line'], 'src': 'lcapy/extrafunctions.py'}

    def target(self, side, name):
        if name == 'sympy_Heaviside':
            return None
        return ('num_' if side == 'num' else 'sym_') + name

    def domains(self):
        # K (abstract field with sn, pi, int_of) when the body needs them, Q otherwise
        dom = {}
        for nm, f in self.funs.items():
            dom[nm] = 'K' if uses(f['tree'], ('sin', 'pi', 'isint', 'iseven', 'isodd')) else 'Q'
        changed = True
        while changed:
            changed = False
            for nm, f in self.funs.items():
                for c in calls_in(f['tree']):
                    t = self.target(f['side'], c)
                    if t and dom.get(t) == 'K' and dom[nm] != 'K':
                        dom[nm] = 'K'
                        changed = True
        for nm, f in self.funs.items():
            f['domain'] = dom[nm]
            for c in calls_in(f['tree']):
                t = self.target(f['side'], c)
                if t is None:
                    if dom[nm] == 'K':
                        raise Untranslatable('%s:%d: sinc-family definition calls Heaviside' % (f['src'], f['line']))
                    continue
                if t not in self.funs:
                    raise Untranslatable('%s:%d: call of unknown definition %s' % (f['src'], f['line'], c))
                if dom[t] != dom[nm]:
                    raise Untranslatable('%s:%d: %s mixes the piecewise-linear and the sinc family' % (f['src'], f['line'], nm))

    def toposort(self):
        seen = {}

        def visit(nm, stack):
            if seen.get(nm) == 2:
                return
            if seen.get(nm) == 1:
                raise Untranslatable('recursive definition: %s' % ' -> '.join(stack + [nm]))
            seen[nm] = 1
            f = self.funs[nm]
            for c in sorted(calls_in(f['tree'])):
                t = self.target(f['side'], c)
                if t:
                    visit(t, stack + [nm])
            seen[nm] = 2
            self.order.append(nm)
        for nm in self.funs:
            visit(nm, [])

    def types(self):
        # result type of Q-domain functions: 'Q' or 'OQ'
        for nm in self.order:
            f = self.funs[nm]
            if f['domain'] == 'K':
                if uses(f['tree'], ('inf', 'fall')):
                    raise Untranslatable('%s:%d: sinc-family definition %s may not return a value' % (f['src'], f['line'], nm))
                f['rtype'] = 'K'
                continue
            o = uses(f['tree'], ('inf', 'fall'))
            for c in calls_in(f['tree']):
                t = self.target(f['side'], c)
                if t and self.funs[t]['rtype'] == 'OQ':
                    o = True
            f['rtype'] = 'OQ' if o else 'Q'

    # -- Q domain -------------------------------------------------------------
    def qexpr(self, f, e, env):
        """returns (text, 'Q'|'OQ')"""
        t = e[0]
        if t == 'var':
            if env.get(e[1]) == 'opt':
                raise Untranslatable('%s:%d: optional parameter %s used before its default is resolved' % (f['src'], f['line'], e[1]))
            return 'p_' + e[1], env[e[1]]
        if t == 'q':
            return qlit(e[1]), 'Q'
        if t == 'cfg':
            return 'cfg_' + e[1], 'Q'
        if t == 'inf':
            return 'None', 'OQ'
        if t == 'dflt':
            d, dt = self.qexpr(f, e[2], env)
            if dt != 'Q' or env.get(e[1]) != 'opt':
                raise Untranslatable('%s:%d: unsupported default' % (f['src'], f['line']))
            return '(odflt p_%s %s)' % (e[1], d), 'Q'
        if t in ('add', 'sub', 'mul', 'div'):
            a, ta = self.qexpr(f, e[1], env)
            b, tb = self.qexpr(f, e[2], env)
            if ta == 'Q' and tb == 'Q':
                return '(%s %s %s)' % (a, {'add': '+', 'sub': '-', 'mul': '*', 'div': '/'}[t], b), 'Q'
            return '(o%s %s %s)' % (t, self.lift(a, ta), self.lift(b, tb)), 'OQ'
        if t == 'neg':
            a, ta = self.qexpr(f, e[1], env)
            return ('(- %s)' % a, 'Q') if ta == 'Q' else ('(oneg %s)' % a, 'OQ')
        if t == 'abs':
            a, ta = self.qexpr(f, e[1], env)
            return ('(Qabs %s)' % a, 'Q') if ta == 'Q' else ('(oabs %s)' % a, 'OQ')
        if t == 'ite':
            c = self.qcond(f, e[1], env)
            a, ta = self.qexpr(f, e[2], env)
            b, tb = self.qexpr(f, e[3], env)
            ty = 'Q' if ta == tb == 'Q' else 'OQ'
            if ty == 'OQ':
                a, b = self.lift(a, ta), self.lift(b, tb)
            return '(if %s then %s else %s)' % (c, a, b), ty
        if t == 'call':
            if e[1] == 'sympy_Heaviside':
                a, ta = self.qexpr(f, e[2][0], env)
                if ta != 'Q':
                    raise Untranslatable('%s:%d: undefined argument' % (f['src'], f['line']))
                return '(spec_Heaviside %s)' % a, 'Q'
            tn = self.target(f['side'], e[1])
            g = self.funs[tn]
            if len(e[2]) > len(g['params']) or len(e[2]) < len([p for p in g['params'] if p[1] == 'val']):
                raise Untranslatable('%s:%d: wrong number of arguments for %s' % (f['src'], f['line'], e[1]))
            args = []
            for i, (pn, pk) in enumerate(g['params']):
                if i < len(e[2]):
                    a, ta = self.qexpr(f, e[2][i], env)
                    if ta != 'Q':
                        raise Untranslatable('%s:%d: undefined argument' % (f['src'], f['line']))
                    args.append('(Some %s)' % a if pk == 'opt' else a)
                else:
                    args.append('None')
            return '(%s %s)' % (tn, ' '.join(args)), g['rtype']
        raise Untranslatable('%s:%d: %s not allowed in a piecewise-linear definition' % (f['src'], f['line'], t))

    def lift(self, a, ta):
        return a if ta == 'OQ' else '(Some %s)' % a

    def qcond(self, f, c, env):
        t = c[0]
        if t in ('lt', 'le', 'eq'):
            a, ta = self.qexpr(f, c[1], env)
            b, tb = self.qexpr(f, c[2], env)
            if ta != 'Q' or tb != 'Q':
                raise Untranslatable('%s:%d: comparison of a possibly undefined value' % (f['src'], f['line']))
            return '(q%s %s %s)' % (t, a, b)
        if t in ('or', 'and'):
            return '(%sb %s %s)' % (t, self.qcond(f, c[1], env), self.qcond(f, c[2], env))
        if t == 'not':
            return '(negb %s)' % self.qcond(f, c[1], env)
        raise Untranslatable('%s:%d: condition %s not allowed in a piecewise-linear definition' % (f['src'], f['line'], t))

    def qtree(self, f, tr, env, ind):
        t = tr[0]
        pad = '  ' * ind
        if t == 'ret':
            a, ta = self.qexpr(f, tr[1], env)
            if f['rtype'] == 'OQ':
                a = self.lift(a, ta)
            elif ta != 'Q':
                raise Untranslatable('%s:%d: internal: result type' % (f['src'], f['line']))
            return pad + a
        if t == 'fall':
            return pad + 'None'
        if t == 'let':
            a, ta = self.qexpr(f, tr[2], env)
            env2 = dict(env)
            env2[tr[1]] = ta
            return pad + 'let p_%s := %s in\n' % (tr[1], a) + self.qtree(f, tr[3], env2, ind)
        if t == 'if':
            return (pad + 'if %s then\n' % self.qcond(f, tr[1], env) + self.qtree(f, tr[2], env, ind + 1) + '\n' +
                    pad + 'else\n' + self.qtree(f, tr[3], env, ind + 1))
        raise Untranslatable('internal: statement %s' % t)

    # -- K domain -------------------------------------------------------------
    def kexpr(self, f, e, env):
        t = e[0]
        if t == 'var':
            return 'p_' + e[1]
        if t == 'q':
            fr = e[1]
            if fr.denominator == 1:
                return '(kz K (%d))' % fr.numerator
            return '(fdiv (kz K (%d)) (kz K (%d)))' % (fr.numerator, fr.denominator)
        if t == 'pi':
            return 'pi'
        if t == 'sin':
            return '(sn %s)' % self.kexpr(f, e[1], env)
        if t in ('add', 'sub', 'mul', 'div'):
            return '(f%s %s %s)' % (t, self.kexpr(f, e[1], env), self.kexpr(f, e[2], env))
        if t == 'neg':
            return '(fopp %s)' % self.kexpr(f, e[1], env)
        if t == 'ite':
            return '(if %s then %s else %s)' % (self.kcond(f, e[1], env), self.kexpr(f, e[2], env), self.kexpr(f, e[3], env))
        if t == 'call':
            tn = self.target(f['side'], e[1])
            g = self.funs[tn]
            if len(e[2]) != len(g['params']):
                raise Untranslatable('%s:%d: wrong number of arguments for %s' % (f['src'], f['line'], e[1]))
            return '(%s K sn pi int_of %s)' % (tn, ' '.join(self.kexpr(f, a, env) for a in e[2]))
        raise Untranslatable('%s:%d: %s not allowed in a sinc-family definition' % (f['src'], f['line'], t))

    def kcond(self, f, c, env):
        t = c[0]
        if t == 'eq':
            return '(keqb K %s %s)' % (self.kexpr(f, c[1], env), self.kexpr(f, c[2], env))
        if t in ('iseven', 'isodd', 'isint'):
            return '(k_%s (int_of %s))' % (t, self.kexpr(f, c[1], env))
        if t in ('or', 'and'):
            return '(%sb %s %s)' % (t, self.kcond(f, c[1], env), self.kcond(f, c[2], env))
        if t == 'not':
            return '(negb %s)' % self.kcond(f, c[1], env)
        raise Untranslatable('%s:%d: ordered comparison in a sinc-family definition' % (f['src'], f['line']))

    def ktree(self, f, tr, env, ind):
        t = tr[0]
        pad = '  ' * ind
        if t == 'ret':
            return pad + self.kexpr(f, tr[1], env)
        if t == 'let':
            return pad + 'let p_%s := %s in\n' % (tr[1], self.kexpr(f, tr[2], env)) + self.ktree(f, tr[3], env, ind)
        if t == 'if':
            return (pad + 'if %s then\n' % self.kcond(f, tr[1], env) + self.ktree(f, tr[2], env, ind + 1) + '\n' +
                    pad + 'else\n' + self.ktree(f, tr[3], env, ind + 1))
        raise Untranslatable('internal: statement %s' % t)

    # -- file -----------------------------------------------------------------
    def text(self):
        nf = self.nf
        out = ['(* GENERATED by tools/tr_numfuncs.py from %s.\n   Do not edit: regenerated from the working tree on every run. *)' %
               ', '.join('%s (sha256 %s)' % (k, v[:12]) for k, v in sorted(nf.files.items())),
               'From Coq Require Import QArith Qabs Bool List ZArith.',
               'Require Import LT.FieldSec LT.NumEval.', 'Import ListNotations.', 'Open Scope Q_scope.', '']
        for k, v in sorted(nf.cfg.items()):
            out.append('(* lcapy/config.py *)\nDefinition cfg_%s : Q := %s.' % (k, qlit(v)))
        out.append('')
        qn, kn = [], []
        for nm in self.order:
            f = self.funs[nm]
            if f['domain'] != 'Q':
                continue
            ps = ' '.join('(p_%s : %s)' % (p, 'option Q' if k == 'opt' else 'Q') for p, k in f['params'])
            env = {p: ('opt' if k == 'opt' else 'Q') for p, k in f['params']}
            out.append('(* %s:%d *)' % (f['src'], f['line']))
            out.append('Definition %s %s : %s :=\n%s.\n' % (nm, ps, 'option Q' if f['rtype'] == 'OQ' else 'Q',
                                                         self.qtree(f, f['tree'], env, 1)))
            qn.append(nm)
        out.append('(* sinc family: abstract field K, abstract sine sn, constant pi, integrality oracle int_of *)')
        for nm in self.order:
            f = self.funs[nm]
            if f['domain'] != 'K':
                continue
            if any(k == 'opt' for _, k in f['params']):
                raise Untranslatable('%s:%d: optional parameter in a sinc-family definition' % (f['src'], f['line']))
            ps = ' '.join('(p_%s : K)' % p for p, k in f['params'])
            out.append('(* %s:%d *)' % (f['src'], f['line']))
            out.append('Definition %s (K : fld) (sn : K -> K) (pi : K) (int_of : K -> option Z) %s : K :=\n%s.\n' % (nm, ps, self.ktree(f, f['tree'], {}, 1)))
            kn.append(nm)
        # causal short-circuit of `func`
        cz = nf.causal
        fz = {'src': 'lcapy/expr.py', 'line': cz['line'], 'side': 'num', 'rtype': 'Q'}
        out.append('(* lcapy/expr.py:%d  `if is_causal and arg < 0: return 0` *)' % cz['line'])
        out.append('Definition causal_guard (is_causal : bool) (p_arg : Q) : bool := andb is_causal %s.' % self.qcond(fz, cz['cond'], {'arg': 'Q'}))
        v, tv = self.qexpr(fz, cz['value'], {'arg': 'Q'})
        if tv != 'Q':
            raise Untranslatable('lcapy/expr.py:%d: causal value' % cz['line'])
        out.append('Definition causal_value : Q := %s.\n' % v)
        out.append('(* statement structure of evaluate_expr *)')
        out.append('Definition evaluate_expr_prog : list pstep := [%s].\n' % '; '.join(nf.structure))
        fa = {'src': 'lcapy/acdc.py', 'line': nf.causal_arg_line, 'side': 'num', 'rtype': 'Q'}
        out.append('(* lcapy/acdc.py:%d  CausalChecker: f(a*t + b) counts as a causal factor when *)' % nf.causal_arg_line)
        out.append('Definition causal_arg (p_a p_b : Q) : bool := %s.\n' % self.qcond(fa, nf.causal_arg, {'a': 'Q', 'b': 'Q'}))
        out.append('Ltac gen_unfold := cbv beta iota zeta delta [%s cfg_heaviside_zero cfg_unitstep_zero causal_guard causal_value causal_arg\n'
                   '  spec_Heaviside spec_Heaviside2 spec_sign spec_DiracDelta spec_sinc psinc_int_spec] in *.\n' % ' '.join(qn + kn))
        self.qnames, self.knames = qn, kn
        return '\n'.join(out)


FN1 = [('FHeaviside', 'Heaviside'), ('FDirac', 'DiracDelta'), ('FSign', 'sign'), ('FRect', 'rect'), ('FTri', 'tri'),
       ('FRamp', 'ramp'), ('FRampstep', 'rampstep'), ('FUnitStep', 'UnitStep'), ('FUnitImpulse', 'UnitImpulse'),
       ('FDtrect', 'dtrect'), ('FDtsign', 'dtsign')]
SPEC_SYM = {'Heaviside': ('(spec_Heaviside %s)', 'Q'), 'DiracDelta': ('(spec_DiracDelta %s)', 'OQ'), 'sign': ('(spec_sign %s)', 'Q')}


def _call(em, coqname, args, where):
    """application of a generated Q-domain function to Q-typed argument texts, wrapped to option Q"""
    f = em.funs.get(coqname)
    if f is None:
        raise Untranslatable('%s: no definition %s' % (where, coqname))
    if f['domain'] != 'Q':
        raise Untranslatable('%s: %s belongs to the sinc family but is used for a piecewise-linear function' % (where, coqname))
    ps = f['params']
    nreq = len([p for p in ps if p[1] == 'val'])
    if not (nreq <= len(args) <= len(ps)):
        raise Untranslatable('%s: %s takes %d..%d arguments, %d given' % (where, coqname, nreq, len(ps), len(args)))
    out = []
    for i, (pn, pk) in enumerate(ps):
        if i < len(args):
            out.append('(Some %s)' % args[i] if pk == 'opt' else args[i])
        else:
            out.append('None')
    t = '(%s %s)' % (coqname, ' '.join(out))
    return t if f['rtype'] == 'OQ' else '(Some %s)' % t


def tables_text(em):
    """num_tab follows the lambdify name table of evaluate_expr; sym_tab uses the
    eval bodies of extrafunctions.py and the hand-written SymPy specifications"""
    nf = em.nf
    W = 'lcapy/expr.py:%d (lambdify table)' % nf.lambdify_line

    def num(key, args):
        return _call(em, 'num_' + nf.table[key], args, W)

    def sym(key, args):
        if key in SPEC_SYM and len(args) == 1:
            t, ty = SPEC_SYM[key]
            t = t % args[0]
            return t if ty == 'OQ' else '(Some %s)' % t
        return _call(em, 'sym_' + key, args, 'lcapy/extrafunctions.py')
    out = []
    for nm, fn in (('num_tab', num), ('sym_tab', sym)):
        out.append('Definition %s : tab := MkTab' % nm)
        out.append('  (fun f v => match f with')
        for c, key in FN1:
            out.append('     | %s => %s' % (c, fn(key, ['v'])))
        out.append('     end)')
        out.append('  (fun v al => %s)' % fn('trap', ['v', 'al']))
        if nm == 'num_tab':
            out.append('  (fun v h0 => %s)' % fn('Heaviside', ['v', 'h0']))
        else:
            out.append('  (fun v h0 => (Some (spec_Heaviside2 v h0)))')
        out.append('  (fun v z0 => %s).\n' % fn('UnitStep', ['v', 'z0']))
    return '\n'.join(out)
