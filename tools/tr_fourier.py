"""Fail-closed translator for C12: lcapy/fourier.py (FourierTransformer.term),
lcapy/inverse_fourier.py, the frequency-variable changes of texpr/fexpr/
omegaexpr/normfexpr/normomegaexpr/sexpr, and the skeleton of
BilateralForwardTransformer.doit  ->  an IR that checks/c12.py prints as Coq
terms of the function AST  LT.FourierFn.fn.

Recognised subset (anything else raises Untranslatable):
  * `term` is walked statement by statement.  Glue statements (factor splitting,
    similarity_shift call, loops) must match the texts in GLUE exactly.  Every
    `if`/`elif` test must be one of GUARDS (exact `ast.unparse` text -> pattern
    id).  Assignments whose right-hand side is arithmetic over known names
    (sf, st, c0, c1, s, e, a, b, alpha, foo = args / st ...) are evaluated
    symbolically; `x if self.is_inverse else y` is resolved per direction.
  * every `return` expression becomes an entry (pattern id, guard line, IR for
    the forward transformer, IR for the inverse transformer).  Recursive calls
    `self.term(expr2, t, A)` become ('rec', A);  `Q.subs(f, A)` likewise;
    `self.sympy(expr, t, A)` becomes ('sympy', A); calls of self.integral /
    self.func / self.function are recorded as delegations (undefined functions
    are outside C12's signal class).
  * arithmetic: + - * / ** (integer exponent), unary -, integer constants,
    names f, sf, pi, I, const, const1 and the calls DiracDelta(x[, n]), sign,
    Heaviside, exp, rect, tri, sincn, cosh, sinh, tanh, abs.
  * variable changes: the single `self.subs(<expr>)` (or `self(<expr>)`) argument
    of the conversion methods, as an IR over the target variable, pi, dt, j.
"""
import ast
import hashlib
import os


class Untranslatable(Exception):
    pass


def fail(node, msg):
    raise Untranslatable('%s (line %s): %s' % (msg, getattr(node, 'lineno', '?'),
                                               ast.unparse(node)[:120] if isinstance(node, ast.AST) else node))


# parameter numbering of the function AST
PARS = {'const': 0, 'const1': 0, 'cval': 1, 'c0': 2, 'c1': 3, 'alpha': 4, 'a': 5, 'b': 6, 'scale': 7, 'shift': 8,
        'ea': 9, 'tt': 10}

# exact guard texts of FourierTransformer.term -> pattern id
GUARDS = {
    'expr.has(Integral)': 'D_integral',
    'isinstance(expr, AppliedUndef) and expr.args[0] == t': 'D_func',
    'expr.has(AppliedUndef) and expr.args[0] == t': 'D_function',
    'not expr.has(t)': 'const',
    'other != 1 and exps == 1': 'S_table',
    'other == t': 't',
    'other == t ** 2': 't2',
    'other == abs(t)': 'abs',
    'other == sign(t)': 'sign',
    'other == sign(t) * t': 'abs',
    'other == Heaviside(t)': 'step',
    'other == 1 / t': 'recip',
    'other == 1 / t ** 2': 'recip2',
    'False and other == exp(t)': 'DEAD',
    'other.is_Function and other.func == Heaviside and (other.args[0] == t)': 'step',
    'other == Heaviside(t) * t': 'tstep',
    'other.is_Mul and len(other.args) == 2 and (other.args[0] == t) and other.args[1].is_Function and (other.args[1].func == Heaviside) and (other.args[1].args[0] == t)': 'SHADOWED_tstep',
    'other.is_Mul and len(other.args) == 2 and other.args[1].is_Function and (other.args[1].func == exp) and other.args[1].args[0].is_polynomial(t) and other.args[1].args[0].as_poly(t).is_linear and other.args[0].is_Function and (other.args[0].func == Heaviside) and (other.args[0].args[0] == t)': 'expu',
    'other.is_Function and other.func == sincn and (other.args[0] == t)': 'sincn',
    'other.is_Function and other.func == sincu and (other.args[0] == t)': 'sincu',
    'other.is_Pow and other.args[1] == 2 and other.args[0].is_Function and (other.args[0].func == sincn) and (other.args[0].args[0] == t)': 'sincn2',
    'other.is_Function and other.func == rect and (other.args[0] == t)': 'rect',
    'other.is_Function and other.func == tri and (other.args[0] == t)': 'tri',
    'other.is_Function and other.func == trap and (other.args[0] == t)': 'trap',
    'alpha == 0': 'trap0',
    'other.is_Pow and other.args[1] == -1 and other.args[0].has(t)': 'S_recipfn',
    'foo.is_polynomial(t) and foo.as_poly(t).is_linear and sympify(-foo.coeff(t, 0) / foo.coeff(t, 1)).as_real_imag()[1].is_positive': 'reciplin',
    'foo.is_Function and foo.func == cosh and (foo.args[0] == t)': 'sech',
    'foo.is_Function and foo.func == sinh and (foo.args[0] == t)': 'csch',
    'other.is_Function and other.func == tanh and (other.args[0] == t)': 'tanh',
    'other.is_Mul and other.args[0] == t and other.args[1].is_Pow and (other.args[1].args[1] == -1) and other.args[1].args[0].is_Add and (not (other.args[1].args[0].args[0] / t).has(t)) and (not other.args[1].args[0].args[1].has(t))': 'tratio1',
    'other.is_Mul and other.args[0] == t and other.args[1].is_Pow and (other.args[1].args[1] == -1) and other.args[1].args[0].is_Add and (not (other.args[1].args[0].args[1] / t).has(t)) and (not other.args[1].args[0].args[0].has(t))': 'tratio2',
    '(b / a).is_negative': 'tration',
    'expr == t * DiracDelta(t, 1)': 'tdelta1',
    'scale != 1 or shift != 0': 'R_simshift',
    'shift != 0': 'S_shiftnz',
    'expr.is_Function and expr.args[0] == t': 'S_expandfn',
    'expr != expr2': 'R_expand',
    'foo.has(t)': 'O_sympy_exp',
    'exps != 1 and foo.has(I)': 'S_mod',
    'other == 1': 'cexp',
}
# glue statements (exact text) and what they bind
GLUE = {
    'const, expr = factor_const(expr, t)': None,
    'one = S.One': None, 'const1 = const': None, 'other = one': None, 'exps = one': None,
    'factors = expr.expand().as_ordered_factors()': None,
    'for factor in factors:\n    if not factor.has(t):\n        const1 *= factor\n    elif factor.is_Function and factor.func == exp and factor.args[0].has(I):\n        exps *= factor\n    else:\n        other *= factor': None,
    'foo = other.args[1].args[0]': None, 'foo = other.args[0]': None,
    'c0 = foo.coeff(t, 0)': ('c0', ('par', PARS['c0'])),
    'c1 = foo.coeff(t, 1)': ('c1', ('par', PARS['c1'])),
    'alpha = other.args[1]': ('alpha', ('par', PARS['alpha'])),
    'other = other.args[0]': None,
    'a = other.args[1].args[0].args[0] / t': ('a', ('par', PARS['a'])),
    'b = other.args[1].args[0].args[1] * I': ('b', ('par', PARS['b'])),
    'b = other.args[1].args[0].args[0] * I': ('b', ('par', PARS['b'])),
    'a = other.args[1].args[0].args[1] / t': ('a', ('par', PARS['a'])),
    'expr2, scale, shift = similarity_shift(expr, t)': None,
    'expr2 = expand_functions(expr, t)': None,
    'terms = expr2.as_ordered_terms()': None,
    'result = 0': ('result', ('num', 0, 1)),
    'for term in terms:\n    result += self.term(term, t, f)': ('result', ('linear',)),
    'args = exps.args[0]': ('args', ('mul', ('par', PARS['ea']), ('par', PARS['tt']))),
}
HEADS = {'sign': 'HSign', 'Heaviside': 'HHeav', 'exp': 'HExp', 'rect': 'HRect', 'tri': 'HTri', 'sincn': 'HSincn',
         'sincu': 'HSincu', 'cosh': 'HCosh', 'sinh': 'HSinh', 'tanh': 'HTanh', 'abs': 'HAbs'}


class TermTranslator:
    def __init__(self, fn, inverse):
        self.fn = fn
        self.inverse = inverse
        self.entries = []
        self.env = {'f': ('var',), 'pi': ('pi',), 'I': ('j',), 'j': ('j',),
                    'const': ('par', PARS['const']), 'const1': ('par', PARS['const1']),
                    't': ('par', PARS['tt']), 'scale': ('par', PARS['scale']), 'shift': ('par', PARS['shift'])}

    # -- expressions ---------------------------------------------------------------
    def ex(self, n, env):
        if isinstance(n, ast.Constant):
            if isinstance(n.value, bool) or not isinstance(n.value, int):
                fail(n, 'constant')
            return ('num', n.value, 1)
        if isinstance(n, ast.Name):
            if n.id in env:
                return env[n.id]
            fail(n, 'unknown name')
        if isinstance(n, ast.UnaryOp) and isinstance(n.op, ast.USub):
            return ('neg', self.ex(n.operand, env))
        if isinstance(n, ast.BinOp):
            if isinstance(n.op, ast.Pow):
                if not (isinstance(n.right, ast.Constant) and isinstance(n.right.value, int) and n.right.value >= 0):
                    fail(n, 'exponent')
                return ('pow', self.ex(n.left, env), n.right.value)
            a, b = self.ex(n.left, env), self.ex(n.right, env)
            if isinstance(n.op, ast.Add):
                return ('add', a, b)
            if isinstance(n.op, ast.Sub):
                return ('add', a, ('neg', b))
            if isinstance(n.op, ast.Mult):
                return ('mul', a, b)
            if isinstance(n.op, ast.Div):
                return ('mul', a, ('inv', b))
            fail(n, 'operator')
        if isinstance(n, ast.IfExp):
            if ast.unparse(n.test) != 'self.is_inverse':
                fail(n, 'conditional')
            return self.ex(n.body if self.inverse else n.orelse, env)
        if isinstance(n, ast.Call):
            fnm = ast.unparse(n.func)
            if n.keywords:
                fail(n, 'keywords')
            if fnm == 'DiracDelta':
                if len(n.args) == 1:
                    return ('dl', 0, self.ex(n.args[0], env))
                if len(n.args) == 2 and isinstance(n.args[1], ast.Constant) and isinstance(n.args[1].value, int):
                    return ('dl', n.args[1].value, self.ex(n.args[0], env))
                fail(n, 'DiracDelta arguments')
            if fnm in HEADS and len(n.args) == 1:
                return ('app', HEADS[fnm], self.ex(n.args[0], env))
            if fnm == 'self.term':
                if len(n.args) != 3 or ast.unparse(n.args[1]) != 't':
                    fail(n, 'recursive call shape')
                return ('rec', self.ex(n.args[2], env))
            if fnm == 'Q.subs':
                if len(n.args) != 2 or ast.unparse(n.args[0]) != 'f' or env.get('Q') != ('rec', ('var',)):
                    fail(n, 'Q.subs shape')
                return ('rec', self.ex(n.args[1], env))
            if fnm == 'self.sympy':
                if len(n.args) != 3 or ast.unparse(n.args[0]) != 'expr' or ast.unparse(n.args[1]) != 't':
                    fail(n, 'sympy call shape')
                return ('sympy', self.ex(n.args[2], env))
            if fnm in ('self.integral', 'self.func', 'self.function'):
                if [ast.unparse(a) for a in n.args] != ['expr', 't', 'f']:
                    fail(n, 'delegation shape')
                return ('delegate', fnm)
            fail(n, 'call')
        fail(n, 'expression')

    # -- statements -----------------------------------------------------------------
    def block(self, stmts, env, path):
        env = dict(env)
        for s in stmts:
            if isinstance(s, ast.Expr) and isinstance(s.value, ast.Constant):
                continue
            if isinstance(s, ast.Return):
                self.entries.append({'path': list(path), 'line': s.lineno, 'src': ast.unparse(s.value),
                                     'ir': self.ex(s.value, env)})
                return env, True
            if isinstance(s, ast.If):
                test = ast.unparse(s.test)
                if test not in GUARDS:
                    fail(s, 'unknown guard')
                pid = GUARDS[test]
                if pid == 'S_shiftnz':
                    # `if shift != 0: result *= exp(...)`: the factor is exp(0) = 1 when shift = 0, so the
                    # multiplication is modelled unconditionally
                    if s.orelse or not all(isinstance(b, ast.AugAssign) for b in s.body):
                        fail(s, 'shift block')
                    env, _ = self.block(s.body, env, path)
                    continue
                benv = dict(env)
                if pid == 'const':
                    benv['expr'] = ('par', PARS['cval'])
                self.block(s.body, benv, path + [(pid, s.lineno)])
                if s.orelse:
                    self.block(s.orelse, env, path + [('not ' + pid, s.lineno)])
                continue
            txt = ast.unparse(s)
            if txt in GLUE:
                b = GLUE[txt]
                if b:
                    env[b[0]] = b[1]
                continue
            if isinstance(s, ast.Assign) and len(s.targets) == 1 and isinstance(s.targets[0], ast.Name):
                env[s.targets[0].id] = self.ex(s.value, env)
                continue
            if isinstance(s, ast.AugAssign) and isinstance(s.target, ast.Name) and isinstance(s.op, ast.Mult) and s.target.id in env:
                env[s.target.id] = ('mul', env[s.target.id], self.ex(s.value, env))
                continue
            fail(s, 'unknown statement')
        return env, False


def translate_term(path_py):
    src = open(path_py).read()
    tree = ast.parse(src)
    cls = [n for n in tree.body if isinstance(n, ast.ClassDef) and n.name == 'FourierTransformer']
    if len(cls) != 1:
        raise Untranslatable('class FourierTransformer not found')
    bases = [ast.unparse(b) for b in cls[0].bases]
    if bases != ['BilateralForwardTransformer']:
        raise Untranslatable('unexpected bases %s' % bases)
    fns = [n for n in cls[0].body if isinstance(n, ast.FunctionDef) and n.name == 'term']
    if len(fns) != 1 or [a.arg for a in fns[0].args.args] != ['self', 'expr', 't', 'f']:
        raise Untranslatable('FourierTransformer.term signature')
    out = {}
    for inv in (False, True):
        tt = TermTranslator(fns[0], inv)
        env, done = tt.block(fns[0].body, tt.env, [])
        if not done:
            raise Untranslatable('term does not end in a return')
        out[inv] = tt.entries
    if len(out[False]) != len(out[True]):
        raise Untranslatable('forward/inverse entry lists differ')
    entries = []
    for a, b in zip(out[False], out[True]):
        if a['line'] != b['line']:
            raise Untranslatable('entry order differs')
        pids = [p for p, _ in a['path']]
        entries.append({'line': a['line'], 'src': a['src'], 'path': pids, 'pid': entry_pid(pids),
                        'fwd': a['ir'], 'inv': b['ir']})
    # other methods that C12 relies on
    methods = {n.name: n for n in cls[0].body if isinstance(n, ast.FunctionDef)}
    facts = {}
    k = methods.get('key')
    facts['key'] = ast.unparse(k.body[-1]) if k else None
    rw = methods.get('rewrite')
    facts['rewrite'] = hashlib.sha256(ast.unparse(rw).encode()).hexdigest()[:16] if rw else None
    sy = methods.get('sympy')
    facts['sympy_call'] = any(ast.unparse(s) == 'result = sympy_fourier_transform(expr, t, f)' for s in ast.walk(sy) if isinstance(s, ast.Assign)) if sy else False
    return entries, facts


def entry_pid(pids):
    """pattern id of an entry from its guard path"""
    p = [x for x in pids if not x.startswith('not ')]
    if not p:
        return 'O_sympy'                 # final fall-through
    last = p[-1]
    if last == 'tration':
        # the b/a < 0 case inside one of the two t/(a t - j b) branches; the return after it is the
        # b/a > 0 (or sign unknown) case and keeps the pattern id of the branch
        if len(p) < 2 or p[-2] not in ('tratio1', 'tratio2'):
            raise Untranslatable('(b / a).is_negative outside a t/(a t - j b) branch')
        return p[-2] + 'n'
    if last == 'S_table':
        return 'O_sympy_table'           # punt at the end of the table block
    if last == 'trap' :
        return 'trap'
    if last == 'S_mod':
        return 'R_mod'
    return last


# ---- inverse_fourier.py ----------------------------------------------------------
def translate_inverse(path_py):
    tree = ast.parse(open(path_py).read())
    cls = [n for n in tree.body if isinstance(n, ast.ClassDef) and n.name == 'InverseFourierTransformer']
    if len(cls) != 1:
        raise Untranslatable('class InverseFourierTransformer not found')
    if [ast.unparse(b) for b in cls[0].bases] != ['FourierTransformer']:
        raise Untranslatable('InverseFourierTransformer base')
    flags = {}
    meths = []
    for n in cls[0].body:
        if isinstance(n, ast.Assign) and len(n.targets) == 1 and isinstance(n.targets[0], ast.Name):
            flags[n.targets[0].id] = ast.unparse(n.value)
        elif isinstance(n, ast.FunctionDef):
            meths.append(n.name)
        elif isinstance(n, ast.Expr) and isinstance(n.value, ast.Constant):
            pass
        else:
            fail(n, 'unexpected member of InverseFourierTransformer')
    if flags.get('is_inverse') != 'True':
        raise Untranslatable('is_inverse is not True')
    if sorted(meths) != ['check', 'noevaluate']:
        raise Untranslatable('InverseFourierTransformer overrides %s' % meths)
    return {'is_inverse': True, 'overrides': sorted(meths)}


# ---- variable changes --------------------------------------------------------------
VARS = {'f': 'Vf', 'omega': 'Vw', 'F': 'VF', 'Omega': 'VW', 'fsym': 'Vf'}
CONV = [  # (file, class, method, source variable, target variable name in the expression)
    ('fexpr.py', 'FourierDomainExpression', 'norm_fourier', 'Vf', 'VF'),
    ('fexpr.py', 'FourierDomainExpression', 'angular_fourier', 'Vf', 'Vw'),
    ('fexpr.py', 'FourierDomainExpression', 'norm_angular_fourier', 'Vf', 'VW'),
    ('omegaexpr.py', 'AngularFourierDomainExpression', 'fourier', 'Vw', 'Vf'),
    ('omegaexpr.py', 'AngularFourierDomainExpression', 'norm_fourier', 'Vw', 'VF'),
    ('omegaexpr.py', 'AngularFourierDomainExpression', 'norm_angular_fourier', 'Vw', 'VW'),
    ('omegaexpr.py', 'AngularFourierDomainExpression', 'inverse_fourier', 'Vw', 'Vf'),
    ('normfexpr.py', 'NormFourierDomainExpression', 'fourier', 'VF', 'Vf'),
    ('normfexpr.py', 'NormFourierDomainExpression', 'angular_fourier', 'VF', 'Vw'),
    ('normfexpr.py', 'NormFourierDomainExpression', 'norm_fourier', 'VF', 'VF'),
    ('normfexpr.py', 'NormFourierDomainExpression', 'norm_angular_fourier', 'VF', 'VW'),
    ('normfexpr.py', 'NormFourierDomainExpression', 'inverse_fourier', 'VF', 'Vf'),
    ('normomegaexpr.py', 'NormAngularFourierDomainExpression', 'fourier', 'VW', 'Vf'),
    ('normomegaexpr.py', 'NormAngularFourierDomainExpression', 'angular_fourier', 'VW', 'Vw'),
    ('normomegaexpr.py', 'NormAngularFourierDomainExpression', 'norm_fourier', 'VW', 'VF'),
    ('normomegaexpr.py', 'NormAngularFourierDomainExpression', 'norm_angular_fourier', 'VW', 'VW'),
    ('normomegaexpr.py', 'NormAngularFourierDomainExpression', 'inverse_fourier', 'VW', 'Vf'),
]
SCONV = [('sexpr.py', 'LaplaceDomainExpression', m, v) for m, v in
         (('fourier', 'Vf'), ('angular_fourier', 'Vw'), ('norm_fourier', 'VF'), ('norm_angular_fourier', 'VW'))]


def _scale_ir(n, target):
    """IR of a substitution argument: product/quotient of the target variable, 2, pi, dt (and j for s)"""
    if isinstance(n, ast.Constant) and isinstance(n.value, int) and not isinstance(n.value, bool):
        return ('num', n.value, 1)
    if isinstance(n, ast.Name):
        if n.id in VARS:
            if VARS[n.id] != target:
                fail(n, 'unexpected variable (wanted %s)' % target)
            return ('var',)
        if n.id == 'pi':
            return ('pi',)
        if n.id == 'dt':
            return ('dt',)
        if n.id in ('j', 'jw'):
            if n.id == 'jw':
                if target != 'Vw':
                    fail(n, 'jw used for a non-omega target')
                return ('mul', ('j',), ('var',))
            return ('j',)
        fail(n, 'unknown name in scale')
    if isinstance(n, ast.BinOp) and isinstance(n.op, (ast.Mult, ast.Div)):
        a, b = _scale_ir(n.left, target), _scale_ir(n.right, target)
        return ('mul', a, b) if isinstance(n.op, ast.Mult) else ('mul', a, ('inv', b))
    fail(n, 'scale expression')


def _method(tree, cname, mname):
    cls = [n for n in tree.body if isinstance(n, ast.ClassDef) and n.name == cname]
    if len(cls) != 1:
        raise Untranslatable('class %s not found' % cname)
    ms = [n for n in cls[0].body if isinstance(n, ast.FunctionDef) and n.name == mname]
    if len(ms) != 1:
        raise Untranslatable('%s.%s not found' % (cname, mname))
    return ms[0]


def _conv_one(tree, fname, cname, mname, src, dst):
    m = _method(tree, cname, mname)
    body = [s for s in m.body if not (isinstance(s, ast.Expr) and isinstance(s.value, ast.Constant))
            and not isinstance(s, (ast.Import, ast.ImportFrom))]
    ir = None
    kind = None
    if len(body) == 1 and isinstance(body[0], ast.Return) and ast.unparse(body[0].value) == 'self':
        ir, kind = ('var',), 'identity'
    else:
        for s in body:
            if isinstance(s, ast.Assign) and isinstance(s.value, ast.Call) and ast.unparse(s.value.func) == 'self.subs' \
                    and len(s.value.args) == 1 and not s.value.keywords:
                if ir is not None:
                    fail(s, 'two substitutions')
                ir, kind = _scale_ir(s.value.args[0], dst), 'subs'
        if ir is None:
            fail(m, 'no self.subs(<scale>) found')
        texts = [ast.unparse(s) for s in body]
        if mname == 'inverse_fourier':
            ok = any(t.startswith('result = inverse_fourier_transform(expr.sympy, fsym, tsym') for t in texts) and \
                 texts[-1].startswith("return self.change(result, 'time'")
        else:
            ok = texts[-1] == 'return result' and len(body) == 2
        if not ok:
            fail(m, 'unexpected body')
    return {'cls': cname, 'method': mname, 'file': fname, 'line': m.lineno, 'src': src, 'dst': dst, 'ir': ir, 'kind': kind}


SHORTCUT_GUARD = "(self.is_causal or assumptions.get('causal', False)) and self.is_stable"


def _sconv_one(stree, fname, cname, mname, dst):
    m = _method(stree, cname, mname)
    ifs = [s for s in m.body if isinstance(s, ast.If)]
    if len(ifs) != 1 or ast.unparse(ifs[0].test) != SHORTCUT_GUARD:
        fail(m, 'shortcut guard (expected `%s`)' % SHORTCUT_GUARD)
    b = ifs[0].body
    a0 = ast.unparse(b[0])
    if mname == 'fourier':
        if a0 != 'tmp = self.subs(jw)' or not ast.unparse(b[1]).startswith('return self.change(tmp.subs(2 * pi * f, safe=True)'):
            fail(m, 'fourier shortcut')
        ir = ('mul', ('j',), ('mul', ('mul', ('num', 2, 1), ('pi',)), ('var',)))
    else:
        if not (isinstance(b[0], ast.Assign) and isinstance(b[0].value, ast.Call) and ast.unparse(b[0].value.func) == 'self'
                and len(b[0].value.args) == 1):
            fail(m, 'shortcut substitution')
        ir = _scale_ir(b[0].value.args[0], dst)
    if ast.unparse(m.body[-2]) != 'result = self.time(**assumptions).%s(**assumptions)' % mname:
        fail(m, 'fallback')
    return {'cls': cname, 'method': mname, 'file': fname, 'line': m.lineno, 'dst': dst, 'ir': ir}


def _texpr_skeleton(lcapy_dir):
    tree = ast.parse(open(os.path.join(lcapy_dir, 'fexpr.py')).read())
    m = _method(tree, 'FourierDomainExpression', 'inverse_fourier')
    texts = [ast.unparse(s) for s in m.body if not (isinstance(s, ast.Expr) and isinstance(s.value, ast.Constant))]
    if texts[0] != 'result = inverse_fourier_transform(self.expr, self.var, tsym, evaluate=evaluate)':
        fail(m, 'fexpr.inverse_fourier body')
    # texpr.FT: transform in f, then result(var)
    ttree = ast.parse(open(os.path.join(lcapy_dir, 'texpr.py')).read())
    m = _method(ttree, 'TimeDomainExpression', 'FT')
    texts = [ast.unparse(s) for s in m.body]
    need = ['result = fourier_transform(self.expr, self.var, fsym, evaluate=evaluate)', 'result = result(var)',
            'result = result.expand(diracdelta=True, wrt=var)',
            'if not result.sympy.has(DiracDelta):\n    result = result.simplify()']
    pos = [texts.index(x) if x in texts else -1 for x in need]
    if -1 in pos or pos != sorted(pos):
        fail(m, 'texpr.FT skeleton')
    for nm, var in (('norm_fourier', 'F'), ('angular_fourier', 'omega'), ('norm_angular_fourier', 'Omega')):
        mm = _method(ttree, 'TimeDomainExpression', nm)
        if ast.unparse(mm.body[-1]) != 'return self.FT(%s, evaluate, **assumptions)' % var:
            fail(mm, 'texpr.%s' % nm)


def translate_varchanges(lcapy_dir, errors=None):
    """every conversion method separately: an untranslatable method is recorded in `errors`
    ((part, detail) pairs) and the others are still translated"""
    strict = errors is None
    errors = [] if errors is None else errors
    out = []
    trees = {}
    for fname, cname, mname, src, dst in CONV:
        try:
            tree = trees.setdefault(fname, ast.parse(open(os.path.join(lcapy_dir, fname)).read()))
            out.append(_conv_one(tree, fname, cname, mname, src, dst))
        except (Untranslatable, OSError, SyntaxError) as e:
            errors.append(('varchange_%s_%s' % (cname, mname), str(e)))
    try:
        _texpr_skeleton(lcapy_dir)
    except (Untranslatable, OSError, SyntaxError) as e:
        errors.append(('texpr_FT_skeleton', str(e)))
    sout = []
    for fname, cname, mname, dst in SCONV:
        try:
            stree = trees.setdefault(fname, ast.parse(open(os.path.join(lcapy_dir, fname)).read()))
            sout.append(_sconv_one(stree, fname, cname, mname, dst))
        except (Untranslatable, OSError, SyntaxError) as e:
            errors.append(('sshort_%s' % mname, str(e)))
    if strict and errors:
        raise Untranslatable('; '.join('%s: %s' % x for x in errors))
    return out, sout


# ---- doit skeleton ---------------------------------------------------------------------
DOIT_EXPECT = [
    'const, expr = factor_const(expr, var)',
    'key = self.key(expr, var, conjvar, **kwargs)',
    'if cache and key in self.cache:\n    return const * self.cache[key]',
    'expr = self.rewrite(expr, var)',
    'terms = expr.as_ordered_terms()',
    'self.cache[key] = result',
    'return const * result',
]


def translate_doit(path_py):
    tree = ast.parse(open(path_py).read())
    m = _method(tree, 'BilateralForwardTransformer', 'doit')
    texts = [ast.unparse(s) for s in m.body]
    pos = []
    for x in DOIT_EXPECT:
        if x not in texts:
            raise Untranslatable('doit: statement not found: %s' % x)
        pos.append(texts.index(x))
    if pos != sorted(pos):
        raise Untranslatable('doit: statement order changed')
    inner = [s for s in m.body if isinstance(s, ast.FunctionDef) and s.name == 'doit1']
    if len(inner) != 1:
        raise Untranslatable('doit1 missing')
    want = 'def doit1(terms):\n    result = 0\n    for term in terms:\n        sterm = self.simplify_term(term, var)\n        ret = self.term(sterm, var, conjvar, **kwargs)\n        result += ret\n    return result'
    if ast.unparse(inner[0]) != want:
        raise Untranslatable('doit1 changed')
    tries = [s for s in m.body if isinstance(s, ast.Try)]
    if len(tries) != 1 or ast.unparse(tries[0].body[0]) != 'result = doit1(terms)' or \
            ast.unparse(tries[0].handlers[0].type) != 'ValueError':
        raise Untranslatable('doit retry block')
    retry = [ast.unparse(s) for s in tries[0].handlers[0].body]
    if 'terms = expr.expand().as_ordered_terms()' not in retry or retry[-1] != 'result = doit1(terms2)':
        raise Untranslatable('doit retry body')
    if not any('Ratfun(term, var).partfrac().expand().as_ordered_terms()' in r for r in retry):
        raise Untranslatable('doit partial fraction retry')
    extra = [t for i, t in enumerate(texts) if i not in pos and not t.startswith('def doit1') and not t.startswith('try:')]
    if extra:
        raise Untranslatable('doit: unexpected statements %s' % extra)
    return {'key_excludes_const': True, 'cache_stores_unscaled': True, 'retry': 'partfrac'}


class Translation:
    """parts are translated independently; `errors` lists (part, detail) of what could not be translated:
    'term' (FourierTransformer.term: entries is None), 'inverse', 'doit', 'varchange_<cls>_<method>',
    'sshort_<method>', 'texpr_FT_skeleton'"""

    def __init__(self, repo):
        ld = os.path.join(repo, 'lcapy')
        self.files = {}
        self.errors = []
        for f in ('fourier.py', 'inverse_fourier.py', 'transformer.py', 'texpr.py', 'fexpr.py', 'omegaexpr.py',
                  'normfexpr.py', 'normomegaexpr.py', 'sexpr.py'):
            try:
                self.files[f] = hashlib.sha256(open(os.path.join(ld, f), 'rb').read()).hexdigest()
            except OSError as e:
                self.errors.append(('file_' + f, str(e)))
        self.entries, self.facts, self.inverse, self.doit = None, {}, None, None
        try:
            self.entries, self.facts = translate_term(os.path.join(ld, 'fourier.py'))
        except (Untranslatable, OSError, SyntaxError) as e:
            self.errors.append(('term', str(e)))
        try:
            self.inverse = translate_inverse(os.path.join(ld, 'inverse_fourier.py'))
        except (Untranslatable, OSError, SyntaxError) as e:
            self.errors.append(('inverse', str(e)))
        self.varchanges, self.sconv = translate_varchanges(ld, self.errors)
        try:
            self.doit = translate_doit(os.path.join(ld, 'transformer.py'))
        except (Untranslatable, OSError, SyntaxError) as e:
            self.errors.append(('doit', str(e)))


# ---- Coq printing -----------------------------------------------------------------------
def coq_fn(ir):
    k = ir[0]
    if k == 'var':
        return 'Var'
    if k == 'num':
        return '(Num (%d) %d)' % (ir[1], ir[2])
    if k == 'pi':
        return 'Pi'
    if k == 'j':
        return 'Jm'
    if k == 'par':
        return '(Par %d)' % ir[1]
    if k in ('add', 'mul'):
        return '(%s %s %s)' % (k.capitalize(), coq_fn(ir[1]), coq_fn(ir[2]))
    if k == 'neg':
        return '(Neg %s)' % coq_fn(ir[1])
    if k == 'inv':
        return '(Inv %s)' % coq_fn(ir[1])
    if k == 'pow':
        return '(Pw %s %d)' % (coq_fn(ir[1]), ir[2])
    if k == 'app':
        return '(App %s %s)' % (ir[1], coq_fn(ir[2]))
    if k == 'dl':
        return '(Dl %d %s)' % (ir[1], coq_fn(ir[2]))
    if k == 'rec':
        return '(Rec %s)' % coq_fn(ir[1])
    if k == 'dt':
        return '(Par 11)'
    raise Untranslatable('cannot print IR node %s' % (k,))


def has_kind(ir, kinds):
    if not isinstance(ir, tuple):
        return False
    if ir[0] in kinds:
        return True
    return any(has_kind(x, kinds) for x in ir[1:])


if __name__ == '__main__':
    import sys
    tr = Translation(sys.argv[1] if len(sys.argv) > 1 else '/repo')
    print(tr.errors)
    for e in tr.entries or []:
        print(e['line'], e['pid'], e['path'][-2:], '\n    fwd', coq_fn(e['fwd']) if not has_kind(e['fwd'], ('sympy', 'delegate', 'linear')) else e['fwd'],
              '\n    inv', coq_fn(e['inv']) if not has_kind(e['inv'], ('sympy', 'delegate', 'linear')) else e['inv'])
    for v in tr.varchanges:
        print(v['cls'], v['method'], v['src'], '->', v['dst'], coq_fn(v['ir']))
    for v in tr.sconv:
        print(v['cls'], v['method'], v['dst'], coq_fn(v['ir']))
    print(tr.doit, tr.inverse, tr.facts)
