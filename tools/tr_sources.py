#!/usr/bin/env python3
"""Fail-closed translator: the value definitions of the independent-source
classes of lcapy/oneport.py (sV V Vstep Vdc Vac sI I Istep Idc Iac) -> Coq.

For every class the `__init__` body is executed symbolically over a tiny
environment (parameter names -> IR) and the argument of the final

    self._Voc = SuperpositionVoltage(<X>)      /   self._Isc = SuperpositionCurrent(<X>)

is translated into a source descriptor of coq/theory/Sources.v:

    cexpr(a, dc=True)                         -> SDc a
    TimeDomainExpression(a) * Heaviside(t)    -> SStep a
    LaplaceDomainExpression(a)                -> SLap a
    a                                         -> SAny a
    phasor(<arith>, omega=w)                  -> SPhasor <arith> w

where <arith> ranges over the parameters, integer literals, `j`, `exp(.)`,
products and unary minus (exp is the abstract function E of the Coq section;
nothing about it is assumed in the theorems).  Accepted statement shapes:

    self.kwargs = kwargs / self.args = ... / self.<attr> = <name>   (bookkeeping: attributes may only
                                                                     be bound to names, and are read back)
    <p> = cexpr(<p>) | expr(<p>) | LaplaceDomainExpression(<p>)      (wrappers: identity on the value)
    if <p> is None: <p> = <default>                                  (default of an optional parameter)
    if <p> is None and ...: self.args = ... elif ...                 (bookkeeping of args only)
    if isinstance(Ival, str) and Ival == 'I': warn(...)              (warning only)

Anything else raises Untranslatable.
"""
import ast
import sys

CLASSES = ['sV', 'V', 'Vstep', 'Vdc', 'Vac', 'sI', 'I', 'Istep', 'Idc', 'Iac']
WRAPPERS = ('cexpr', 'expr', 'LaplaceDomainExpression')


class Untranslatable(Exception):
    pass


def fail(node, why):
    raise Untranslatable('lcapy/oneport.py line %s: %s' % (getattr(node, 'lineno', '?'), why))


class SrcTranslator:
    def __init__(self, path):
        self.path = path
        import warnings
        with warnings.catch_warnings():
            warnings.simplefilter('ignore')
            self.tree = ast.parse(open(path).read())
        self.out = {}        # class -> (params, descriptor IR)

    # ---- expression IR: ('arg', name) ('int', n) ('j',) ('omega0',) ('mul', a, b) ('neg', a) ('exp', a) ----
    def arith(self, e, env):
        if isinstance(e, ast.Name):
            if e.id == 'j':
                return ('j',)
            if e.id == 'omega0sym':
                return ('omega0',)
            if e.id in env:
                return env[e.id]
            fail(e, 'unknown name %s in a source value' % e.id)
        if isinstance(e, ast.Attribute) and isinstance(e.value, ast.Name) and e.value.id == 'self':
            if ('self.' + e.attr) in env:
                return env['self.' + e.attr]
            fail(e, 'attribute self.%s read before being bound' % e.attr)
        if isinstance(e, ast.Constant) and isinstance(e.value, int) and not isinstance(e.value, bool):
            return ('int', e.value)
        if isinstance(e, ast.UnaryOp) and isinstance(e.op, ast.USub):
            return ('neg', self.arith(e.operand, env))
        if isinstance(e, ast.BinOp) and isinstance(e.op, ast.Mult):
            return ('mul', self.arith(e.left, env), self.arith(e.right, env))
        if isinstance(e, ast.Call) and isinstance(e.func, ast.Name) and e.func.id == 'exp' and len(e.args) == 1 and not e.keywords:
            return ('exp', self.arith(e.args[0], env))
        fail(e, 'unsupported expression in a source value: %s' % ast.unparse(e))

    def descriptor(self, x, env):
        # phasor(A, omega=W)
        if isinstance(x, ast.Call) and isinstance(x.func, ast.Name):
            f = x.func.id
            if f == 'phasor' and len(x.args) == 1 and len(x.keywords) == 1 and x.keywords[0].arg == 'omega':
                return ('SPhasor', self.arith(x.args[0], env), self.arith(x.keywords[0].value, env))
            if f == 'cexpr' and len(x.args) == 1 and len(x.keywords) == 1 and x.keywords[0].arg == 'dc' \
                    and isinstance(x.keywords[0].value, ast.Constant) and x.keywords[0].value.value is True:
                return ('SDc', self.arith(x.args[0], env))
            if f == 'LaplaceDomainExpression' and len(x.args) == 1 and not x.keywords:
                return ('SLap', self.arith(x.args[0], env))
            fail(x, 'unsupported source constructor %s' % ast.unparse(x))
        if isinstance(x, ast.BinOp) and isinstance(x.op, ast.Mult):
            l, r = x.left, x.right
            if (isinstance(l, ast.Call) and isinstance(l.func, ast.Name) and l.func.id == 'TimeDomainExpression'
                    and len(l.args) == 1 and not l.keywords
                    and isinstance(r, ast.Call) and isinstance(r.func, ast.Name) and r.func.id == 'Heaviside'
                    and len(r.args) == 1 and isinstance(r.args[0], ast.Name) and r.args[0].id == 't'):
                return ('SStep', self.arith(l.args[0], env))
            fail(x, 'unsupported product in a source value')
        if isinstance(x, ast.Name):
            return ('SAny', self.arith(x, env))
        fail(x, 'unsupported source value %s' % ast.unparse(x))

    def is_none_test(self, t):
        """`p is None` -> p, else None"""
        if isinstance(t, ast.Compare) and len(t.ops) == 1 and isinstance(t.ops[0], ast.Is) \
                and isinstance(t.left, ast.Name) and isinstance(t.comparators[0], ast.Constant) \
                and t.comparators[0].value is None:
            return t.left.id
        return None

    def only_args_bookkeeping(self, stmts):
        for s in stmts:
            if isinstance(s, ast.If):
                if not (self.only_args_bookkeeping(s.body) and self.only_args_bookkeeping(s.orelse)):
                    return False
            elif isinstance(s, ast.Assign) and len(s.targets) == 1 and ast.unparse(s.targets[0]) == 'self.args':
                continue
            else:
                return False
        return True

    def translate_class(self, cd):
        init = [f for f in cd.body if isinstance(f, ast.FunctionDef) and f.name == '__init__']
        if len(init) != 1:
            fail(cd, 'class %s: expected one __init__' % cd.name)
        f = init[0]
        params = [a.arg for a in f.args.args[1:]]
        defaults = [None] * (len(params) - len(f.args.defaults)) + list(f.args.defaults)
        env = {}
        optional = {}
        for p, d in zip(params, defaults):
            env[p] = ('arg', p)
            if d is not None:
                if isinstance(d, ast.Constant) and d.value is None:
                    optional[p] = None           # must be defaulted in the body before use
                elif isinstance(d, ast.Constant) and isinstance(d.value, int):
                    optional[p] = ('int', d.value)
                    env[p] = ('opt', p, ('int', d.value))
                elif isinstance(d, ast.Constant) and isinstance(d.value, str):
                    pass                          # symbolic default name ('V', 'Is'): the value is the argument
                else:
                    fail(d, 'class %s: unsupported default' % cd.name)
        result = None
        for s in f.body:
            if isinstance(s, ast.Expr) and isinstance(s.value, ast.Constant) and isinstance(s.value.value, str):
                continue
            if isinstance(s, ast.If):
                p = self.is_none_test(s.test)
                if p is not None and not s.orelse and len(s.body) == 1 and isinstance(s.body[0], ast.Assign) \
                        and len(s.body[0].targets) == 1 and isinstance(s.body[0].targets[0], ast.Name) \
                        and s.body[0].targets[0].id == p and p in optional:
                    env[p] = ('opt', p, self.arith(s.body[0].value, env))
                    optional[p] = env[p]
                    continue
                if self.only_args_bookkeeping([s]):
                    continue
                src = ast.unparse(s.test)
                if src == "isinstance(Ival, str) and Ival == 'I'" and len(s.body) == 1 and not s.orelse \
                        and isinstance(s.body[0], ast.Expr) and isinstance(s.body[0].value, ast.Call) \
                        and ast.unparse(s.body[0].value.func) == 'warn':
                    continue
                fail(s, 'class %s: unsupported if statement' % cd.name)
            if isinstance(s, ast.Assign) and len(s.targets) == 1:
                tgt = ast.unparse(s.targets[0])
                if tgt in ('self.kwargs', 'self.args'):
                    continue
                if tgt in ('self._Voc', 'self._Isc'):
                    want = 'SuperpositionVoltage' if tgt == 'self._Voc' else 'SuperpositionCurrent'
                    if not (isinstance(s.value, ast.Call) and isinstance(s.value.func, ast.Name)
                            and s.value.func.id == want and len(s.value.args) == 1 and not s.value.keywords):
                        fail(s, 'class %s: %s must be %s(<value>)' % (cd.name, tgt, want))
                    if result is not None:
                        fail(s, 'class %s: value bound twice' % cd.name)
                    result = self.descriptor(s.value.args[0], env)
                    continue
                if isinstance(s.targets[0], ast.Name):
                    v = s.value
                    if isinstance(v, ast.Call) and isinstance(v.func, ast.Name) and v.func.id in WRAPPERS \
                            and len(v.args) == 1 and not v.keywords:
                        if result is not None:
                            fail(s, 'class %s: rebinding after the value was built' % cd.name)
                        env[tgt] = self.arith(v.args[0], env)
                        continue
                    fail(s, 'class %s: unsupported assignment to %s' % (cd.name, tgt))
                if tgt.startswith('self.') and isinstance(s.value, ast.Name):
                    env[tgt] = self.arith(s.value, env)
                    continue
            fail(s, 'class %s: unsupported statement %s' % (cd.name, ast.unparse(s)[:60]))
        if result is None:
            fail(cd, 'class %s: no source value found' % cd.name)
        for p, d in optional.items():
            if d is None:
                # optional parameter never defaulted: it may not occur in the value
                if self.mentions(result, p):
                    fail(cd, 'class %s: optional parameter %s used without a default' % (cd.name, p))
        self.out[cd.name] = (params, result)

    def mentions(self, ir, p):
        if ir[0] == 'arg':
            return ir[1] == p
        if ir[0] == 'opt':
            return ir[1] == p
        return any(self.mentions(x, p) for x in ir[1:] if isinstance(x, tuple))

    def translate_all(self):
        found = {}
        for n in self.tree.body:
            if isinstance(n, ast.ClassDef) and n.name in CLASSES:
                found[n.name] = n
        for c in CLASSES:
            if c not in found:
                raise Untranslatable('lcapy/oneport.py: class %s not found' % c)
            self.translate_class(found[c])
        return self.out


# ---- emission -----------------------------------------------------------------
def emit_arith(ir, params):
    k = ir[0]
    if k == 'arg':
        return 'a%d' % params.index(ir[1])
    if k == 'opt':
        return '(if h%d then a%d else %s)' % (params.index(ir[1]), params.index(ir[1]), emit_arith(ir[2], params))
    if k == 'int':
        return '(fofZ K (%d))' % ir[1]
    if k == 'j':
        return 'jj'
    if k == 'omega0':
        return 'omega0'
    if k == 'mul':
        return '(fmul %s %s)' % (emit_arith(ir[1], params), emit_arith(ir[2], params))
    if k == 'neg':
        return '(fopp %s)' % emit_arith(ir[1], params)
    if k == 'exp':
        return '(E %s)' % emit_arith(ir[1], params)
    raise Untranslatable('emit: unknown IR %r' % (ir,))


def emit(tr):
    """Coq text of SourcesGen.v: one definition per class, all with the uniform
    signature (a0 a1 a2 : K) (h1 h2 : bool) where h_k says whether the optional
    k-th argument was given."""
    L = ['(* GENERATED by tools/tr_sources.py from lcapy/oneport.py - do not edit *)',
         'Require Import LT.FieldSec LT.Sources.', '']
    for c in CLASSES:
        params, d = tr.out[c]
        if len(params) > 3:
            raise Untranslatable('class %s: more than three parameters' % c)
        body = '%s %s' % (d[0], ' '.join(emit_arith(x, params) for x in d[1:]))
        L.append('Definition gen_%s (K : fld) (jj omega0 : K) (E : K -> K) (a0 a1 a2 : K) (h0 h1 h2 : bool) : sdesc K := %s.' % (c, body))
    L += ['']
    return '\n'.join(L)


if __name__ == '__main__':
    t = SrcTranslator(sys.argv[1] if len(sys.argv) > 1 else '/repo/lcapy/oneport.py')
    t.translate_all()
    print(emit(t))
