"""C12 worker: runs the real Lcapy Fourier-family transforms on JSON cases (stdin ->
stdout), canonicalises what they return (tools/fourier_nf.py, exact) and
evaluates the numeric search oracle (mpmath quadrature of the defining bilateral
integral of the structured signal, tools/fourier_sig.py: independent of Lcapy
and SymPy; floats are used ONLY here, never in a verdict of equality).

case = {'id', 'kind': 'sig' | 'sshort' | 'hist', 'expr': source text, 'dom': 't' | 'f',
        'ops': [{'op': 'fwd', 'var': v} | {'op': 'inv'} | {'op': 'rt', 'var': v} |
                {'op': 'conv', 'var': v, 'to': v2} | {'op': 'sshort', 'var': v} | {'op': 'viatime', 'var': v}],
        'points': [[x0, P, sqrtP], ...], 'dt': 'p/q', 'sig': <json sig or null>, 'oracle': bool, 'xs': [floats as strings],
        'hist': [exprs]  (kind 'hist': transformed in this order in one process, caches kept) }
"""
import json
import os
import signal
import sys
import time
from fractions import Fraction

sys.path.insert(0, os.path.dirname(os.path.abspath(__file__)))
import sympy as sp
import mpmath as mp
import fourier_nf as NF
import fourier_sig as S

mp.mp.dps = 25


class Timeout(Exception):
    pass


def _alarm(signum, frame):
    raise Timeout()


signal.signal(signal.SIGALRM, _alarm)

import lcapy
from lcapy import expr as lexpr
from lcapy import f as Lf, omega as Lw, F as LF, Omega as LW, t as Lt, s as Ls
VARS = {'f': Lf, 'omega': Lw, 'F': LF, 'Omega': LW, 't': Lt}
METHOD = {'f': 'fourier', 'omega': 'angular_fourier', 'F': 'norm_fourier', 'Omega': 'norm_angular_fourier'}


def dt_symbols(e):
    return [q for q in e.free_symbols if str(q) == 'Delta_t']


def result_nf(X, case):
    """canonical forms of an Lcapy expression at the case's points (dt := the case's value)"""
    e = X.sympy
    D = Fraction(case['dt'])
    for q in dt_symbols(e):
        e = e.subs(q, sp.Rational(D.numerator, D.denominator))
    var = X.var
    out = []
    for x0, P, sP in case['points']:
        out.append(NF.nf_json(e, var, Fraction(x0), Fraction(P), Fraction(sP)))
    return out, e, var


NUM_MODULE = {
    'Heaviside': lambda x, *a: mp.mpf(1) if x > 0 else (mp.mpf(0) if x < 0 else mp.mpf(1) / 2),
    'rect': lambda x: mp.mpf(1) if abs(x) < 0.5 else (mp.mpf(0) if abs(x) > 0.5 else mp.mpf(1) / 2),
    'tri': lambda x: max(mp.mpf(0), 1 - abs(x)),
    'sincn': lambda x: mp.sincpi(x), 'sincu': lambda x: mp.sinc(x), 'sign': mp.sign,
    'trap': lambda x, a: (mp.mpf(1) if abs(x) - 0.5 <= -a / 2 else (mp.mpf(0) if abs(x) - 0.5 >= a / 2 else 0.5 - (abs(x) - 0.5) / a)) if a != 0
            else (mp.mpf(1) if abs(x) < 0.5 else mp.mpf(0)),
    'DiracDelta': lambda x, *a: mp.mpf(0), 'Abs': abs,
}


def numeric_values(e, var, xs):
    fn = sp.lambdify(var, e, modules=[NUM_MODULE, 'mpmath'])
    out = []
    for x in xs:
        v = mp.mpmathify(fn(mp.mpf(x)))
        out.append([x, mp.nstr(mp.re(v), 20), mp.nstr(mp.im(v), 20)])
    return out


def conv_reference(case, XA, op, varB):
    """the B-form obtained from Lcapy's own A-form by the SPECIFIED substitution var_A := (k_A / k_B) var_B,
    k_f = 1, k_omega = 2 pi, k_F = dt, k_Omega = 2 pi dt  (isolates the conversion method from the transform)"""
    D = Fraction(case['dt'])
    Dq = sp.Rational(D.numerator, D.denominator)
    kk = {'f': sp.Integer(1), 'omega': 2 * sp.pi, 'F': Dq, 'Omega': 2 * sp.pi * Dq}
    e = XA.sympy
    for q in dt_symbols(e):
        e = e.subs(q, Dq)
    tmp = sp.Symbol('__vb', real=True)
    e = e.subs(XA.var, kk[op['var']] / kk[op['to']] * tmp).subs(tmp, varB)
    try:
        return {'ref_nf': [NF.nf_json(e, varB, Fraction(x0), Fraction(P), Fraction(sP)) for x0, P, sP in case['points']]}
    except (NF.Uncanonical, ZeroDivisionError) as ex:
        return {'ref_uncanon': str(ex)[:200]}


def degenerate_delta(e, var):
    """the expression, as written, has an impulse over a denominator that vanishes at the impulse
    (texpr.FT's simplify() merges impulse terms and rational terms over a common denominator)"""
    try:
        n, d = e.as_numer_denom()
        if d.is_number:
            return False
        for dl in n.atoms(sp.DiracDelta):
            p = sp.Poly(dl.args[0], var)
            if p.degree() != 1:
                continue
            loc = -p.coeff_monomial(1) / p.coeff_monomial(var)
            if sp.simplify(d.subs(var, loc)) == 0:
                return True
    except Exception:
        return False
    return False


def run_op(case, X0, op, cache):
    """returns dict for one op; cache: already computed Lcapy objects of this case"""
    kind = op['op']
    if kind == 'fwd':
        key = ('fwd', op['var'])
        if key not in cache:
            cache[key] = X0(VARS[op['var']])
        return cache[key]
    if kind == 'inv':
        return X0(Lt)
    if kind == 'rt':
        key = ('fwd', op['var'])
        if key not in cache:
            cache[key] = X0(VARS[op['var']])
        return cache[key](Lt)
    if kind == 'conv':
        key = ('fwd', op['var'])
        if key not in cache:
            cache[key] = X0(VARS[op['var']])
        # the conversion method itself (x(A)(A) would bypass it)
        return getattr(cache[key], METHOD[op['to']])()
    if kind == 'sshort':
        return X0(VARS[op['var']], causal=True)
    if kind == 'viatime':
        return X0(Lt, causal=True)(VARS[op['var']])
    raise ValueError(kind)


def do_case(case):
    res = {'ops': []}
    t0 = time.time()
    if case['kind'] == 'hist':
        # a history of transforms in one process (the transformer caches persist between calls)
        for src in case['hist']:
            r = {}
            try:
                signal.alarm(case.get('timeout', 60))
                X = lexpr(src)(VARS[case['ops'][0]['var']])
                signal.alarm(0)
                r['str'] = str(X)
                try:
                    r['nf'] = result_nf(X, case)[0]
                except NF.Uncanonical as ex:
                    r['uncanon'] = str(ex)[:200]
                except ZeroDivisionError:
                    r['uncanon'] = 'pole at the evaluation point'
            except Timeout:
                r['error'] = 'timeout'
            except Exception as ex:
                signal.alarm(0)
                r['error'] = '%s: %s' % (type(ex).__name__, str(ex)[:200])
            res['ops'].append(r)
        res['secs'] = round(time.time() - t0, 2)
        return res
    try:
        X0 = lexpr(case['expr'])
    except Exception as ex:
        res['parse_error'] = '%s: %s' % (type(ex).__name__, str(ex)[:200])
        return res
    if case.get('want_input_nf'):
        try:
            res['input_nf'] = result_nf(X0, case)[0]
        except (NF.Uncanonical, ZeroDivisionError) as ex:
            res['input_uncanon'] = str(ex)[:200]
        # the behaviour of the open finding rt:oid:twoexp (SymPy fall-back of the inverse transformer returns
        # exp(-a*t) for exp(-a*abs(t))): the input with Abs dropped inside exponentials, for exact attribution
        try:
            e0 = X0.sympy
            if any(q.args[0].has(sp.Abs) for q in e0.atoms(sp.exp)):
                e1 = e0.replace(lambda q: isinstance(q, sp.exp) and q.args[0].has(sp.Abs),
                                lambda q: sp.exp(q.args[0].replace(lambda u: isinstance(u, sp.Abs), lambda u: u.args[0])))
                res['input_nf_absdropped'] = [NF.nf_json(e1, X0.var, Fraction(x0), Fraction(P), Fraction(sP)) for x0, P, sP in case['points']]
        except Exception:
            pass
    cache = {}
    for op in case['ops']:
        r = {}
        try:
            signal.alarm(case.get('timeout', 60))
            X = run_op(case, X0, op, cache)
            signal.alarm(0)
            r['str'] = str(X)
            e = X.sympy
            if op['op'] == 'fwd' and e.has(sp.DiracDelta) and degenerate_delta(e, X.var):
                r['degenerate_delta'] = True
            if e.has(sp.zoo) or e.has(sp.nan) or e.has(sp.oo):
                r['nonfinite'] = True
            elif e.has(sp.Integral) or e.has(sp.FourierTransform) or e.has(sp.InverseFourierTransform):
                r['notclosed'] = True
            else:
                try:
                    nf, e2, var = result_nf(X, case)
                    r['nf'] = nf
                    if op['op'] == 'conv':
                        r.update(conv_reference(case, cache[('fwd', op['var'])], op, var))
                except NF.Uncanonical as ex:
                    r['uncanon'] = str(ex)[:200]
                except ZeroDivisionError:
                    r['uncanon'] = 'pole at the evaluation point'
                if case.get('oracle') and op['op'] in ('fwd', 'inv', 'rt') and op.get('var', 'f') == 'f':
                    try:
                        ee = X.sympy
                        r['num'] = numeric_values(ee, X.var, case['xs'])
                    except Exception as ex:
                        r['num_error'] = '%s: %s' % (type(ex).__name__, str(ex)[:120])
        except Timeout:
            r['error'] = 'timeout'
        except Exception as ex:
            signal.alarm(0)
            r['error'] = '%s: %s' % (type(ex).__name__, str(ex)[:200])
        res['ops'].append(r)
    # the search oracle: quadrature of the defining integral of the structured signal
    if case.get('oracle') and case.get('sig') is not None:
        try:
            signal.alarm(120)
            sign = -1 if case['dom'] == 't' else 1
            q = []
            for x in case['xs']:
                v = S.quad_transform(case['sig'], mp.mpf(x), sign, mp)
                if v is None:
                    q = None
                    break
                q.append([x, mp.nstr(mp.re(v), 20), mp.nstr(mp.im(v), 20)])
            signal.alarm(0)
            res['quad'] = q
            if case['dom'] == 't' and q is not None:
                # original signal values, for the round trip
                res['sigvals'] = [[x, mp.nstr(mp.re(S.sig_num(case['sig'], mp.mpf(x), mp)), 20),
                                   mp.nstr(mp.im(S.sig_num(case['sig'], mp.mpf(x), mp)), 20)] for x in case['xs']]
        except Timeout:
            res['quad_error'] = 'timeout'
        except Exception as ex:
            signal.alarm(0)
            res['quad_error'] = '%s: %s' % (type(ex).__name__, str(ex)[:120])
    res['secs'] = round(time.time() - t0, 2)
    return res


def main():
    cases = json.load(sys.stdin)
    out = []
    for c in cases:
        try:
            out.append(do_case(c))
        except Exception as ex:
            signal.alarm(0)
            out.append({'crash': '%s: %s' % (type(ex).__name__, str(ex)[:300]), 'ops': []})
    json.dump(out, sys.stdout)


if __name__ == '__main__':
    main()
