"""Fail-closed translator for C18: reads the *source text* of the lcapy modules
that define quantities, domains, expression classes and the quantity algebra
tables with `ast` (never imports or runs them) and emits the finite tables as a
Coq record `T : tables` (file QuantityGen.v) for the hand-written theory
coq/theory/QuantityBase.v / QuantityModel.v.

What is read (anything outside the recognised shape raises Untranslatable):
  expr.py        Expr._mul_mapping / Expr._div_mapping: dict literals
                 {(str, str): str}; every read of state.loose_units /
                 state.check_units / state.canonical_units with its enclosing function
  domains.py     the `domains` dict literal {str: ClassName}; class attributes
                 `domain`, `domain_units`, `is_*` of each Domain class (MRO)
  quantities.py  the `quantities` dict literal {str: MixinName}
  *mixin.py, quantity.py   class attributes `quantity`, `is_*` of each mixin
  exprclasses.py the `exprclasses` dict literal {domain: {quantity: ClassName}};
                 for each class its bases, and via the C3 MRO over the class
                 definitions found in the lcapy package: `quantity`, `domain`,
                 `_default_units`, `is_*` flags, and which class defines
                 __mul__, __truediv__, __rtruediv__, __add__, __sub__, __eq__,
                 __pow__, __compat_add__, _mul_compatible_domains, ... (so that
                 the hand model's dispatch can be checked against the hierarchy)
  *expr.py, phasor.py  every call `<x>.change(result, <domain>, units_scale=<unit>)`
                 with its enclosing class and method (the unit change of a
                 domain transform)
  config.py      default values of loose_units, check_units, canonical_units

Unit expressions: uu.<unit> | u.<unit> | S.One | 1 | e*e | e/e | e**int | (e),
with <unit> in the SI table UNIT_VEC below (exponents of V, A, s, rad written
from the SI definitions, not taken from lcapy.units).
"""
import ast
import hashlib
import os
import warnings


class Untranslatable(Exception):
    pass


def fail(fname, node, why):
    raise Untranslatable('%s:%s: %s: %s' % (fname, getattr(node, 'lineno', '?'), why,
                                            (ast.dump(node)[:160] if isinstance(node, ast.AST) else str(node))))


# exponents of (V, A, s, rad) from the SI definitions
UNIT_VEC = {
    'volt': (1, 0, 0, 0), 'volts': (1, 0, 0, 0), 'V': (1, 0, 0, 0),
    'ampere': (0, 1, 0, 0), 'amperes': (0, 1, 0, 0), 'A': (0, 1, 0, 0),
    'ohm': (1, -1, 0, 0), 'ohms': (1, -1, 0, 0),
    'siemens': (-1, 1, 0, 0), 'S': (-1, 1, 0, 0),
    'watt': (1, 1, 0, 0), 'watts': (1, 1, 0, 0), 'W': (1, 1, 0, 0),
    'Hz': (0, 0, -1, 0), 'hertz': (0, 0, -1, 0),
    's': (0, 0, 1, 0), 'second': (0, 0, 1, 0), 'seconds': (0, 0, 1, 0),
    'rad': (0, 0, 0, 1), 'radian': (0, 0, 0, 1), 'radians': (0, 0, 0, 1),
}

QUANTITIES = ['undefined', 'voltage', 'current', 'admittance', 'impedance', 'transfer',
              'voltagesquared', 'currentsquared', 'admittancesquared', 'impedancesquared', 'power']
DOMAINS = ['undefined', 'constant', 'constant time', 'constant frequency response', 'time', 'laplace',
           'fourier', 'norm fourier', 'angular fourier', 'norm angular fourier', 'frequency response',
           'angular frequency response', 'phasor', 'phasor ratio', 'fourier noise', 'angular fourier noise',
           'discrete time', 'discrete fourier', 'Z', 'superposition']
QCOQ = {'undefined': 'Qundef', 'voltage': 'Qvoltage', 'current': 'Qcurrent', 'admittance': 'Qadmittance',
        'impedance': 'Qimpedance', 'transfer': 'Qtransfer', 'voltagesquared': 'Qvoltagesquared',
        'currentsquared': 'Qcurrentsquared', 'admittancesquared': 'Qadmittancesquared',
        'impedancesquared': 'Qimpedancesquared', 'power': 'Qpower'}
DCOQ = {'undefined': 'Dundefined', 'constant': 'Dconstant', 'constant time': 'Dconstant_time',
        'constant frequency response': 'Dconstant_fr', 'time': 'Dtime', 'laplace': 'Dlaplace',
        'fourier': 'Dfourier', 'norm fourier': 'Dnorm_fourier', 'angular fourier': 'Dangular_fourier',
        'norm angular fourier': 'Dnorm_angular_fourier', 'frequency response': 'Dfreq_resp',
        'angular frequency response': 'Dang_freq_resp', 'phasor': 'Dphasor', 'phasor ratio': 'Dphasor_ratio',
        'fourier noise': 'Dfourier_noise', 'angular fourier noise': 'Dang_fourier_noise',
        'discrete time': 'Ddiscrete_time', 'discrete fourier': 'Ddiscrete_fourier', 'Z': 'DZ',
        'superposition': 'Dsuperposition'}
# flags used by the model (Coq constructor names are F_<name>)
DFLAGS = ['is_undefined_domain', 'is_constant_domain', 'is_constant_time_domain',
          'is_constant_frequency_response_domain', 'is_time_domain', 'is_laplace_domain', 'is_fourier_domain',
          'is_angular_fourier_domain', 'is_frequency_response_domain', 'is_angular_frequency_response_domain',
          'is_phasor_domain', 'is_phasor_ratio_domain', 'is_transform_domain', 'is_discrete_time_domain',
          'is_superposition_domain']
QFLAGS = ['is_undefined', 'is_transfer', 'is_immittance', 'is_ratio', 'is_signal', 'is_squared', 'is_power',
          'is_voltage', 'is_current', 'is_impedance', 'is_admittance', 'is_always_causal']
OWNERS = ['Expr', 'ExprDomain', 'TimeDomainExpression', 'DiscreteTimeDomainExpression', 'PhasorExpression',
          'PhasorDomainExpression', 'PhasorRatioDomainExpression', 'FrequencyResponseDomainExpression',
          'AngularFrequencyResponseDomainExpression', 'ConstantTimeDomainExpression',
          'ConstantFrequencyResponseDomainExpression', 'NoiseExpression', 'ImpedanceMixin', 'AdmittanceMixin']
MCOQ = {'__mul__': 'M_mul', '__rmul__': 'M_rmul', '__truediv__': 'M_truediv', '__rtruediv__': 'M_rtruediv',
        '__add__': 'M_add', '__radd__': 'M_radd', '__sub__': 'M_sub', '__rsub__': 'M_rsub', '__eq__': 'M_eq',
        '__ne__': 'M_ne', '__pow__': 'M_pow', '__neg__': 'M_neg', '__compat_add__': 'M_compat_add',
        '_mul_compatible_domains': 'M_mul_compatible_domains', '_div_compatible_domains': 'M_div_compatible_domains',
        '_add_compatible_domains': 'M_add_compatible_domains', '_mul_domain': 'M_mul_domain',
        '_div_domain': 'M_div_domain', '_class_by_quantity': 'M_class_by_quantity', '_class_get': 'M_class_get',
        'as_constant': 'M_as_constant', 'change': 'M_change'}
METHODS = ['__mul__', '__rmul__', '__truediv__', '__rtruediv__', '__add__', '__radd__', '__sub__', '__rsub__',
           '__eq__', '__ne__', '__pow__', '__neg__', '__compat_add__', '_mul_compatible_domains',
           '_div_compatible_domains', '_add_compatible_domains', '_mul_domain', '_div_domain',
           '_class_by_quantity', '_class_get', 'as_constant', 'change']


class Module:
    def __init__(self, repo, name):
        self.name = name
        self.path = os.path.join(repo, 'lcapy', name + '.py')
        self.rel = 'lcapy/%s.py' % name
        if not os.path.exists(self.path):
            raise Untranslatable('%s: module not found' % self.rel)
        self.src = open(self.path).read()
        self.sha = hashlib.sha256(self.src.encode()).hexdigest()
        try:
            with warnings.catch_warnings():
                warnings.simplefilter('ignore')
                self.tree = ast.parse(self.src)
        except SyntaxError as e:
            raise Untranslatable('%s: syntax error %s' % (self.rel, e))
        self.classes = {}
        self.imports = {}     # local name -> (module, original name)
        self.assigns = {}
        for n in ast.walk(self.tree):
            if isinstance(n, ast.ImportFrom) and n.level == 1 and n.module:
                for a in n.names:
                    self.imports[a.asname or a.name] = (n.module, a.name)
        for n in self.tree.body:
            if isinstance(n, ast.ClassDef):
                self.classes[n.name] = n
            elif isinstance(n, ast.Assign) and len(n.targets) == 1 and isinstance(n.targets[0], ast.Name):
                self.assigns[n.targets[0].id] = n.value


class Translator:
    def __init__(self, repo):
        self.repo = repo
        self.mods = {}
        self.shas = {}
        self._mro = {}
        self.load()

    def mod(self, name):
        if name not in self.mods:
            self.mods[name] = Module(self.repo, name)
            self.shas[self.mods[name].rel] = self.mods[name].sha
        return self.mods[name]

    # ---- class resolution ------------------------------------------------
    def find_class(self, modname, cname, depth=0):
        """-> (module name, ClassDef) or None when the class is not defined in the lcapy package"""
        if depth > 8:
            return None
        if not os.path.exists(os.path.join(self.repo, 'lcapy', modname + '.py')):
            return None
        m = self.mod(modname)
        if cname in m.classes:
            return (modname, m.classes[cname])
        if cname in m.imports:
            mm, orig = m.imports[cname]
            return self.find_class(mm, orig, depth + 1)
        return None

    def mro(self, modname, cname):
        key = (modname, cname)
        if key in self._mro:
            return self._mro[key]
        found = self.find_class(modname, cname)
        if found is None:
            self._mro[key] = []
            return []
        dm, cd = found
        key2 = (dm, cd.name)
        seqs = []
        bases = []
        for b in cd.bases:
            if isinstance(b, ast.Name):
                if b.id == 'object':
                    continue
                fb = self.find_class(dm, b.id)
                if fb is None:
                    # external base (e.g. sympy): opaque, contributes nothing
                    continue
                bases.append((fb[0], fb[1].name))
            else:
                fail(self.mod(dm).rel, b, 'unsupported base class expression')
        for b in bases:
            seqs.append(list(self.mro(*b)))
        seqs.append(list(bases))
        res = [key2]
        seqs = [s for s in seqs if s]
        while seqs:
            cand = None
            for s in seqs:
                h = s[0]
                if not any(h in t[1:] for t in seqs):
                    cand = h
                    break
            if cand is None:
                raise Untranslatable('%s: inconsistent MRO for %s' % (self.mod(dm).rel, cname))
            res.append(cand)
            seqs = [[x for x in s if x != cand] for s in seqs]
            seqs = [s for s in seqs if s]
        self._mro[key] = res
        self._mro[key2] = res
        return res

    def class_attr(self, modname, cname, attr):
        """first class-level assignment of `attr` along the MRO -> (owner, value node) or None"""
        for (dm, cn) in self.mro(modname, cname):
            cd = self.mod(dm).classes[cn]
            for n in cd.body:
                if isinstance(n, ast.Assign):
                    for t in n.targets:
                        if isinstance(t, ast.Name) and t.id == attr:
                            return ((dm, cn), n.value)
                elif isinstance(n, ast.FunctionDef) and n.name == attr:
                    return ((dm, cn), n)
        return None

    def flag(self, modname, cname, attr, default=None):
        r = self.class_attr(modname, cname, attr)
        if r is None:
            if default is None:
                raise Untranslatable('lcapy/%s.py: class %s has no attribute %s' % (modname, cname, attr))
            return default
        v = r[1]
        if isinstance(v, ast.Constant) and isinstance(v.value, bool):
            return v.value
        fail(self.mod(r[0][0]).rel, v, 'flag %s.%s is not a boolean literal' % (cname, attr))

    def strattr(self, modname, cname, attr):
        r = self.class_attr(modname, cname, attr)
        if r is None:
            raise Untranslatable('lcapy/%s.py: class %s has no attribute %s' % (modname, cname, attr))
        v = r[1]
        if isinstance(v, ast.Constant) and isinstance(v.value, str):
            return v.value
        fail(self.mod(r[0][0]).rel, v, 'attribute %s.%s is not a string literal' % (cname, attr))

    # ---- unit expressions --------------------------------------------------
    def unit(self, rel, node):
        if isinstance(node, ast.Constant):
            if node.value == 1 and not isinstance(node.value, bool):
                return (0, 0, 0, 0)
            fail(rel, node, 'numeric factor in a unit expression')
        if isinstance(node, ast.Attribute) and isinstance(node.value, ast.Name):
            if node.value.id in ('uu', 'u'):
                if node.attr not in UNIT_VEC:
                    fail(rel, node, 'unknown unit')
                return UNIT_VEC[node.attr]
            if node.value.id in ('S', 'sym') and node.attr == 'One':
                return (0, 0, 0, 0)
            if node.value.id == 'S' and node.attr == 'one':
                return (0, 0, 0, 0)
        if isinstance(node, ast.BinOp):
            if isinstance(node.op, ast.Mult):
                a, b = self.unit(rel, node.left), self.unit(rel, node.right)
                return tuple(x + y for x, y in zip(a, b))
            if isinstance(node.op, ast.Div):
                a, b = self.unit(rel, node.left), self.unit(rel, node.right)
                return tuple(x - y for x, y in zip(a, b))
            if isinstance(node.op, ast.Pow):
                a = self.unit(rel, node.left)
                e = node.right
                if isinstance(e, ast.UnaryOp) and isinstance(e.op, ast.USub) and isinstance(e.operand, ast.Constant):
                    k = -e.operand.value
                elif isinstance(e, ast.Constant):
                    k = e.value
                else:
                    fail(rel, node, 'non-literal exponent in a unit expression')
                if not isinstance(k, int) or isinstance(k, bool):
                    fail(rel, node, 'non-integer exponent in a unit expression')
                return tuple(x * k for x in a)
        fail(rel, node, 'unsupported unit expression')

    # ---- dict literals ---------------------------------------------------------
    def str_dict(self, rel, node, what):
        if not isinstance(node, ast.Dict):
            fail(rel, node, '%s is not a dict literal' % what)
        out = []
        for k, v in zip(node.keys, node.values):
            if not (isinstance(k, ast.Constant) and isinstance(k.value, str)):
                fail(rel, k if k is not None else node, '%s: key is not a string literal' % what)
            out.append((k.value, v))
        return out

    # ---- main -----------------------------------------------------------------
    def load(self):
        # --- quantities
        qm = self.mod('quantities')
        if 'quantities' not in qm.assigns:
            raise Untranslatable('lcapy/quantities.py: no `quantities` dict')
        self.quantity_mixin = {}
        for k, v in self.str_dict(qm.rel, qm.assigns['quantities'], 'quantities'):
            if not isinstance(v, ast.Name):
                fail(qm.rel, v, 'quantities value is not a class name')
            if k in self.quantity_mixin:
                fail(qm.rel, v, 'duplicate key %r in quantities' % k)
            self.quantity_mixin[k] = v.id
        if ['undefined'] + list(self.quantity_mixin) != QUANTITIES:
            raise Untranslatable('lcapy/quantities.py: the set/order of quantities %s differs from the one the Coq theory '
                                 'was written for %s' % (list(self.quantity_mixin), QUANTITIES[1:]))
        self.qflag = {}
        for q, mix in self.quantity_mixin.items():
            if self.find_class('quantities', mix) is None:
                raise Untranslatable('lcapy/quantities.py: class %s not found' % mix)
            if self.strattr('quantities', mix, 'quantity') != q:
                raise Untranslatable('lcapy/quantities.py: %s.quantity != %r' % (mix, q))
            # attributes of the mixin class itself (exprmap reads quantitycls.is_ratio)
            self.qflag[q] = {'is_ratio': self.flag('quantities', mix, 'is_ratio', default=False)}
        # --- domains
        dm = self.mod('domains')
        if 'domains' not in dm.assigns:
            raise Untranslatable('lcapy/domains.py: no `domains` dict')
        self.domain_class = {}
        for k, v in self.str_dict(dm.rel, dm.assigns['domains'], 'domains'):
            if not isinstance(v, ast.Name):
                fail(dm.rel, v, 'domains value is not a class name')
            if k in self.domain_class:
                fail(dm.rel, v, 'duplicate key %r in domains' % k)
            self.domain_class[k] = v.id
        if list(self.domain_class) != DOMAINS:
            raise Untranslatable('lcapy/domains.py: the set/order of domains %s differs from the one the Coq theory was '
                                 'written for' % list(self.domain_class))
        self.dflag = {}
        self.dom_units = {}
        for d, cn in self.domain_class.items():
            if self.strattr('domains', cn, 'domain') != d:
                raise Untranslatable('lcapy/domains.py: %s.domain != %r' % (cn, d))
            self.dflag[d] = {f: self.flag('domains', cn, f, default=False) for f in DFLAGS}
            r = self.class_attr('domains', cn, 'domain_units')
            if r is None:
                raise Untranslatable('lcapy/domains.py: %s has no domain_units' % cn)
            self.dom_units[d] = self.unit(dm.rel, r[1])
        # --- exprclasses
        em = self.mod('exprclasses')
        if 'exprclasses' not in em.assigns:
            raise Untranslatable('lcapy/exprclasses.py: no `exprclasses` dict')
        self.classmap = {}    # (d, q) -> class name
        self.classinfo = {}   # class name -> dict
        for d, v in self.str_dict(em.rel, em.assigns['exprclasses'], 'exprclasses'):
            if d not in DOMAINS:
                fail(em.rel, v, 'unknown domain %r in exprclasses' % d)
            for q, c in self.str_dict(em.rel, v, 'exprclasses[%r]' % d):
                if q not in QUANTITIES:
                    fail(em.rel, c, 'unknown quantity %r in exprclasses' % q)
                if not isinstance(c, ast.Name):
                    fail(em.rel, c, 'exprclasses value is not a class name')
                if (d, q) in self.classmap:
                    fail(em.rel, c, 'duplicate key in exprclasses[%r]' % d)
                self.classmap[(d, q)] = c.id
        self.class_domains = [d for d in DOMAINS if any((d, q) in self.classmap for q in QUANTITIES)]
        for d in self.class_domains:
            for q in QUANTITIES:
                if (d, q) not in self.classmap:
                    raise Untranslatable('lcapy/exprclasses.py: exprclasses[%r] has no entry for %r' % (d, q))
        for (d, q), cn in self.classmap.items():
            if cn in self.classinfo:
                raise Untranslatable('lcapy/exprclasses.py: class %s appears twice in exprclasses' % cn)
            if self.find_class('exprclasses', cn) is None:
                raise Untranslatable('lcapy/exprclasses.py: class %s not found' % cn)
            info = {'name': cn, 'key': (d, q)}
            info['quantity'] = self.strattr('exprclasses', cn, 'quantity')
            info['domain'] = self.strattr('exprclasses', cn, 'domain')
            r = self.class_attr('exprclasses', cn, '_default_units')
            if r is None:
                info['units'] = (0, 0, 0, 0)      # Expr.__init__: except: self._units = S.One
                info['units_owner'] = None
            else:
                info['units'] = self.unit(self.mod(r[0][0]).rel, r[1])
                info['units_owner'] = r[0][1]
            info['flags'] = {}
            for f in DFLAGS + QFLAGS:
                info['flags'][f] = self.flag('exprclasses', cn, f, default=False)
            info['methods'] = {}
            for mname in METHODS:
                r = self.class_attr('exprclasses', cn, mname)
                info['methods'][mname] = r[0][1] if r else None
            info['mro'] = [c for (_, c) in self.mro('exprclasses', cn)]
            self.classinfo[cn] = info
        # --- tables
        xm = self.mod('expr')
        if 'Expr' not in xm.classes:
            raise Untranslatable('lcapy/expr.py: class Expr not found')
        self.tables = {}
        for n in xm.classes['Expr'].body:
            if isinstance(n, ast.Assign) and len(n.targets) == 1 and isinstance(n.targets[0], ast.Name) \
                    and n.targets[0].id in ('_mul_mapping', '_div_mapping'):
                name = n.targets[0].id
                if name in self.tables:
                    fail(xm.rel, n, '%s assigned twice' % name)
                if not isinstance(n.value, ast.Dict):
                    fail(xm.rel, n.value, '%s is not a dict literal' % name)
                rows = []
                for k, v in zip(n.value.keys, n.value.values):
                    if not (isinstance(k, ast.Tuple) and len(k.elts) == 2 and
                            all(isinstance(e, ast.Constant) and isinstance(e.value, str) for e in k.elts) and
                            isinstance(v, ast.Constant) and isinstance(v.value, str)):
                        fail(xm.rel, k if k is not None else n, '%s entry is not (str, str): str' % name)
                    row = (k.elts[0].value, k.elts[1].value, v.value)
                    for s in row:
                        if s != 'constant' and (s not in QUANTITIES or s == 'undefined'):
                            fail(xm.rel, k, "%s: unknown quantity name %r" % (name, s))
                    rows.append(row + (k.lineno,))
                self.tables[name] = rows
        for name in ('_mul_mapping', '_div_mapping'):
            if name not in self.tables:
                raise Untranslatable('lcapy/expr.py: Expr.%s not found' % name)
        # every other assignment to the tables anywhere in the package would invalidate the translation
        for n in ast.walk(xm.tree):
            if isinstance(n, (ast.Subscript, ast.Attribute)) and isinstance(getattr(n, 'ctx', None), (ast.Store, ast.Del)):
                s = ast.unparse(n)
                if '_mul_mapping' in s or '_div_mapping' in s:
                    fail(xm.rel, n, 'table modified after its definition')
        # --- does __mul__ / __truediv__ restore x.units after x = x.as_constant()
        self.keeps_units = {}
        for mname in ('__mul__', '__truediv__'):
            fds = [n for n in xm.classes['Expr'].body if isinstance(n, ast.FunctionDef) and n.name == mname]
            if len(fds) != 1:
                raise Untranslatable('lcapy/expr.py: Expr.%s not found (or defined twice)' % mname)
            blocks = [n for n in ast.walk(fds[0]) if isinstance(n, ast.If) and ast.unparse(n.test) == 'x.is_immittance']
            if len(blocks) != 1 or len(blocks[0].body) != 1 or not isinstance(blocks[0].body[0], ast.Try) or blocks[0].orelse:
                fail(xm.rel, fds[0], 'Expr.%s: expected exactly one `if x.is_immittance: try: ...` block' % mname)
            body = blocks[0].body[0].body
            srcs = [ast.unparse(b) for b in body]
            if srcs == ['x = x.as_constant()']:
                self.keeps_units[mname] = False
            elif srcs == ['xunits = x.units', 'x = x.as_constant()', 'x.units = xunits']:
                self.keeps_units[mname] = True
            else:
                fail(xm.rel, blocks[0], 'Expr.%s: unrecognised as_constant block %s' % (mname, srcs))
        # --- source shape of four small mechanisms that the hand model is parametrised by (each must be one of the two
        #     recognised shapes, otherwise the translation fails closed)
        def method(cd, name, rel):
            fds = [n for n in cd.body if isinstance(n, ast.FunctionDef) and n.name == name]
            if len(fds) != 1:
                raise Untranslatable('%s: %s.%s not found (or defined twice)' % (rel, cd.name, name))
            return fds[0]

        def nodoc(body):
            return [b for b in body if not (isinstance(b, ast.Expr) and isinstance(b.value, ast.Constant))]
        ex = xm.classes['Expr']
        # (a) conversion branch of __compat_add__
        ca = method(ex, '__compat_add__', xm.rel)
        PH = 'self.is_phasor_ratio_domain and x.is_angular_fourier_domain'
        GUARD = "self.quantity != x.quantity and 'undefined' not in (self.quantity, x.quantity)"
        CONV = ['self.is_phasor_ratio_domain and x.is_angular_fourier_domain', 'self.is_angular_fourier_domain and x.is_phasor_ratio_domain',
                'self.is_angular_frequency_response_domain and x.is_angular_fourier_domain',
                'self.is_angular_fourier_domain and x.is_angular_frequency_response_domain']

        def chain_tests(n):
            out = []
            while True:
                out.append(ast.unparse(n.test))
                if len(n.orelse) == 1 and isinstance(n.orelse[0], ast.If):
                    n = n.orelse[0]
                else:
                    if n.orelse:
                        return None
                    return out
        hits = []
        for st in ca.body:
            if isinstance(st, ast.If):
                ts = chain_tests(st)
                if ts == CONV:
                    hits.append(False)
                elif ts == [GUARD] + CONV and len(st.body) == 1 and isinstance(st.body[0], ast.Pass):
                    hits.append(True)
                elif ts and any(t in CONV or t == GUARD for t in ts):
                    fail(xm.rel, st, 'Expr.__compat_add__: unrecognised shape of the phasor conversion branches')
        if len(hits) != 1:
            fail(xm.rel, ca, 'Expr.__compat_add__: phasor conversion branches not found exactly once')
        self.compat_guard = hits[0]
        # (a') how check_units compares the operand units: the canonical unit expressions, or the simplified ratio
        REST = 'self.sympy != 0 and (x.sympy != 0) and (not (state.loose_units and (self.is_undefined or x.is_undefined)))'
        blocks = [st for st in ca.body if isinstance(st, ast.If) and ast.unparse(st.test) == 'state.check_units']
        if len(blocks) != 1 or blocks[0].orelse:
            fail(xm.rel, ca, 'Expr.__compat_add__: expected exactly one `if state.check_units:` block')
        bsrc = [ast.unparse(b) for b in blocks[0].body]
        inner = blocks[0].body[-1]
        if not (isinstance(inner, ast.If) and not inner.orelse and len(inner.body) == 1 and
                ast.unparse(inner.body[0]).startswith('self._incompatible(x, op, ')):
            fail(xm.rel, blocks[0], 'Expr.__compat_add__: unrecognised check_units block')
        test = ast.unparse(inner.test)
        if bsrc[:-1] == ['sunits = self.canonical_units', 'xunits = x.canonical_units'] and test == 'sunits != xunits and ' + REST:
            self.units_cmp = 'canonical'
        elif bsrc[:-1] == [] and test == 'units.simplify_units(self.units / x.units) != 1 and ' + REST:
            self.units_cmp = 'ratio'
        else:
            fail(xm.rel, inner, 'Expr.__compat_add__: unrecognised comparison of the operand units')
        # (b) units of a sum
        SUM_UNITS = ['for operand in (self, x):\n    if operand.__class__ is cls and operand.sympy != 0:\n        ret.units = operand.units\n        break',
                     'return ret']
        shapes = []
        for mname, ret0, ret1 in (('__add__', 'return cls(result, **assumptions)', 'return self._sum_units(cls(result, **assumptions), cls, x)'),
                                  ('__sub__', 'return cls(self.sympy - x.sympy, **assumptions)',
                                   'return self._sum_units(cls(self.sympy - x.sympy, **assumptions), cls, x)')):
            fd = method(ex, mname, xm.rel)
            last = ast.unparse(fd.body[-1])
            if last == ret0:
                shapes.append(False)
            elif last == ret1:
                shapes.append(True)
            else:
                fail(xm.rel, fd.body[-1], 'Expr.%s: unrecognised return statement' % mname)
            for n in ast.walk(fd):
                if isinstance(n, ast.Attribute) and n.attr == 'units' and isinstance(n.ctx, ast.Store):
                    fail(xm.rel, n, 'Expr.%s assigns units in an unrecognised way' % mname)
        if shapes[0] != shapes[1]:
            fail(xm.rel, ex, 'Expr.__add__ and Expr.__sub__ treat the units of the result differently')
        self.add_keeps_units = shapes[0]
        if self.add_keeps_units:
            su = method(ex, '_sum_units', xm.rel)
            if [a.arg for a in su.args.args] != ['self', 'ret', 'cls', 'x'] or [ast.unparse(b) for b in nodoc(su.body)] != SUM_UNITS:
                fail(xm.rel, su, 'Expr._sum_units: unrecognised body')
        # (c) the quantity mixins' __rtruediv__
        shapes = []
        for modname, cname, other in (('impedancemixin', 'ImpedanceMixin', 'admittance'), ('admittancemixin', 'AdmittanceMixin', 'impedance')):
            mm = self.mod(modname)
            if cname not in mm.classes:
                raise Untranslatable('%s: class %s not found' % (mm.rel, cname))
            fd = method(mm.classes[cname], '__rtruediv__', mm.rel)
            body = [ast.unparse(b) for b in nodoc(fd.body)]
            pre = 'x = expr(x)'
            post = 'return super(%s, self).__rtruediv__(x)' % cname
            b0 = 'if x.is_constant:\n    from .%s import %s\n    return %s(x.expr / self.expr)' % (other, other, other)
            b1 = ('if x.is_constant:\n    from .%s import %s\n    ret = %s(x.expr / self.expr)\n    ret.units = x.units / self.units\n'
                  '    return ret' % (other, other, other))
            if body == [pre, b0, post]:
                shapes.append(False)
            elif body == [pre, b1, post]:
                shapes.append(True)
            else:
                fail(mm.rel, fd, '%s.__rtruediv__: unrecognised body' % cname)
        if shapes[0] != shapes[1]:
            fail(xm.rel, ex, 'ImpedanceMixin.__rtruediv__ and AdmittanceMixin.__rtruediv__ differ in how they set units')
        self.rdiv_keeps_units = shapes[0]
        # (d) TimeDomainExpression.FT
        tm = self.mod('texpr')
        if 'TimeDomainExpression' not in tm.classes:
            raise Untranslatable('lcapy/texpr.py: class TimeDomainExpression not found')
        fd = method(tm.classes['TimeDomainExpression'], 'FT', tm.rel)
        body = [ast.unparse(b) for b in fd.body]
        try:
            i = [k for k, b in enumerate(body) if b.startswith('result = self.change(result, domain=')][0]
        except IndexError:
            fail(tm.rel, fd, 'TimeDomainExpression.FT: no `result = self.change(result, domain=...)` statement')
        tail = body[i + 1:]
        if body[i] != "result = self.change(result, domain='fourier', units_scale=uu.s, **assumptions)":
            fail(tm.rel, fd, 'TimeDomainExpression.FT: unrecognised change() call')
        if not tail or tail[-1] != 'return result':
            fail(tm.rel, fd, 'TimeDomainExpression.FT: does not end with `return result`')
        # the statements in between may rebuild `result` (result(var), expand, simplify, ...) but must not touch .units,
        # except for the save/restore pair  units = result.units ... result.units = units  around them
        saves = tail[0] == 'units = result.units'
        restores = len(tail) >= 2 and tail[-2] == 'result.units = units'
        if saves != restores:
            fail(tm.rel, fd, 'TimeDomainExpression.FT: units are saved but not restored (or the reverse)')
        middle = fd.body[i + 1 + (1 if saves else 0):len(fd.body) - 1 - (1 if restores else 0)]
        if 'result = result(var)' not in [ast.unparse(m) for m in middle]:
            fail(tm.rel, fd, 'TimeDomainExpression.FT: no `result = result(var)` after change()')
        for m in middle:
            for n in ast.walk(m):
                if (isinstance(n, ast.Attribute) and n.attr in ('units', '_units')) or (isinstance(n, ast.Name) and n.id == 'units'):
                    fail(tm.rel, m, 'TimeDomainExpression.FT: the units are touched between change() and return')
        self.ft_keeps_units = saves
        # (e) ExprDomain.as_quantity: which as_<x>() each quantity name is dispatched to, and which class each as_<x>() builds
        em2 = self.mod('exprdomain')
        if 'ExprDomain' not in em2.classes:
            raise Untranslatable('lcapy/exprdomain.py: class ExprDomain not found')
        edc = em2.classes['ExprDomain']
        self.as_method = {}       # method name -> quantity it constructs, or 'self'
        for n in edc.body:
            if isinstance(n, ast.FunctionDef) and n.name.startswith('as_') and n.name not in (
                    'as_quantity', 'as_domain', 'as_constant', 'as_superposition'):
                b = [ast.unparse(x) for x in nodoc(n.body)]
                if b == ['return self']:
                    self.as_method[n.name] = 'self'
                    continue
                mm = None
                if len(b) == 1 and b[0].startswith("return self._class_by_quantity('") and b[0].endswith("')(self)"):
                    mm = b[0][len("return self._class_by_quantity('"):-len("')(self)")]
                if mm is None or mm not in QUANTITIES:
                    fail(em2.rel, n, 'ExprDomain.%s: unrecognised body' % n.name)
                self.as_method[n.name] = mm
        aq = method(edc, 'as_quantity', em2.rel)
        if [a.arg for a in aq.args.args] != ['self', 'quantity']:
            fail(em2.rel, aq, 'ExprDomain.as_quantity: unexpected signature')
        ab = nodoc(aq.body)
        if len(ab) != 2 or not isinstance(ab[0], ast.If) or not isinstance(ab[1], ast.Raise):
            fail(em2.rel, aq, 'ExprDomain.as_quantity: expected an if/elif chain followed by raise')
        self.asq = {}             # quantity name -> quantity constructed | 'self'
        node = ab[0]
        while True:
            t = node.test
            if not (isinstance(t, ast.Compare) and isinstance(t.left, ast.Name) and t.left.id == 'quantity' and len(t.ops) == 1
                    and isinstance(t.ops[0], ast.Eq) and isinstance(t.comparators[0], ast.Constant)
                    and t.comparators[0].value in QUANTITIES):
                fail(em2.rel, node, 'ExprDomain.as_quantity: unrecognised test')
            qn = t.comparators[0].value
            bsrc = [ast.unparse(x) for x in node.body]
            if len(bsrc) != 1 or not (bsrc[0].startswith('return self.as_') and bsrc[0].endswith('()')):
                fail(em2.rel, node, 'ExprDomain.as_quantity: unrecognised branch body')
            mname = bsrc[0][len('return self.'):-2]
            if mname not in self.as_method:
                fail(em2.rel, node, 'ExprDomain.as_quantity: dispatch to unknown method %s' % mname)
            if qn in self.asq:
                pass          # an earlier branch wins
            else:
                self.asq[qn] = self.as_method[mname]
            if len(node.orelse) == 1 and isinstance(node.orelse[0], ast.If):
                node = node.orelse[0]
            elif not node.orelse:
                break
            else:
                fail(em2.rel, node, 'ExprDomain.as_quantity: unexpected else branch')
        # (g) Expr.magnitude of a real-valued expression
        mg = method(ex, 'magnitude', xm.rel)
        blocks = [st for st in mg.body if isinstance(st, ast.If) and ast.unparse(st.test) == 'self.is_real']
        if len(blocks) != 1 or blocks[0].orelse:
            fail(xm.rel, mg, 'Expr.magnitude: expected exactly one `if self.is_real:` block')
        b = [ast.unparse(x) for x in blocks[0].body]
        if b == ['dst = expr(abs(self.sympy))', "dst.part = 'magnitude'", 'return dst']:
            self.mag_real_keeps = False
        elif b == ['dst = self.__class__(abs(self.sympy), **self.assumptions)', "dst.part = 'magnitude'", 'return dst']:
            self.mag_real_keeps = True
        else:
            fail(xm.rel, blocks[0], 'Expr.magnitude: unrecognised real-valued branch')
        # (h) do the rebuilding methods give the result the units of self; class chosen by convolve()
        def body_src(name):
            return [ast.unparse(b) for b in nodoc(method(ex, name, xm.rel).body)]

        def units_stores(name):
            return [ast.unparse(st) for st in ast.walk(method(ex, name, xm.rel))
                    if isinstance(st, (ast.Assign, ast.AugAssign)) and 'units' in ast.unparse(st.targets[0] if isinstance(st, ast.Assign) else st.target)]
        self.keeps = {'sign': False, 'expand': False, 'subs': False}    # generic wrappers / _subs1: not switchable
        for name, key, val in (('__abs__', 'abs', 'self.abs'), ('conjugate', 'conjugate', 'sym.conjugate(self.sympy)'),
                               ('copy', 'copy', 'self.sympy')):
            b = body_src(name)
            if b == ['return self.__class__(%s, **self.assumptions)' % val]:
                self.keeps[key] = False
            elif b == ['ret = self.__class__(%s, **self.assumptions)' % val, 'ret.units = self.units', 'return ret']:
                self.keeps[key] = True
            else:
                fail(xm.rel, method(ex, name, xm.rel), 'Expr.%s: unrecognised body' % name)
        # simplify: the rebuilt object of the plain branch
        sm = method(ex, 'simplify', xm.rel)
        st = units_stores('simplify')
        found = None
        for n in ast.walk(sm):
            for blk in (getattr(n, 'body', None), getattr(n, 'orelse', None)):
                if isinstance(blk, list):
                    srcs = [ast.unparse(x) for x in blk]
                    if 'ret = self.__class__(ret, **self.assumptions)' in srcs:
                        i = srcs.index('ret = self.__class__(ret, **self.assumptions)')
                        found = (i + 1 < len(srcs) and srcs[i + 1] == 'ret.units = self.units')
        if found is None or st != (['ret.units = self.units'] if found else []):
            fail(xm.rel, sm, 'Expr.simplify: unrecognised handling of the rebuilt expression / its units')
        self.keeps['simplify'] = found
        b = body_src('limit')
        if b[-1:] == ['return self.__class__(ret, **self.assumptions)'] and units_stores('limit') == []:
            self.keeps['limit'] = False
        elif b[-3:] == ['result = self.__class__(ret, **self.assumptions)', 'result.units = self.units', 'return result'] \
                and units_stores('limit') == ['result.units = self.units']:
            self.keeps['limit'] = True
        else:
            fail(xm.rel, method(ex, 'limit', xm.rel), 'Expr.limit: unrecognised tail')
        for name, key, op in (('differentiate', 'diff', '/'), ('integrate', 'integ', '*')):
            st = units_stores(name)
            b = body_src(name)
            if b[-1] != 'return result':
                fail(xm.rel, method(ex, name, xm.rel), 'Expr.%s: does not end with `return result`' % name)
            if st == ['result.units %s= arg.units' % op] and b[-2] == st[0]:
                self.keeps[key] = False
            elif st == ['result.units = self.units %s arg.units' % op] and b[-2] == st[0]:
                self.keeps[key] = True
            else:
                fail(xm.rel, method(ex, name, xm.rel), 'Expr.%s: unrecognised units statement %s' % (name, st))
        b = body_src('convolve')
        U = 'ret.units = self.units * x.units * self.domain_units'
        if b[-3:] == ['ret = self.__class__(result, **assumptions)', U, 'return ret'] and units_stores('convolve') == [U]:
            self.conv_by_operand = False
        elif b[-5:] == ['cls = self.__class__',
                        "if self.quantity in ('transfer', 'undefined') and x.quantity != 'undefined':\n    cls = x.__class__",
                        'ret = cls(result, **assumptions)', U, 'return ret'] and units_stores('convolve') == [U]:
            self.conv_by_operand = True
        else:
            fail(xm.rel, method(ex, 'convolve', xm.rel), 'Expr.convolve: unrecognised tail')
        # (f) as_expr() of every class: `return self` or `return <Class>(self)`
        self.as_expr_cls = {}
        name2key = {cn: k for k, cn in self.classmap.items()}
        for (d, q), cn in self.classmap.items():
            r = self.class_attr('exprclasses', cn, 'as_expr')
            if r is None or not isinstance(r[1], ast.FunctionDef):
                raise Untranslatable('lcapy: class %s has no as_expr method' % cn)
            b = [ast.unparse(x) for x in nodoc(r[1].body)]
            if b == ['return self']:
                self.as_expr_cls[(d, q)] = None
            elif len(b) == 1 and b[0].startswith('return ') and b[0].endswith('(self)') and b[0][7:-6] in name2key:
                self.as_expr_cls[(d, q)] = name2key[b[0][7:-6]]
            else:
                fail(self.mod(r[0][0]).rel, r[1], '%s.as_expr: unrecognised body' % r[0][1])
        # --- flag reads
        self.flag_reads = []     # (file, function, flag, line)
        for fn in sorted(os.listdir(os.path.join(self.repo, 'lcapy'))):
            if not fn.endswith('.py'):
                continue
            src = open(os.path.join(self.repo, 'lcapy', fn)).read()
            if 'loose_units' not in src and 'check_units' not in src and 'canonical_units' not in src:
                continue
            try:
                with warnings.catch_warnings():
                    warnings.simplefilter('ignore')
                    tree = ast.parse(src)
            except SyntaxError as e:
                raise Untranslatable('lcapy/%s: syntax error %s' % (fn, e))
            self.shas['lcapy/' + fn] = hashlib.sha256(src.encode()).hexdigest()

            def walk(node, func):
                for ch in ast.iter_child_nodes(node):
                    f2 = func
                    if isinstance(ch, (ast.FunctionDef, ast.AsyncFunctionDef)):
                        f2 = ch.name
                    if isinstance(ch, ast.Attribute) and ch.attr in ('loose_units', 'check_units', 'canonical_units') \
                            and isinstance(ch.value, ast.Name) and ch.value.id == 'state' and isinstance(ch.ctx, ast.Load):
                        self.flag_reads.append((fn, func, ch.attr, ch.lineno))
                    walk(ch, f2)
            walk(tree, '<module>')
        # --- transform sites
        self.sites = []     # (file, class, method, target domain, scale vec, line)
        for fn in sorted(os.listdir(os.path.join(self.repo, 'lcapy'))):
            if not fn.endswith('.py'):
                continue
            src = open(os.path.join(self.repo, 'lcapy', fn)).read()
            if 'units_scale' not in src:
                continue
            try:
                with warnings.catch_warnings():
                    warnings.simplefilter('ignore')
                    tree = ast.parse(src)
            except SyntaxError as e:
                raise Untranslatable('lcapy/%s: syntax error %s' % (fn, e))
            self.shas['lcapy/' + fn] = hashlib.sha256(src.encode()).hexdigest()
            for cd in [n for n in tree.body if isinstance(n, ast.ClassDef)]:
                for fd in [n for n in cd.body if isinstance(n, ast.FunctionDef)]:
                    for n in ast.walk(fd):
                        if isinstance(n, ast.Call) and any(k.arg == 'units_scale' for k in n.keywords):
                            if not (isinstance(n.func, ast.Attribute) and n.func.attr == 'change'):
                                fail('lcapy/' + fn, n, 'units_scale passed to something other than .change')
                            dom = None
                            if len(n.args) >= 2:
                                dom = n.args[1]
                            for k in n.keywords:
                                if k.arg == 'domain':
                                    dom = k.value
                            if not (isinstance(dom, ast.Constant) and dom.value in DOMAINS):
                                fail('lcapy/' + fn, n, 'target domain of change() is not a known literal')
                            sc = [k.value for k in n.keywords if k.arg == 'units_scale'][0]
                            if isinstance(sc, ast.Constant) and sc.value is None:
                                continue
                            if fd.name == 'change':
                                continue
                            # domain of the enclosing class
                            src_dom = None
                            modname = fn[:-3]
                            r = self.class_attr(modname, cd.name, 'domain')
                            if r is not None and isinstance(r[1], ast.Constant):
                                src_dom = r[1].value
                            if src_dom not in DOMAINS:
                                fail('lcapy/' + fn, n, 'cannot determine the domain of class %s' % cd.name)
                            self.sites.append((fn, cd.name, fd.name, src_dom, dom.value,
                                               self.unit('lcapy/' + fn, sc), n.lineno))
        # --- defaults
        cm = self.mod('config')
        self.defaults = {}
        for f in ('loose_units', 'check_units', 'canonical_units'):
            v = cm.assigns.get(f)
            if not (isinstance(v, ast.Constant) and isinstance(v.value, bool)):
                raise Untranslatable('lcapy/config.py: %s is not a boolean literal' % f)
            self.defaults[f] = v.value
        self.sha = hashlib.sha256(json_dumps(sorted(self.shas.items())).encode()).hexdigest()

    # ---- Coq rendering ------------------------------------------------------------
    def coq(self):
        def uv(v):
            return '(UV (%d) (%d) (%d) (%d))' % tuple(v)

        def tq(s):
            return 'TConst' if s == 'constant' else '(TQ %s)' % QCOQ[s]
        out = ['(* GENERATED by tools/tr_quantity.py from the lcapy sources (combined sha256 %s).' % self.sha,
               '   Do not edit: regenerated from the working tree on every run. *)',
               'From Coq Require Import ZArith List Bool.', 'Import ListNotations.',
               'Require Import LT.QuantityBase.', 'Local Open Scope Z_scope.', '']
        for name, cname in (('_mul_mapping', 'gen_mul_tab'), ('_div_mapping', 'gen_div_tab')):
            out.append('(* Expr.%s, lcapy/expr.py *)' % name)
            out.append('Definition %s : list (tq * tq * tq) := [' % cname)
            out.append(';\n'.join('  (%s, %s, %s)' % (tq(a), tq(b), tq(c)) for a, b, c, _ in self.tables[name]))
            out.append('].\n')
        out.append('(* per-class _default_units (exprclasses.py; classes without the attribute get 1) *)')
        out.append('Definition gen_def_units (d : domain) (q : quantity) : uvec :=\n  match d, q with')
        for (d, q), cn in self.classmap.items():
            u = self.classinfo[cn]['units']
            if u != (0, 0, 0, 0):
                out.append('  | %s, %s => %s' % (DCOQ[d], QCOQ[q], uv(u)))
        out.append('  | _, _ => uzero\n  end.\n')
        out.append('(* does exprclasses[d][q] exist *)')
        out.append('Definition gen_has_class (d : domain) : bool :=\n  match d with')
        for d in DOMAINS:
            if d not in self.class_domains:
                out.append('  | %s => false' % DCOQ[d])
        out.append('  | _ => true\n  end.\n')
        out.append('(* quantity / domain attribute of the class exprclasses[d][q], resolved along its MRO *)')
        out.append('Definition gen_class_quantity (d : domain) (q : quantity) : quantity :=\n  match d, q with')
        for (d, q), cn in self.classmap.items():
            cq = self.classinfo[cn]['quantity']
            if cq != q:
                out.append('  | %s, %s => %s' % (DCOQ[d], QCOQ[q], QCOQ.get(cq, 'Qundef')))
        out.append('  | _, q => q\n  end.\n')
        out.append('Definition gen_class_domain (d : domain) (q : quantity) : domain :=\n  match d, q with')
        for (d, q), cn in self.classmap.items():
            cd = self.classinfo[cn]['domain']
            if cd != d:
                out.append('  | %s, %s => %s' % (DCOQ[d], QCOQ[q], DCOQ.get(cd, 'Dsuperposition')))
        out.append('  | d, _ => d\n  end.\n')
        out.append('(* domain_units of the Domain classes (domains.py) *)')
        out.append('Definition gen_dom_units (d : domain) : uvec :=\n  match d with')
        for d in DOMAINS:
            if self.dom_units[d] != (0, 0, 0, 0):
                out.append('  | %s => %s' % (DCOQ[d], uv(self.dom_units[d])))
        out.append('  | _ => uzero\n  end.\n')
        out.append('(* is_* attributes of the Domain classes in the `domains` dict (used by exprmap) *)')
        out.append('Definition gen_dflag (f : dflagname) (d : domain) : bool :=\n  match f, d with')
        for f in DFLAGS:
            for d in DOMAINS:
                if self.dflag[d][f]:
                    out.append('  | F_%s, %s => true' % (f, DCOQ[d]))
        out.append('  | _, _ => false\n  end.\n')
        out.append('(* is_ratio of the mixin classes in the `quantities` dict (used by exprmap) *)')
        out.append('Definition gen_qratio (q : quantity) : bool :=\n  match q with')
        for q in QUANTITIES[1:]:
            if self.qflag[q]['is_ratio']:
                out.append('  | %s => true' % QCOQ[q])
        out.append('  | _ => false\n  end.\n')
        out.append('(* is_* attributes of the expression classes exprclasses[d][q], resolved along the MRO *)')
        out.append('Definition gen_cdflag (f : dflagname) (d : domain) (q : quantity) : bool :=\n  match f, d, q with')
        for f in DFLAGS:
            for d in self.class_domains:
                vals = [self.classinfo[self.classmap[(d, q)]]['flags'][f] for q in QUANTITIES]
                if all(vals):
                    out.append('  | F_%s, %s, _ => true' % (f, DCOQ[d]))
                else:
                    for q, v in zip(QUANTITIES, vals):
                        if v:
                            out.append('  | F_%s, %s, %s => true' % (f, DCOQ[d], QCOQ[q]))
        out.append('  | _, _, _ => false\n  end.\n')
        out.append('Definition gen_cqflag (f : qflagname) (d : domain) (q : quantity) : bool :=\n  match f, d, q with')
        for f in QFLAGS:
            for q in QUANTITIES:
                vals = [self.classinfo[self.classmap[(d, q)]]['flags'][f] for d in self.class_domains]
                if all(vals):
                    out.append('  | G_%s, _, %s => true' % (f, QCOQ[q]))
                else:
                    for d, v in zip(self.class_domains, vals):
                        if v:
                            out.append('  | G_%s, %s, %s => true' % (f, DCOQ[d], QCOQ[q]))
        out.append('  | _, _, _ => false\n  end.\n')
        out.append('(* class that defines each method for exprclasses[d][q] (first hit along the MRO) *)')
        out.append('Definition gen_meth_owner (m : methname) (d : domain) (q : quantity) : owner :=\n  match m, d, q with')

        def own(o):
            return 'O_none' if o is None else ('O_' + o if o in OWNERS else 'O_unknown')
        for m in METHODS:
            allv = [own(self.classinfo[self.classmap[(d, q)]]['methods'][m]) for d in self.class_domains for q in QUANTITIES]
            common = max(set(allv), key=allv.count)
            for d in self.class_domains:
                vals = [own(self.classinfo[self.classmap[(d, q)]]['methods'][m]) for q in QUANTITIES]
                if len(set(vals)) == 1:
                    if vals[0] != common:
                        out.append('  | %s, %s, _ => %s' % (MCOQ[m], DCOQ[d], vals[0]))
                else:
                    for q, v in zip(QUANTITIES, vals):
                        if v != common:
                            out.append('  | %s, %s, %s => %s' % (MCOQ[m], DCOQ[d], QCOQ[q], v))
            out.append('  | %s, _, _ => %s' % (MCOQ[m], common))
        out.append('  end.\n')
        out.append('(* exprclasses[d][q] is a proper subclass of exprclasses[d2][q2] (from the MROs) *)')
        out.append('Definition gen_subclass (d : domain) (q : quantity) (d2 : domain) (q2 : quantity) : bool :=\n  match d, q, d2, q2 with')
        for (d, q), cn in self.classmap.items():
            for (d2, q2), cn2 in self.classmap.items():
                if cn2 != cn and cn2 in self.classinfo[cn]['mro']:
                    out.append('  | %s, %s, %s, %s => true' % (DCOQ[d], QCOQ[q], DCOQ[d2], QCOQ[q2]))
        out.append('  | _, _, _, _ => false\n  end.\n')
        out.append('(* every `.change(result, <domain>, units_scale=<unit>)` call: (source domain, target domain, scale) *)')
        out.append('Definition gen_sites : list (domain * domain * uvec) := [')
        out.append(';\n'.join('  (%s, %s, %s) (* %s:%d %s.%s *)' % (DCOQ[s], DCOQ[t], uv(v), fn, ln, cn, mn)
                              for fn, cn, mn, s, t, v, ln in self.sites))
        out.append('].\n')
        out.append('(* functions that read the unit flags of lcapy.state *)')
        fr = sorted(set((fn, func, fl) for fn, func, fl, _ in self.flag_reads))

        def frk(fn, func):
            if fn == 'expr.py' and func == '__compat_add__':
                return 'RS_compat_add'
            if func in ('_pexpr', 'pexpr', '_repr_pretty_', 'latex', 'latex_with_units', 'pprint', 'pretty', '__str__',
                        '__repr__', '_repr_latex_', '_latex', '_pretty'):
                return 'RS_printing'
            if fn in ('state.py', 'config.py'):
                return 'RS_config'
            return 'RS_other'
        out.append('Definition gen_flag_reads : list (uflag * readsite) := [')
        out.append(';\n'.join('  (U_%s, %s) (* %s:%s *)' % (fl, frk(fn, func), fn, func) for fn, func, fl in fr))
        out.append('].\n')
        out.append('(* ExprDomain.as_quantity(name): the quantity of the class that the dispatched as_<x>() builds *)')
        out.append('Definition gen_asq (q : quantity) : asres :=\n  match q with')
        for q in QUANTITIES:
            if q in self.asq:
                out.append('  | %s => %s' % (QCOQ[q], 'AsSelf' if self.asq[q] == 'self' else 'AsQ %s' % QCOQ[self.asq[q]]))
        out.append('  | _ => AsError\n  end.\n')
        out.append('(* as_expr() of exprclasses[d][q]: None = returns self *)')
        out.append('Definition gen_as_expr_cls (d : domain) (q : quantity) : option cls :=\n  match d, q with')
        for (d, q), v in self.as_expr_cls.items():
            if v is not None:
                out.append('  | %s, %s => Some (%s, %s)' % (DCOQ[d], QCOQ[q], DCOQ[v[0]], QCOQ[v[1]]))
        out.append('  | _, _ => None\n  end.\n')
        out.append('Definition gen_keeps (o : unop) : bool :=\n  match o with')
        for k, v in self.keeps.items():
            if v:
                out.append('  | U_%s => true' % k)
        out.append('  | _ => false\n  end.\n')
        out.append('Definition T : tables := {|')
        out.append('  mul_tab := gen_mul_tab; div_tab := gen_div_tab; def_units := gen_def_units; has_class := gen_has_class;')
        out.append('  class_quantity := gen_class_quantity; class_domain := gen_class_domain; dom_units := gen_dom_units;')
        out.append('  dflag := gen_dflag; qratio := gen_qratio; cdflag := gen_cdflag; cqflag := gen_cqflag; meth_owner := gen_meth_owner; subclass := gen_subclass;')
        out.append('  mul_keeps_units := %s; div_keeps_units := %s;' % tuple('true' if self.keeps_units[m] else 'false' for m in ('__mul__', '__truediv__')))
        out.append('  rdiv_keeps_units := %s; compat_guard := %s; add_keeps_units := %s; ft_keeps_units := %s;' % tuple(
            'true' if b else 'false' for b in (self.rdiv_keeps_units, self.compat_guard, self.add_keeps_units, self.ft_keeps_units)))
        out.append('  keeps := gen_keeps; conv_by_operand := ' + ('true' if self.conv_by_operand else 'false') + ';')
        out.append('  mag_real_keeps := %s; asq := gen_asq; as_expr_cls := gen_as_expr_cls; sites := gen_sites; flag_reads := gen_flag_reads |}.' % ('true' if self.mag_real_keeps else 'false'))
        return '\n'.join(out) + '\n'


def json_dumps(x):
    import json
    return json.dumps(x)


if __name__ == '__main__':
    import sys
    tr = Translator(sys.argv[1] if len(sys.argv) > 1 else '/repo')
    sys.stdout.write(tr.coq())
