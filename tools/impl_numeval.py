"""Runs the REAL lcapy (from $PYTHONPATH) on C17 cases given on stdin (JSON list)
and prints one JSON result per case.

Exact canonicalisation (stated, as required by the brief): `evaluate` returns
floats.  For the exact piecewise class all inputs are dyadic rationals, so the
conversion float(point) is exact; a float result x is mapped to the rational
r = Fraction(x).limit_denominator(10**6) and reported as exact ("p/q") only when
|x - r| <= 1e-12 * max(1, |x|); otherwise the case is reported as inexact and
takes no part in an exact verdict.  SymPy Floats produced by exact substitution
(trap uses 0.5 literals) are canonicalised the same way.

case kinds
  expr      {'tree':..., 'dom': 't'|'n'|'f'|'s'|..., 'points': ['p/q',...], 'mode': 'scalar'|'list'|'array',
             'causal': true|null}        exact class (tree mirrors the Coq type `ex`)
  text      {'text': '...', 'points': [...], 'mode':..., 'complex': bool}   float search oracle
  lambdify  {}                          the source lambdify generates for sympy's sinc
  simstep   {'cls':..., 'X','dt','v1p','v2p','ip'}   real geq/veq/stamp/subsdict on exact rationals
  rmodel    {'cpt': 'C'|'L'}            netlist of the companion model
  sim       {'net': [...], 'T':..., 'N':..., 'integrator':..., 'probe': [...]}   float search
  response  {'H': text, 'method':..., 'T':..., 'N':..., 'input': 'step'|'ramp', 'wrap': null|'transfer'|'voltage'}
"""
import json
import sys
import time
import warnings
from fractions import Fraction

warnings.filterwarnings('ignore')
import numpy as np
import sympy as sp
import lcapy
from lcapy import extrafunctions as xf

DEN = 10 ** 6


def frs(x):
    x = Fraction(x)
    return '%d/%d' % (x.numerator, x.denominator)


def recover(x):
    """float -> ('p/q', exact?)"""
    x = float(x)
    if x != x or x in (float('inf'), float('-inf')):
        return None, False
    r = Fraction(x).limit_denominator(DEN)
    ok = abs(x - float(r)) <= 1e-12 * max(1.0, abs(x)) and abs(Fraction(x) - r) <= Fraction(1, 10 ** 12) * max(1, abs(r))
    return frs(r), ok


DOMS = {'t': 't', 'n': 'n', 'f': 'f', 's': 's', 'omega': 'omega', 'k': 'k', 'z': 'z', 'jomega': 'jw', 'F': 'F', 'Omega': 'Omega'}
FUNS = {'Heaviside': sp.Heaviside, 'DiracDelta': sp.DiracDelta, 'sign': sp.sign, 'rect': xf.rect, 'tri': xf.tri,
        'ramp': xf.ramp, 'rampstep': xf.rampstep, 'UnitStep': xf.UnitStep, 'UnitImpulse': xf.UnitImpulse,
        'dtrect': xf.dtrect, 'dtsign': xf.dtsign}
OPS = {'lt': sp.Lt, 'le': sp.Le, 'gt': sp.Gt, 'ge': sp.Ge}


def build(tr, v):
    k = tr[0]
    if k == 'var':
        return v
    if k == 'c':
        return sp.Rational(tr[1])
    if k in ('add', 'sub', 'mul', 'div'):
        a, b = build(tr[1], v), build(tr[2], v)
        return {'add': a + b, 'sub': a - b, 'mul': a * b, 'div': a / b}[k]
    if k == 'neg':
        return -build(tr[1], v)
    if k == 'abs':
        return sp.Abs(build(tr[1], v))
    if k == 'f':
        return FUNS[tr[1]](build(tr[2], v))
    if k == 'trap':
        return xf.trap(build(tr[1], v), sp.Rational(tr[2]))
    if k == 'heav2':
        return sp.Heaviside(build(tr[1], v), sp.Rational(tr[2]))
    if k == 'step2':
        return xf.UnitStep(build(tr[1], v), sp.Rational(tr[2]))
    if k == 'pw':
        c = OPS[tr[1]](build(tr[2], v), build(tr[3], v))
        th = build(tr[4], v)
        if tr[5][0] == 'undef':
            return sp.Piecewise((th, c))
        return sp.Piecewise((th, c), (build(tr[5], v), True))
    raise ValueError('bad tree ' + str(k))


def exact_value(val):
    """sympy value after exact substitution -> dict"""
    val = sp.sympify(val)
    if val.is_Rational:
        return {'sym': frs(Fraction(int(val.p), int(val.q)))}
    if val.is_Float:
        r, ok = recover(float(val))
        if ok:
            return {'sym': r, 'sym_float': True, 'sym_raw': repr(float(val))}
        return {'sym_inexact': str(val), 'sym_raw': repr(float(val))}
    if val in (sp.nan, sp.zoo, sp.oo, -sp.oo) or val.has(sp.nan, sp.zoo, sp.oo):
        return {'sym_undef': str(val)}
    if val.is_number:
        try:
            c = complex(val)
            if abs(c.imag) < 1e-300:
                r, ok = recover(c.real)
                # irrational or non-recoverable
                return {'sym_inexact': str(val)}
        except Exception:
            pass
    return {'sym_undef': str(val)[:80]}


def num_value(x):
    try:
        c = complex(x)
    except Exception as e:
        return {'num_err': 'Convert:' + type(e).__name__}
    if c != c or abs(c.imag) > 0:
        if c.imag != c.imag or c.real != c.real:
            return {'num_nan': True}
        return {'num_complex': [repr(c.real), repr(c.imag)]}
    r, ok = recover(c.real)
    if ok:
        return {'num': r, 'num_float': repr(c.real)}
    return {'num_inexact': repr(c.real)}


def arg_of(p, dom, mode):
    fr = Fraction(p)
    if dom in ('n', 'k') and fr.denominator == 1 and mode == 'scalar':
        return int(fr)
    return float(fr)


def run_expr(c):
    v = getattr(lcapy, DOMS[c['dom']])
    vs = v.sympy
    e = build(c['tree'], vs)
    kw = {}
    if c.get('causal'):
        kw['causal'] = True
    x = lcapy.expr(e, **kw)
    out = {'cls': type(x).__name__, 'str': str(x.sympy)[:400],
           'funcs': sorted(set(type(a).__name__ for a in x.sympy.atoms(sp.Function)))}
    try:
        out['is_causal'] = bool((x.is_time_domain or x.is_discrete_time_domain) and x.is_causal)
    except Exception as ex:
        out['is_causal'] = None
    if getattr(x, 'var', None) is None:
        out['const'] = True
        subsvar = vs
    else:
        subsvar = x.var
    pts = c['points']
    res = []
    for p in pts:
        try:
            val = x.sympy.subs(subsvar, sp.Rational(p))
            res.append(exact_value(val))
        except Exception as ex:
            res.append({'sym_err': type(ex).__name__ + ': ' + str(ex)[:80]})
    mode = c['mode']
    if mode == 'scalar':
        for p, r in zip(pts, res):
            try:
                y = x.evaluate(arg_of(p, c['dom'], mode))
                r.update(num_value(y))
            except Exception as ex:
                r['num_err'] = type(ex).__name__
                r['num_msg'] = str(ex)[:100]
    else:
        args = [arg_of(p, c['dom'], mode) for p in pts]
        if mode == 'array':
            args = np.array(args)
        elif mode == 'tuple':
            args = tuple(args)
        try:
            ys = x.evaluate(args)
            if len(ys) != len(pts):
                out['vec_err'] = 'length %d != %d' % (len(ys), len(pts))
            else:
                out['vec_type'] = type(ys).__name__
                for y, r in zip(ys, res):
                    r.update(num_value(y))
        except Exception as ex:
            out['vec_err'] = type(ex).__name__
            out['vec_msg'] = str(ex)[:100]
    out['res'] = res
    return out


def cpoint(p):
    """'a' or 'a,b' (real, imag) rationals -> sympy number, python number"""
    if ',' in p:
        a, b = p.split(',')
        return sp.Rational(a) + sp.I * sp.Rational(b), complex(float(Fraction(a)), float(Fraction(b)))
    return sp.Rational(p), float(Fraction(p))


def run_text(c):
    x = lcapy.expr(c['text'], **({'causal': True} if c.get('causal') else {}))
    out = {'cls': type(x).__name__, 'sympy': str(x.sympy)[:160]}
    try:
        out['is_causal'] = bool((x.is_time_domain or x.is_discrete_time_domain) and x.is_causal)
    except Exception:
        out['is_causal'] = None
    var = x.var
    res = []
    pts = [cpoint(p) for p in c['points']]
    for ps, pf in pts:
        r = {}
        try:
            if var is None:
                val = x.sympy
            else:
                val = x.sympy.subs(var, ps)
            val = sp.N(val, 50)
            if val.is_number and not val.has(sp.nan, sp.zoo, sp.oo):
                cv = complex(val)
                r['sym'] = [repr(cv.real), repr(cv.imag)]
            else:
                r['sym_undef'] = str(val)[:80]
        except Exception as ex:
            r['sym_err'] = type(ex).__name__ + ': ' + str(ex)[:80]
        res.append(r)
    mode = c.get('mode', 'scalar')
    if mode == 'scalar':
        for (ps, pf), r in zip(pts, res):
            try:
                y = complex(x.evaluate(pf))
                r['num'] = [repr(y.real), repr(y.imag)]
            except Exception as ex:
                r['num_err'] = type(ex).__name__
                r['num_msg'] = str(ex)[:100]
    else:
        args = [pf for ps, pf in pts]
        if mode == 'array':
            args = np.array(args)
        try:
            ys = x.evaluate(args)
            for y, r in zip(ys, res):
                y = complex(y)
                r['num'] = [repr(y.real), repr(y.imag)]
            if len(ys) != len(pts):
                out['vec_err'] = 'length'
        except Exception as ex:
            out['vec_err'] = type(ex).__name__
            out['vec_msg'] = str(ex)[:100]
    out['res'] = res
    return out


def run_lambdify(c):
    import inspect
    t = sp.Symbol('t')
    f = sp.lambdify(t, sp.sinc(t), [{'sinc': lambda a: a}, 'scipy', 'numpy', 'math', 'sympy'])
    src = inspect.getsource(f)
    return {'src': src, 'sympy': sp.__version__}


def run_simstep(c):
    from lcapy import simulator as S
    cls = getattr(S, c['cls'])
    o = object.__new__(cls)
    X = sp.Rational(c['X'])
    o.Cval = X
    o.Lval = X
    dt = sp.Rational(c['dt'])
    v1 = [sp.Rational(c['v1p'])]
    v2 = [sp.Rational(c['v2p'])]
    i = [sp.Rational(c['ip'])]
    out = {}
    out['geq'] = frs(Fraction(str(sp.Rational(o.geq(1, dt, v1, v2, i)))))
    out['veq'] = frs(Fraction(str(sp.Rational(o.veq(1, dt, v1, v2, i)))))
    try:
        out['veq0'] = frs(Fraction(str(sp.Rational(o.veq(0, dt, v1, v2, i)))))
    except Exception as ex:
        out['veq0'] = 'err:' + type(ex).__name__
    # stamp on exact matrices: 3 nodes (indices 0,1,2), one branch row
    o.v1_index, o.v2_index, o.v3_index, o.i_index = 0, 1, 2, 0
    A = sp.zeros(4, 4)
    Z = sp.zeros(4, 1)
    o.stamp(A, Z, 3, 1, dt, v1, v2, i)
    out['A'] = [[frs(Fraction(str(sp.Rational(A[r, q])))) for q in range(4)] for r in range(4)]
    out['Z'] = [frs(Fraction(str(sp.Rational(Z[r])))) for r in range(4)]
    o.Reqsym, o.Veqsym = sp.Symbol('Req'), sp.Symbol('Veq')
    sd = o.subsdict(1, dt, v1, v2, i)
    out['Req'] = frs(Fraction(str(sp.Rational(sd[o.Reqsym]))))
    out['Veq'] = frs(Fraction(str(sp.Rational(sd[o.Veqsym]))))
    return out


def run_rmodel(c):
    cct = lcapy.Circuit()
    cct.add('V1 1 0 step 1')
    cct.add('R1 1 2 1')
    cct.add('%s1 2 3 2' % c['cpt'])
    cct.add('R2 3 0 1')
    rm = cct.r_model()
    lines = str(rm).strip().split('\n')
    out = {'net': lines}
    for ln in lines:
        parts = ln.split(';')[0].split()
        if parts and parts[0] == 'R%s1eq' % c['cpt']:
            out['R'] = parts[1:3]
            out['Rval'] = parts[3] if len(parts) > 3 else None
        if parts and parts[0] == 'V%s1eq' % c['cpt']:
            out['V'] = parts[1:3]
            out['Vargs'] = parts[3:]
    return out


def run_sim(c):
    cct = lcapy.Circuit()
    for ln in c['net']:
        cct.add(ln)
    T, N = float(Fraction(c['T'])), int(c['N'])
    grid = c.get('grid', 'uniform')
    if grid == 'uniform':
        tv = np.linspace(0, T, N)
    elif grid == 'quadratic':          # fine near t = 0, coarse later
        tv = T * np.linspace(0, 1, N) ** 2
    elif grid == 'two-rate':           # two uniform stretches of different step joined at t = 1
        tv = np.hstack((np.linspace(0, 1, N)[:-1], np.linspace(1, T, N // 2)))
    else:
        raise ValueError('grid ' + grid)
    r = cct.sim(tv, integrator=c['integrator'])
    out = {'tv': [float(u) for u in tv]}
    for pr in c['probe']:
        name, q = pr.split('.')
        out[pr] = [float(u) for u in getattr(r[name], q)]
    if c.get('symbolic'):
        # the library's own symbolic response at the same instants (cross-check of the closed form used as reference)
        name, q = c['probe'][0].split('.')
        out['sym'] = [float(u) for u in getattr(cct[name], q).evaluate(tv)]
    return out


def make_tv(c):
    T, N = float(Fraction(c['T'])), int(c['N'])
    grid = c.get('grid', 'uniform')
    if grid == 'uniform':
        return np.linspace(0, T, N)
    if grid == 'quadratic':
        return T * np.linspace(0, 1, N) ** 2
    if grid == 'two-rate':
        return np.hstack((np.linspace(0, 1, N)[:-1], np.linspace(1, T, N // 2)))
    raise ValueError('grid')


def run_simres(c):
    """one Simulator run of an arbitrary circuit, with everything needed to re-check every step against the
    stamped system: the constant part A, the right-hand side Z(t_n), the reactive components and their indices"""
    from lcapy.simulator import Simulator
    from lcapy.sym import tsym
    cct = lcapy.Circuit()
    for ln in c['net']:
        cct.add(ln)
    tv = make_tv(c)
    sim = Simulator(cct)
    r = sim(tv, integrator=c['integrator'])
    nn = r.num_nodes
    out = {'tv': [repr(float(u)) for u in tv], 'nn': nn, 'nb': r.num_branches,
           'A': [[repr(float(v)) for v in row] for row in sim.A],
           'Z': [[repr(float(v)) for v in np.array(sim.Zsym.subs({tsym: t1})).astype(float).reshape(-1)] for t1 in tv],
           'cpts': [{'cls': type(q).__name__, 'X': repr(float(getattr(q, 'Cval', None) if hasattr(q, 'Cval') else q.Lval)),
                     'i1': int(q.v1_index), 'i2': int(q.v2_index), 'i3': int(q.v3_index), 'ib': int(q.i_index)} for q in sim.reactive_cpts],
           'x': [[repr(float(v)) for v in list(r.node_voltages[0:nn, n]) + list(r.branch_currents[:, n])] for n in range(len(tv))]}
    return out


def run_response(c):
    H = lcapy.expr(c['H'])
    if c.get('wrap') == 'transfer':
        H = lcapy.transfer(H)
    elif c.get('wrap') == 'voltage':
        H = lcapy.voltage(H)
    if 't0' not in c:
        tv = np.linspace(0, float(Fraction(c['T'])), int(c['N']))
        x = np.ones(len(tv)) if c['input'] == 'step' else (tv ** 2 if c['input'] == 'quad' else tv.copy())
        y = H.response(x, tv, method=c['method'])
        return {'y': [float(u) for u in y], 'cls': type(H).__name__}
    # time window [t0, t0 + T] that need not start at 0; the input is switched on at t1 >= t0 (a sample instant), so it
    # vanishes before the window and the zero initial state response() assumes is the true one
    t0, t1, T, N = float(Fraction(c['t0'])), float(Fraction(c['t1'])), float(Fraction(c['T'])), int(c['N'])
    tv = np.linspace(t0, t0 + T, N)
    on = tv >= t1 - 1e-9
    if c['input'] == 'step':
        x = np.where(on, 1.0, 0.0)
    elif c['input'] == 'expstep':
        x = np.where(on, np.exp(-float(Fraction(c['b'])) * (tv - t1)), 0.0)
    else:
        raise ValueError('input ' + str(c['input']))
    kw = {'alpha': float(Fraction(c['alpha']))} if 'alpha' in c else {}
    # record what the delayed output is interpolated from: arguments of scipy.interpolate.interp1d and of the call of the
    # interpolant (only the arguments are observed; the real interp1d does the work)
    import scipy.interpolate as si
    rec = []
    real = si.interp1d

    class Spy:
        def __init__(self, xs, ys, *a, **k):
            self.f = real(xs, ys, *a, **k)
            self.e = {}
            if np.ndim(xs) == 1 and np.ndim(ys) == 1:
                self.e = {'xs': [float(u) for u in xs], 'ys': [float(u) for u in ys], 'args': len(a),
                          'kw': {q: repr(v) for q, v in sorted(k.items())}}
                rec.append(self.e)

        def __call__(self, q):
            r = self.f(q)
            if self.e and np.ndim(q) <= 1:
                self.e['q'] = [float(u) for u in np.atleast_1d(q)]
                self.e['out'] = [float(u) for u in np.atleast_1d(r)]
            return r
    import scipy.signal      # noqa: F401  (imported before the spy is installed: scipy.stats builds interpolants at import time)
    si.interp1d = Spy
    try:
        y = H.response(x, tv, method=c['method'], **kw)
    finally:
        si.interp1d = real
    out = {'y': [float(u) for u in y], 'cls': type(H).__name__, 'tv': [float(u) for u in tv], 'x': [float(u) for u in x]}
    if rec and c.get('interp'):
        out['interp'] = rec
    out['ninterp'] = len(rec)
    return out


def main():
    cases = json.load(sys.stdin)
    res = []
    tab = {'expr': run_expr, 'text': run_text, 'lambdify': run_lambdify, 'simstep': run_simstep,
           'rmodel': run_rmodel, 'sim': run_sim, 'simres': run_simres, 'response': run_response}
    import io
    import contextlib
    import signal

    class CaseTimeout(BaseException):
        pass

    def on_alarm(signum, frame):
        raise CaseTimeout()
    signal.signal(signal.SIGALRM, on_alarm)
    for c in cases:
        t0 = time.time()
        try:
            # repeating timer: lcapy's bare `except:` clauses can swallow the first exception
            signal.setitimer(signal.ITIMER_REAL, float(c.get('timeout', 30)), 2.0)
            with contextlib.redirect_stdout(io.StringIO()):
                r = tab[c['kind']](c)
            signal.setitimer(signal.ITIMER_REAL, 0)
            r['secs'] = round(time.time() - t0, 2)
            res.append(r)
        except CaseTimeout:
            signal.setitimer(signal.ITIMER_REAL, 0)
            res.append({'timeout': True})
        except Exception as e:
            signal.setitimer(signal.ITIMER_REAL, 0)
            res.append({'error': type(e).__name__ + ': ' + str(e)[:200]})
    json.dump(res, sys.stdout)


main()
