"""Exact canonical form ("NF") of the closed forms that Lcapy's Fourier-family
transforms return, used by the C12 correspondence (tools/impl_fourier.py).

An expression in one real variable x (f, omega, F, Omega or t) is written as a
finite sum of terms

    coef(x) * delta^(n)(x - loc) * e^{j (u x + v)} * e^{c2 x^2 + c1 x + c0} * prod atom_i(a_i x + b_i)^{p_i}

with  coef  a rational function of x, pi, j, sqrt(pi)  (evaluated EXACTLY at a
rational point x0 with the transcendental pi replaced by an indeterminate value
P that is a perfect square of a rational, so sqrt(pi) stays rational), and the
rest kept STRUCTURALLY:

    u, v   "Laurent numbers"  q_{-1}/pi + q_0 + q_1 pi  (three rationals), the
           pi-part of v reduced mod 2 and quarter turns folded into coef (sympy
           evaluates exp(I*pi*k/2) automatically, so both sides must);
    loc    Laurent number; delta terms are sifted (coefficient evaluated at loc,
           derivative deltas by the Leibniz rule);
    atoms  sign(x + b), rect/tri/sincn(a x + b) with a > 0, trap(a x + b, alpha);
           Heaviside and Abs are expressed through sign:  u(y) = (1 + sgn y)/2,
           |y| = y sgn y;  sign^2 = 1.

Everything is exact (fractions.Fraction); anything outside the recognised shape
raises Uncanonical (the case is then not used for a verdict).  The same
canonical form is produced inside Coq by coq/theory/FourierNF.v from the model's
function AST; equality of the two forms is decided by Coq (vm_compute).
"""
from fractions import Fraction
import sympy as sp


class Uncanonical(Exception):
    pass


ATOM_KINDS = {'sign': 0, 'rect': 1, 'tri': 2, 'sincn': 3, 'trap': 4}


# ---- exact Gaussian-rational evaluation ------------------------------------
def gq_eval(e, env):
    """value of a sympy expression as (re, im) Fractions; env maps Symbol -> Fraction;
    pi -> env['pi'], sqrt(pi) -> env['sqrtpi'].  Fail-closed."""
    if e.is_Rational:
        return (Fraction(int(e.p), int(e.q)), Fraction(0))
    if e is sp.pi:
        return (env['pi'], Fraction(0))
    if e is sp.I:
        return (Fraction(0), Fraction(1))
    if e.is_Symbol:
        if e in env:
            return (Fraction(env[e]), Fraction(0))
        raise Uncanonical('free symbol %s' % e)
    if e.is_Add:
        r = i = Fraction(0)
        for a in e.args:
            x, y = gq_eval(a, env)
            r += x
            i += y
        return (r, i)
    if e.is_Mul:
        r, i = Fraction(1), Fraction(0)
        for a in e.args:
            x, y = gq_eval(a, env)
            r, i = r * x - i * y, r * y + i * x
        return (r, i)
    if e.is_Pow:
        b, ex = e.args
        if b is sp.pi and ex.is_Rational and ex.q == 2:
            # pi^(k/2) = sqrtpi^k
            s = env['sqrtpi']
            k = int(ex.p)
            v = s ** abs(k)
            return ((v if k > 0 else 1 / v), Fraction(0))
        if ex.is_Integer:
            x, y = gq_eval(b, env)
            n = int(ex)
            if n < 0:
                d = x * x + y * y
                if d == 0:
                    raise ZeroDivisionError
                x, y = x / d, -y / d
                n = -n
            r, i = Fraction(1), Fraction(0)
            for _ in range(n):
                r, i = r * x - i * y, r * y + i * x
            return (r, i)
        raise Uncanonical('power %s' % e)
    raise Uncanonical('node %s' % type(e).__name__)


def real_eval(e, env):
    r, i = gq_eval(e, env)
    if i != 0:
        raise Uncanonical('complex where real expected: %s' % e)
    return r


# ---- Laurent numbers in pi --------------------------------------------------
def lp_of(e):
    """real sympy constant -> [q_-1, q_0, q_1] with e = q_-1/pi + q_0 + q_1*pi"""
    e = sp.expand(e)
    out = [Fraction(0)] * 3
    for term in sp.Add.make_args(e):
        c, k = term.as_coeff_exponent(sp.pi)
        if not c.is_Rational or not k.is_Integer or int(k) not in (-1, 0, 1):
            raise Uncanonical('not a Laurent number in pi: %s' % e)
        out[int(k) + 1] += Fraction(int(c.p), int(c.q))
    return out


def lp_add(a, b):
    return [x + y for x, y in zip(a, b)]


def lp_scale(c, a):
    return [c * x for x in a]


def lp_mul(a, b):
    out = [Fraction(0)] * 5
    for i, x in enumerate(a):
        for k, y in enumerate(b):
            out[i + k] += x * y
    if out[0] != 0 or out[4] != 0:
        raise Uncanonical('Laurent overflow')
    return out[1:4]


def lp_val(a, P):
    return a[0] / P + a[1] + a[2] * P


def lp_inv_mono(a):
    nz = [k for k in range(3) if a[k] != 0]
    if len(nz) != 1:
        raise Uncanonical('division by a non-monomial Laurent number')
    k = nz[0]
    out = [Fraction(0)] * 3
    out[2 - k] = 1 / a[k]
    return out


ZERO3 = [Fraction(0)] * 3


# ---- terms -------------------------------------------------------------------
class Term:
    __slots__ = ('c', 'd', 'u', 'v', 'rx', 'at')

    def __init__(self):
        self.c = (Fraction(1), Fraction(0))
        self.d = None            # (n, loc lp)
        self.u = list(ZERO3)     # imaginary exponent slope
        self.v = list(ZERO3)     # imaginary exponent constant
        self.rx = [Fraction(0)] * 3   # real exponent c2, c1, c0 (pi := P)
        self.at = {}             # (kind, a, b, extra) -> power

    def key(self):
        return (None if self.d is None else (self.d[0], tuple(self.d[1])), tuple(self.u), tuple(self.v),
                tuple(self.rx), tuple(sorted(self.at.items())))


def cmul(a, b):
    return (a[0] * b[0] - a[1] * b[1], a[0] * b[1] + a[1] * b[0])


def fold_phase(t):
    """reduce the pi-part of v mod 2 and fold quarter turns into the coefficient"""
    v1 = t.v[2]
    v1 = v1 - 2 * (v1 // 2)          # in [0, 2)
    q = 2 * v1
    if q.denominator == 1:
        k = int(q) % 4
        t.c = cmul(t.c, [(Fraction(1), Fraction(0)), (Fraction(0), Fraction(1)),
                         (Fraction(-1), Fraction(0)), (Fraction(0), Fraction(-1))][k])
        v1 = Fraction(0)
    t.v = [t.v[0], t.v[1], v1]


def frac_str(x):
    x = Fraction(x)
    return '%d/%d' % (x.numerator, x.denominator)


class NFBuilder:
    def __init__(self, x, x0, P, sqrtP, extra_env=None):
        self.x = x
        self.x0 = Fraction(x0)
        self.P = Fraction(P)
        self.sqrtP = Fraction(sqrtP)
        assert self.sqrtP * self.sqrtP == self.P
        self.extra = dict(extra_env or {})

    def env(self, xval):
        e = {'pi': self.P, 'sqrtpi': self.sqrtP, self.x: Fraction(xval)}
        e.update(self.extra)
        return e

    # -- linear / quadratic arguments ------------------------------------------
    def poly_coeffs(self, arg, maxdeg):
        try:
            p = sp.Poly(sp.expand(arg), self.x)
        except sp.PolynomialError:
            raise Uncanonical('argument not polynomial: %s' % arg)
        if p.degree() > maxdeg:
            raise Uncanonical('argument degree > %d: %s' % (maxdeg, arg))
        cs = [p.coeff_monomial(self.x ** k) for k in range(maxdeg + 1)]
        for c in cs:
            if c.has(self.x):
                raise Uncanonical('bad coefficient')
        return cs

    def real_lin(self, arg):
        """arg = s x + b with real s, b: returns (s lp, b lp)"""
        b, s = self.poly_coeffs(arg, 1)
        for c in (s, b):
            if sp.im(c) != 0:
                raise Uncanonical('complex argument %s' % arg)
        return lp_of(s), lp_of(b)

    # -- atoms -------------------------------------------------------------------
    def atom_terms(self, fname, args, power):
        """list of Terms for atom(args)**power (power integer >= 1, or any integer for exp)"""
        out = []
        if fname == 'exp':
            k0, k1, k2 = self.poly_coeffs(args[0], 2)
            t = Term()
            re_im = [sp.expand(k).as_real_imag() for k in (k2, k1, k0)]
            if sp.expand(re_im[0][1]) != 0:
                raise Uncanonical('imaginary quadratic exponent')
            env = self.env(0)
            t.rx = [power * real_eval(sp.expand(r), env) for r, _ in re_im]
            t.u = lp_scale(power, lp_of(re_im[1][1]))
            t.v = lp_scale(power, lp_of(re_im[2][1]))
            return [t]
        if power < 1:
            raise Uncanonical('negative power of %s' % fname)
        s, b = self.real_lin(args[0])
        sP, bP = lp_val(s, self.P), lp_val(b, self.P)
        if sP == 0:
            raise Uncanonical('constant atom argument')
        if fname in ('sign', 'Heaviside', 'Abs'):
            sg = 1 if sP > 0 else -1
            key = (ATOM_KINDS['sign'], Fraction(1), bP / sP, Fraction(0))
            if fname == 'sign':
                t = Term()
                t.c = (Fraction(sg) ** power, Fraction(0))
                if power % 2:
                    t.at[key] = 1
                return [t]
            if fname == 'Abs':
                # |y|^p = y^p sgn(y)^p : the polynomial factor is left to the caller (returned as coefficient expr)
                raise Uncanonical('Abs handled by caller')
            # Heaviside(y)^p = Heaviside(y) = 1/2 + sgn(y)/2
            t1 = Term()
            t1.c = (Fraction(1, 2), Fraction(0))
            t2 = Term()
            t2.c = (Fraction(sg, 2), Fraction(0))
            t2.at[key] = 1
            return [t1, t2]
        if fname in ('rect', 'tri', 'sincn', 'sincu', 'trap'):
            extra = Fraction(0)
            kind = fname
            if fname == 'sincu':
                sP, bP = sP / self.P, bP / self.P
                kind = 'sincn'
            if fname == 'trap':
                extra = real_eval(args[1], self.env(0))
            if sP < 0:
                sP, bP = -sP, -bP
            t = Term()
            t.at[(ATOM_KINDS[kind], sP, bP, extra)] = power
            return [t]
        raise Uncanonical('unknown atom %s' % fname)

    # -- products -----------------------------------------------------------------
    def mul_terms(self, A, B):
        out = []
        for a in A:
            for b in B:
                t = Term()
                t.c = cmul(a.c, b.c)
                if a.d is not None and b.d is not None:
                    raise Uncanonical('product of deltas')
                t.d = a.d if a.d is not None else b.d
                t.u = lp_add(a.u, b.u)
                t.v = lp_add(a.v, b.v)
                t.rx = [x + y for x, y in zip(a.rx, b.rx)]
                t.at = dict(a.at)
                for k, p in b.at.items():
                    t.at[k] = t.at.get(k, 0) + p
                for k in list(t.at):
                    if k[0] == ATOM_KINDS['sign']:
                        if t.at[k] % 2 == 0:
                            del t.at[k]
                        else:
                            t.at[k] = 1
                out.append(t)
        return out

    # -- main ---------------------------------------------------------------------
    def classify(self, factor):
        """('coef', expr) | ('atom', name, args, power) | ('delta', arg, n)"""
        if isinstance(factor, sp.exp):
            return ('atom', 'exp', factor.args, 1)
        base, ex = factor.as_base_exp()
        if isinstance(base, sp.DiracDelta):
            if ex != 1:
                raise Uncanonical('power of delta')
            n = int(base.args[1]) if len(base.args) > 1 else 0
            return ('delta', base.args[0], n)
        if isinstance(base, sp.exp):
            if not ex.is_Integer:
                raise Uncanonical('non-integer power of exp')
            if not base.args[0].has(self.x) and not base.args[0].has(sp.I):
                # real constant exponential: keep as a (real-exponent) atom
                pass
            return ('atom', 'exp', base.args, int(ex))
        name = type(base).__name__
        if base.is_Function and name in ('sign', 'Heaviside', 'Abs', 'rect', 'tri', 'sincn', 'sincu', 'trap'):
            if not base.args[0].has(self.x):
                raise Uncanonical('constant atom %s' % base)
            if not ex.is_Integer or int(ex) < 1:
                raise Uncanonical('bad power of %s' % name)
            return ('atom', name, base.args, int(ex))
        if base.is_Function or has_atoms(factor):
            raise Uncanonical('atom inside a non-product: %s' % factor)
        return ('coef', factor)

    def term_nf(self, factors, xval):
        """list of Terms for one product (list of factors), coefficient evaluated at x = xval"""
        coef = sp.Integer(1)
        parts = [[Term()]]
        delta = None
        for fac in factors:
            k = self.classify(fac)
            if k[0] == 'coef':
                coef = coef * k[1]
            elif k[0] == 'delta':
                if delta is not None:
                    raise Uncanonical('two deltas')
                delta = k
            else:
                _, name, args, power = k
                if name == 'Abs':
                    # |y|^p = y^p * sgn(y)^p
                    coef = coef * args[0] ** power
                    parts.append(self.atom_terms('sign', args, power))
                else:
                    parts.append(self.atom_terms(name, args, power))
        if delta is None:
            acc = parts[0]
            for p in parts[1:]:
                acc = self.mul_terms(acc, p)
            try:
                cv = gq_eval(coef, self.env(xval))
            except ZeroDivisionError:
                raise
            for t in acc:
                t.c = cmul(t.c, cv)
            return acc
        # sifting: M(x) delta^(n)(s x + b)
        _, darg, n = delta
        s, b = self.real_lin(darg)
        sP = lp_val(s, self.P)
        if sP == 0:
            raise Uncanonical('delta of a constant')
        loc = lp_scale(-1, lp_mul(b, lp_inv_mono(s)))
        scale = 1 / (sP ** n * abs(sP))
        M = coef
        for fac in factors:
            k = self.classify(fac)
            if k[0] == 'atom':
                if k[1] != 'exp':
                    raise Uncanonical('delta times %s' % k[1])
                M = M * fac
        out = []
        locsym = sp.Symbol('__loc', real=True)
        for kk in range(n + 1):
            dM = sp.diff(M, self.x, kk) if kk else M
            if kk and dM == 0:
                continue
            # constant NF of dM at x = loc: substitute a symbol, canonicalise with x := loc
            sub = NFBuilder(self.x, lp_val(loc, self.P), self.P, self.sqrtP, self.extra)
            try:
                ts = sub.expr_nf_at_loc(dM, loc)
            except ZeroDivisionError:
                raise Uncanonical('degenerate impulse coefficient (0/0 at the impulse)')
            binom = sp.binomial(n, kk) * (-1) ** kk
            for t in ts:
                t.c = cmul(t.c, (Fraction(int(binom)) * scale, Fraction(0)))
                t.d = (n - kk, list(loc))
                out.append(t)
        return out

    def expr_nf_at_loc(self, e, loc):
        """NF of e evaluated at x = loc (a Laurent number): all exponentials become constants"""
        ts = self.expr_terms(e, lp_val(loc, self.P))
        out = []
        for t in ts:
            if t.at or t.d is not None:
                raise Uncanonical('atoms under a delta')
            t.v = lp_add(t.v, lp_mul(t.u, loc))
            t.u = list(ZERO3)
            lv = lp_val(loc, self.P)
            t.rx = [Fraction(0), Fraction(0), t.rx[0] * lv * lv + t.rx[1] * lv + t.rx[2]]
            out.append(t)
        return out

    def expr_terms(self, e, xval):
        e = prep(e)
        out = []
        for factors in distribute(e):
            out += self.term_nf(factors, xval)
        return out

    def nf(self, e):
        ts = self.expr_terms(e, self.x0)
        acc = {}
        for t in ts:
            fold_phase(t)
            k = t.key()
            if k in acc:
                acc[k].c = (acc[k].c[0] + t.c[0], acc[k].c[1] + t.c[1])
            else:
                acc[k] = t
        res = [t for t in acc.values() if t.c != (0, 0)]
        res.sort(key=lambda t: repr(t.key()))
        return res


ATOM_NAMES = ('sign', 'Heaviside', 'Abs', 'rect', 'tri', 'sincn', 'sincu', 'trap', 'DiracDelta', 'exp')


def has_atoms(e):
    return any(type(a).__name__ in ATOM_NAMES for a in e.atoms(sp.Function))


def distribute(e, limit=4000):
    """e as a list of products (lists of factors), distributing sums that contain atoms;
    atom-free sub-expressions are never expanded (their denominators stay intact)"""
    if not has_atoms(e):
        return [[e]] if e != 0 else []
    if e.is_Add:
        out = []
        for a in e.args:
            out += distribute(a, limit)
        return out
    if e.is_Mul:
        acc = [[]]
        for a in e.args:
            da = distribute(a, limit)
            acc = [x + y for x in acc for y in da]
            if len(acc) > limit:
                raise Uncanonical('too many terms')
        return acc
    if e.is_Pow and e.args[1].is_Integer and int(e.args[1]) >= 1 and e.args[0].is_Add:
        acc = [[]]
        for _ in range(int(e.args[1])):
            da = distribute(e.args[0], limit)
            acc = [x + y for x in acc for y in da]
            if len(acc) > limit:
                raise Uncanonical('too many terms')
        return acc
    return [[e]]


def _abs_exp(q):
    """exp(p + c*Abs(u)) -> exp(p) * (exp(c u) H(u) + exp(-c u) H(-u)) for a single Abs of the variable part"""
    arg = sp.expand(q.args[0])
    absd = [a for a in arg.atoms(sp.Abs)]
    if len(absd) != 1:
        raise Uncanonical('exponent with several Abs')
    A = absd[0]
    c = arg.coeff(A)
    rest = sp.expand(arg - c * A)
    if rest.has(sp.Abs) or c.has(sp.Abs) or c == 0:
        raise Uncanonical('exponent not linear in Abs')
    u = A.args[0]
    return sp.exp(rest) * (sp.exp(c * u) * sp.Heaviside(u) + sp.exp(-c * u) * sp.Heaviside(-u))


def prep(e):
    """trig/hyperbolic -> exponentials (only these heads), exp(c |u|) -> one-sided exponentials, so that products expand"""
    e = sp.sympify(e)
    for h in (sp.sin, sp.cos, sp.sinh, sp.cosh):
        if e.has(h):
            e = e.replace(lambda q, h=h: isinstance(q, h), lambda q: q.rewrite(sp.exp))
    if e.has(sp.Abs):
        e = e.replace(lambda q: isinstance(q, sp.exp) and q.args[0].has(sp.Abs), _abs_exp)
    if e.has(sp.tan) or e.has(sp.tanh) or e.has(sp.Piecewise) or e.has(sp.Integral) or e.has(sp.Derivative):
        raise Uncanonical('unsupported head')
    return e


def nf_json(e, x, x0, P, sqrtP, extra_env=None):
    """canonical form as JSON-able data (all numbers 'p/q' strings)"""
    ts = NFBuilder(x, x0, P, sqrtP, extra_env).nf(e)
    out = []
    for t in ts:
        out.append({
            'c': [frac_str(t.c[0]), frac_str(t.c[1])],
            'd': None if t.d is None else [t.d[0], [frac_str(q) for q in t.d[1]]],
            'u': [frac_str(q) for q in t.u], 'v': [frac_str(q) for q in t.v],
            'rx': [frac_str(q) for q in t.rx],
            'at': [[k[0], frac_str(k[1]), frac_str(k[2]), frac_str(k[3]), p] for k, p in sorted(t.at.items())],
        })
    return out
