"""Fail-closed translator: lcapy/synthesis.py (class Synthesis) -> Coq tables.

Reads the *source text* with `ast` (never imports or runs it) and emits, for the
interpreter of coq/theory/SynthPat.v / SynthLadder.v:

  pattern realisers (seriesRL ... parallelRLC)  ->  `pat` records
      which expression is expanded (lexpr or 1/lexpr), what `lexpr == 0` does,
      and, in source order, for every `a = d.pop(KEY, ...)`: the key (1/var, 1,
      var), the variable that is assigned, how it is combined (plain
      assignment, series(v, .), parallel(v, .)), the element class (R, G, L, C)
      and whether its value is `a` or `1 / a`; the returned variable or the
      final series(...)/parallel(...) of variables.
  RLC                                            ->  MTry a b  (try a except b)
  cauerI / cauerII                               ->  `ladder` records
  fosterI / fosterII                             ->  `foster` records
  Synthesis.network                              ->  default form name
plus pinned-text checks (any difference => Untranslatable) of the glue that the
hand model (H) represents: Synthesis.network, synthesis.network,
ImmittanceMixin.network, Network.transform, oneport.series / oneport.parallel,
and of Expr.continued_fraction_coeffs / continued_fraction_inverse_coeffs
(whose Euclid loops are modelled by RatfunCF.cf_coeffs / SynthCF.icf_run).

Recognised subset of a pattern realiser (anything else => Untranslatable):
    [docstring]
    if lexpr == 0: (return None | raise ValueError(...))
    var = lexpr.var
    (lexpr = lexpr.partfrac() ; d = lexpr.expr.collect(var, evaluate=False))
  | (yexpr = (1 / lexpr).partfrac() ; d = yexpr.expr.collect(var, evaluate=False))
    [if len(d) > 3: raise ValueError(...)]      -- implied by the final test, dropped
    NAME = None ...
    a = d.pop(KEY, None) ; if a is not None: NAME = ELT | series(NAME, ELT) | parallel(NAME, ELT)
    a = d.pop(KEY, 0)    ; if a != 0: raise ValueError(...)
    if d != {}: raise ValueError(...)      -- exhaustiveness test (GExhaust); `if NAME is None: raise` and a
                                               missing test are translated too (GVarNone / GNoGuard) but fail the
                                               generated obligation guard_<realiser>
    return NAME | return series(NAME, ...) | return parallel(NAME, ...)
  KEY ::= 1 | var | 1 / var          ELT ::= (R|G|L|C)(a) | (R|G|L|C)(1 / a)
"""
import ast
import hashlib
import os


class Untranslatable(Exception):
    pass


def fail(node, why, fname='lcapy/synthesis.py'):
    raise Untranslatable('%s:%s: %s: %s' % (fname, getattr(node, 'lineno', '?'), why,
                                            (ast.unparse(node) if isinstance(node, ast.AST) else str(node))[:160]))


def strip_doc(body):
    if body and isinstance(body[0], ast.Expr) and isinstance(body[0].value, ast.Constant) and isinstance(body[0].value.value, str):
        return body[1:]
    return body


def is_name(n, name):
    return isinstance(n, ast.Name) and n.id == name


def is_const(n, v):
    return isinstance(n, ast.Constant) and type(n.value) is type(v) and n.value == v


def is_raise_valueerror(st):
    return (isinstance(st, ast.Raise) and isinstance(st.exc, ast.Call) and is_name(st.exc.func, 'ValueError')
            and st.cause is None)


def one_over(n, name):
    """1 / <name>"""
    return (isinstance(n, ast.BinOp) and isinstance(n.op, ast.Div) and is_const(n.left, 1) and is_name(n.right, name))


KINDS = {'R': 'kR', 'G': 'kG', 'L': 'kL', 'C': 'kC'}
COMBS = {'series': 'CSer', 'parallel': 'CPar'}


class Pattern:
    def __init__(self, name, par, zero_none, steps, ret, nvars, line):
        self.name, self.par, self.zero_none, self.steps, self.ret, self.nvars, self.line = name, par, zero_none, steps, ret, nvars, line

    def coq(self):
        def b(x):
            return 'true' if x else 'false'
        ss = []
        for st in self.steps:
            if st[0] == 'pop':
                _, key, var, cb, kind, inv = st
                ss.append('SPop %s %d%%nat %s %s %s' % (key, var, cb, kind, b(inv)))
            else:
                ss.append('SRej %s' % st[1])
        if self.ret[0] == 'var':
            r = 'RVar %d%%nat' % self.ret[1]
        else:
            r = '%s [%s]' % ('RSer' if self.ret[0] == 'series' else 'RPar', '; '.join('%d%%nat' % v for v in self.ret[1]))
        g = {'exhaust': 'GExhaust', 'none': 'GNoGuard'}.get(self.guard[0]) or '(GVarNone %d%%nat)' % self.guard[1]
        return 'MkPat %s %s %s [%s] (%s)' % (b(self.par), b(self.zero_none), g, '; '.join(ss), r)

    def fingerprint(self):
        return (self.par, self.zero_none, self.guard, tuple(self.steps), self.ret)


def parse_key(n, varname):
    if is_const(n, 1):
        return 'P0'
    if is_name(n, varname):
        return 'P1'
    if one_over(n, varname):
        return 'Pm1'
    fail(n, 'unrecognised dictionary key')


def parse_elt(n):
    """(R|G|L|C)(a) or (R|G|L|C)(1 / a) -> (kind, inv)"""
    if not (isinstance(n, ast.Call) and isinstance(n.func, ast.Name) and n.func.id in KINDS
            and len(n.args) == 1 and not n.keywords):
        fail(n, 'expected an element constructor R/G/L/C with one argument')
    a = n.args[0]
    if is_name(a, 'a'):
        return KINDS[n.func.id], False
    if one_over(a, 'a'):
        return KINDS[n.func.id], True
    fail(n, 'element value must be `a` or `1 / a`')


def parse_pattern(fn):
    name = fn.name
    if [a.arg for a in fn.args.args] != ['self', 'lexpr'] or fn.args.vararg or fn.args.kwarg or fn.args.defaults:
        fail(fn, 'unexpected signature')
    body = strip_doc(fn.body)
    i = 0

    def cur():
        if i >= len(body):
            fail(fn, 'unexpected end of %s' % name)
        return body[i]
    # if lexpr == 0: ...
    st = cur()
    if not (isinstance(st, ast.If) and not st.orelse and isinstance(st.test, ast.Compare) and is_name(st.test.left, 'lexpr')
            and len(st.test.ops) == 1 and isinstance(st.test.ops[0], ast.Eq) and is_const(st.test.comparators[0], 0)
            and len(st.body) == 1):
        fail(st, 'expected `if lexpr == 0:`')
    zb = st.body[0]
    if isinstance(zb, ast.Return) and is_const(zb.value, None):
        zero_none = True
    elif is_raise_valueerror(zb):
        zero_none = False
    else:
        fail(zb, 'unexpected action for lexpr == 0')
    i += 1
    # var = lexpr.var
    st = cur()
    if ast.unparse(st) != 'var = lexpr.var':
        fail(st, 'expected `var = lexpr.var`')
    i += 1
    st = cur()
    u = ast.unparse(st)
    if u == 'lexpr = lexpr.partfrac()':
        par, ename = False, 'lexpr'
    elif u == 'yexpr = (1 / lexpr).partfrac()':
        par, ename = True, 'yexpr'
    else:
        fail(st, 'expected the partial-fraction expansion of lexpr or 1 / lexpr')
    i += 1
    st = cur()
    if ast.unparse(st) != 'd = %s.expr.collect(var, evaluate=False)' % ename:
        fail(st, 'expected `d = %s.expr.collect(var, evaluate=False)`' % ename)
    i += 1
    st = cur()
    if ast.unparse(st.test if isinstance(st, ast.If) else st) == 'len(d) > 3':
        if not (len(st.body) == 1 and is_raise_valueerror(st.body[0]) and not st.orelse):
            fail(st, 'unexpected body of the len(d) test')
        i += 1   # implied by the final `d != {}` test (at most three keys are ever popped)
    variables = []
    while isinstance(cur(), ast.Assign) and is_const(cur().value, None):
        st = cur()
        if len(st.targets) != 1 or not isinstance(st.targets[0], ast.Name):
            fail(st, 'unexpected initialisation')
        if st.targets[0].id in variables or st.targets[0].id in ('a', 'd', 'var', 'lexpr', 'yexpr'):
            fail(st, 'duplicate or reserved variable')
        variables.append(st.targets[0].id)
        i += 1
    if not variables:
        fail(cur(), 'no network variable initialised to None')
    steps = []
    popped = set()
    while True:
        st = cur()
        if isinstance(st, (ast.If, ast.Return)):
            break
        # a = d.pop(KEY, DEFAULT)
        if not (isinstance(st, ast.Assign) and len(st.targets) == 1 and is_name(st.targets[0], 'a')
                and isinstance(st.value, ast.Call) and isinstance(st.value.func, ast.Attribute)
                and st.value.func.attr == 'pop' and is_name(st.value.func.value, 'd')
                and len(st.value.args) == 2 and not st.value.keywords):
            fail(st, 'expected `a = d.pop(KEY, default)`')
        key = parse_key(st.value.args[0], 'var')
        if key in popped:
            fail(st, 'key popped twice')
        popped.add(key)
        dflt = st.value.args[1]
        i += 1
        nx = cur()
        if is_const(dflt, None):
            if not (isinstance(nx, ast.If) and ast.unparse(nx.test) == 'a is not None' and not nx.orelse and len(nx.body) == 1):
                fail(nx, 'expected `if a is not None:` with one assignment')
            asg = nx.body[0]
            if not (isinstance(asg, ast.Assign) and len(asg.targets) == 1 and isinstance(asg.targets[0], ast.Name)
                    and asg.targets[0].id in variables):
                fail(asg, 'expected an assignment to a network variable')
            v = variables.index(asg.targets[0].id)
            val = asg.value
            if isinstance(val, ast.Call) and isinstance(val.func, ast.Name) and val.func.id in COMBS:
                if len(val.args) != 2 or val.keywords or not is_name(val.args[0], asg.targets[0].id):
                    fail(asg, 'expected %s(<same variable>, <element>)' % val.func.id)
                kind, inv = parse_elt(val.args[1])
                cb = COMBS[val.func.id]
            else:
                kind, inv = parse_elt(val)
                cb = 'CSet'
            steps.append(('pop', key, v, cb, kind, inv))
        elif is_const(dflt, 0):
            if not (isinstance(nx, ast.If) and ast.unparse(nx.test) == 'a != 0' and not nx.orelse and len(nx.body) == 1
                    and is_raise_valueerror(nx.body[0])):
                fail(nx, 'expected `if a != 0: raise ValueError(...)`')
            steps.append(('rej', key))
        else:
            fail(st, 'unexpected default of d.pop')
        i += 1
    # the test before the return.  Exhaustiveness tests ("nothing is left in d") are
    # translated to GExhaust; tests that do not imply that every term was consumed are
    # translated faithfully (GVarNone / GNoGuard) and make the generated obligation
    # guard_<name> : p_exhaust pat_<name> = true  fail.
    st = cur()
    if isinstance(st, ast.Return):
        guard = ('none',)
    else:
        if not (isinstance(st, ast.If) and not st.orelse and len(st.body) == 1 and is_raise_valueerror(st.body[0])):
            fail(st, 'expected `if <test>: raise ValueError(...)` before the return')
        t = ast.unparse(st.test)
        if t in ('d != {}', 'd != dict()', 'len(d) != 0', 'len(d) > 0', 'len(d) >= 1', 'd', 'not d == {}', 'not not d', 'len(d)'):
            guard = ('exhaust',)
        else:
            m = None
            if (isinstance(st.test, ast.Compare) and isinstance(st.test.left, ast.Name) and st.test.left.id in variables
                    and len(st.test.ops) == 1 and isinstance(st.test.ops[0], ast.Is) and is_const(st.test.comparators[0], None)):
                m = variables.index(st.test.left.id)
            if m is None:
                fail(st, 'unrecognised test before the return')
            guard = ('varnone', m)
        i += 1
    st = cur()
    if not isinstance(st, ast.Return) or i != len(body) - 1:
        fail(st, 'expected the final return')
    rv = st.value
    if isinstance(rv, ast.Name) and rv.id in variables:
        ret = ('var', variables.index(rv.id))
    elif (isinstance(rv, ast.Call) and isinstance(rv.func, ast.Name) and rv.func.id in COMBS and not rv.keywords
          and rv.args and all(isinstance(a, ast.Name) and a.id in variables for a in rv.args)):
        ret = (rv.func.id, tuple(variables.index(a.id) for a in rv.args))
    else:
        fail(st, 'unexpected return value')
    p = Pattern(name, par, zero_none, steps, ret, len(variables), fn.lineno)
    p.guard = guard
    return p


def parse_realiser_call(n, loopvar):
    """OP(net, self.PAT(LaplaceDomainExpression(ARG))) -> (op, pat, inv)"""
    if not (isinstance(n, ast.Assign) and len(n.targets) == 1 and is_name(n.targets[0], 'net')):
        fail(n, 'expected `net = ...`')
    v = n.value
    if not (isinstance(v, ast.Call) and isinstance(v.func, ast.Name) and v.func.id in COMBS and len(v.args) == 2
            and not v.keywords and is_name(v.args[0], 'net')):
        fail(n, 'expected series(net, .) or parallel(net, .)')
    c = v.args[1]
    if not (isinstance(c, ast.Call) and isinstance(c.func, ast.Attribute) and is_name(c.func.value, 'self')
            and len(c.args) == 1 and not c.keywords):
        fail(n, 'expected self.<realiser>(...)')
    w = c.args[0]
    if not (isinstance(w, ast.Call) and is_name(w.func, 'LaplaceDomainExpression') and len(w.args) == 1 and not w.keywords):
        fail(n, 'expected LaplaceDomainExpression(...)')
    a = w.args[0]
    if is_name(a, loopvar):
        inv = False
    elif one_over(a, loopvar):
        inv = True
    else:
        fail(n, 'argument must be `%s` or `1 / %s`' % (loopvar, loopvar))
    return COMBS[v.func.id], c.func.attr, inv


def parse_cauer(fn):
    body = strip_doc(fn.body)
    if len(body) != 4:
        fail(fn, 'unexpected shape of %s' % fn.name)
    u = ast.unparse(body[0])
    table = {'coeffs = lexpr.continued_fraction_coeffs()': (False, False),
             'coeffs = lexpr.continued_fraction_inverse_coeffs()': (False, True),
             'coeffs = (1 / lexpr).continued_fraction_coeffs()': (True, False),
             'coeffs = (1 / lexpr).continued_fraction_inverse_coeffs()': (True, True)}
    if u not in table:
        fail(body[0], 'unexpected coefficient source')
    src_inv, et = table[u]
    if ast.unparse(body[1]) != 'net = None':
        fail(body[1], 'expected `net = None`')
    lp = body[2]
    if not (isinstance(lp, ast.For) and ast.unparse(lp.target) == '(m, coeff)' and ast.unparse(lp.iter) == 'enumerate(reversed(coeffs))'
            and not lp.orelse and len(lp.body) == 2):
        fail(lp, 'expected `for m, coeff in enumerate(reversed(coeffs)):`')
    if ast.unparse(lp.body[0]) != 'n = len(coeffs) - m - 1':
        fail(lp.body[0], 'expected `n = len(coeffs) - m - 1`')
    br = lp.body[1]
    if not (isinstance(br, ast.If) and ast.unparse(br.test) == 'n & 1 == 0' and len(br.body) == 1 and len(br.orelse) == 1):
        fail(br, 'expected `if n & 1 == 0: ... else: ...`')
    ev = br.body[0]
    skip0 = False
    if isinstance(ev, ast.If):
        if not (ast.unparse(ev.test) == 'not (n == 0 and coeff == 0)' and not ev.orelse and len(ev.body) == 1):
            fail(ev, 'unexpected guard')
        skip0 = True
        ev = ev.body[0]
    even = parse_realiser_call(ev, 'coeff')
    odd = parse_realiser_call(br.orelse[0], 'coeff')
    if ast.unparse(body[3]) != 'return net':
        fail(body[3], 'expected `return net`')
    return {'name': fn.name, 'src_inv': src_inv, 'et': et, 'even': even, 'odd': odd, 'skip0': skip0, 'line': fn.lineno}


def parse_foster(fn):
    body = strip_doc(fn.body)
    if len(body) != 4:
        fail(fn, 'unexpected shape of %s' % fn.name)
    u = ast.unparse(body[0])
    if u == 'expr = lexpr.partfrac(combine_conjugates=True)':
        src_inv = False
    elif u == 'expr = (1 / lexpr).partfrac(combine_conjugates=True)':
        src_inv = True
    else:
        fail(body[0], 'unexpected expansion')
    if ast.unparse(body[1]) != 'net = None':
        fail(body[1], 'expected `net = None`')
    lp = body[2]
    if not (isinstance(lp, ast.For) and is_name(lp.target, 'term') and ast.unparse(lp.iter) == 'expr.as_ordered_terms()'
            and not lp.orelse and len(lp.body) == 2):
        fail(lp, 'expected `for term in expr.as_ordered_terms():`')
    if ast.unparse(lp.body[0]) != 'term = term.simplify()':
        fail(lp.body[0], 'expected `term = term.simplify()`')
    op, pat, inv = parse_realiser_call(lp.body[1], 'term')
    if ast.unparse(body[3]) != 'return net':
        fail(body[3], 'expected `return net`')
    return {'name': fn.name, 'src_inv': src_inv, 'op': op, 'pat': pat, 'inv': inv, 'line': fn.lineno}


def parse_try(fn):
    body = strip_doc(fn.body)
    if not (len(body) == 1 and isinstance(body[0], ast.Try)):
        return None
    t = body[0]
    if t.orelse or t.finalbody or len(t.handlers) != 1 or len(t.body) != 1 or len(t.handlers[0].body) != 1:
        fail(fn, 'unexpected try statement')

    def call(st):
        if not (isinstance(st, ast.Return) and isinstance(st.value, ast.Call) and isinstance(st.value.func, ast.Attribute)
                and is_name(st.value.func.value, 'self') and len(st.value.args) == 1 and is_name(st.value.args[0], 'lexpr')
                and not st.value.keywords):
            fail(st, 'expected `return self.<realiser>(lexpr)`')
        return st.value.func.attr
    h = t.handlers[0]
    if h.type is not None and ast.unparse(h.type) not in ('Exception', 'ValueError'):
        fail(h, 'unexpected exception filter')
    return (call(t.body[0]), call(h.body[0]))


NETWORK_BODY = '''if form == 'default':
    form = %r
lexpr = expr(lexpr)
if not lexpr.is_impedance:
    raise ValueError('Expression needs to be an impedance')
lexpr = lexpr.laplace()
try:
    method = getattr(self, form)
except AttributeError:
    raise ValueError('Unknown form %%s, known forms include: cauerI, cauerII, fosterI, fosterII' %% form)
net = method(lexpr)
return net'''

SERIES_BODY = '''args = [net for net in args if net is not None]
if args == []:
    return None
if len(args) == 1:
    return args[0]
return %s(*args)'''

CF_BODY = '''coeffs = []
var = self.var

def foo(Npoly, Dpoly):
    (NLM, NLC) = Npoly.LT()
    (DLM, DLC) = Dpoly.LT()
    NLT = sym.Poly(NLM.as_expr() * NLC, var)
    DLT = sym.Poly(DLM.as_expr() * DLC, var)
    Q = NLT / DLT
    coeffs.append(Q)
    Npoly2 = sym.Poly(Npoly.as_expr() - Q * Dpoly.as_expr(), var)
    if Npoly2 != 0:
        foo(Dpoly, Npoly2)
(N, D) = self.sympy.as_numer_denom()
Npoly = sym.Poly(N, var)
Dpoly = sym.Poly(D, var)
if Dpoly.degree() > Npoly.degree():
    coeffs.append(0)
    (Npoly, Dpoly) = (Dpoly, Npoly)
foo(Npoly, Dpoly)
return expr(coeffs)'''

ICF_BODY = '''coeffs = []
var = self.var

def foo(Npoly, Dpoly):
    (NEM, NEC) = Npoly.ET()
    (DEM, DEC) = Dpoly.ET()
    NET = NEM.as_expr() * NEC
    DET = DEM.as_expr() * DEC
    if sym.Poly(NET, var).degree() > sym.Poly(DET, var).degree():
        coeffs.append(0)
        foo(Dpoly, Npoly)
        return
    Q = NET / DET
    coeffs.append(Q)
    Npoly2 = sym.Poly(Npoly.as_expr() - Q * Dpoly.as_expr(), var)
    if Npoly2 != 0:
        foo(Dpoly, Npoly2)
(N, D) = self.sympy.as_numer_denom()
Npoly = sym.Poly(N, var)
Dpoly = sym.Poly(D, var)
foo(Npoly, Dpoly)
return expr(coeffs)'''


def body_text(fn):
    return '\n'.join(ast.unparse(s) for s in strip_doc(fn.body))


def body_dump(fn):
    return [ast.dump(s) for s in strip_doc(fn.body)]


def text_dump(text):
    """AST dump of a function body given as source text (comparison is on the AST,
    so layout, comments and parenthesisation do not matter)"""
    src = 'def _f():\n' + '\n'.join('    ' + ln for ln in text.split('\n'))
    return [ast.dump(s) for s in ast.parse(src).body[0].body]


def find_def(tree, name, cls=None, fname='?'):
    scope = tree.body
    if cls is not None:
        cs = [n for n in tree.body if isinstance(n, ast.ClassDef) and n.name == cls]
        if len(cs) != 1:
            raise Untranslatable('%s: class %s not found' % (fname, cls))
        scope = cs[0].body
    fs = [n for n in scope if isinstance(n, ast.FunctionDef) and n.name == name]
    if len(fs) != 1:
        raise Untranslatable('%s: %s%s not found (or defined twice)' % (fname, (cls + '.') if cls else '', name))
    return fs[0]


def pinned(repo, rel, name, cls, expected):
    path = os.path.join(repo, rel)
    tree = ast.parse(open(path).read())
    fn = find_def(tree, name, cls, rel)
    got = body_text(fn)
    if body_dump(fn) != text_dump(expected):
        raise Untranslatable('%s:%d: %s%s no longer has the modelled body:\n%s' % (rel, fn.lineno, (cls + '.') if cls else '', name, got[:600]))


class Translation:
    pass


def translate(repo):
    path = os.path.join(repo, 'lcapy', 'synthesis.py')
    src = open(path).read()
    tr = Translation()
    tr.path = path
    tr.sha = hashlib.sha256(src.encode()).hexdigest()
    tree = ast.parse(src)
    cs = [n for n in tree.body if isinstance(n, ast.ClassDef) and n.name == 'Synthesis']
    if len(cs) != 1:
        raise Untranslatable('lcapy/synthesis.py: class Synthesis not found')
    # the names the realisers use must be the oneport ones
    imports = [ast.unparse(n) for n in tree.body if isinstance(n, (ast.Import, ast.ImportFrom))]
    need = 'from .oneport import L, C, R, G, parallel, series'
    if need not in imports:
        raise Untranslatable('lcapy/synthesis.py: expected `%s`' % need)
    for n in tree.body:
        if isinstance(n, (ast.FunctionDef, ast.ClassDef, ast.Assign)) and getattr(n, 'name', None) in ('L', 'C', 'R', 'G', 'parallel', 'series'):
            fail(n, 'element/combination name is redefined')
    tr.patterns, tr.tries, tr.cauers, tr.fosters, tr.unimplemented = {}, {}, {}, {}, []
    tr.order = []
    tr.default = None
    for fn in cs[0].body:
        if isinstance(fn, ast.Expr) and isinstance(fn.value, ast.Constant):
            continue
        if not isinstance(fn, ast.FunctionDef):
            fail(fn, 'unexpected class-level statement')
        if fn.decorator_list:
            fail(fn, 'decorated method')
        body = strip_doc(fn.body)
        if fn.name == 'network':
            txt = body_text(fn)
            import re
            m = re.match(r"if form == 'default':\n    form = '([A-Za-z0-9_]+)'\n", txt)
            if not m or body_dump(fn) != text_dump(NETWORK_BODY % m.group(1)):
                fail(fn, 'Synthesis.network no longer has the modelled body')
            if [a.arg for a in fn.args.args] != ['self', 'lexpr', 'form'] or ast.unparse(fn.args.defaults[0]) != "'default'":
                fail(fn, 'unexpected signature of network')
            tr.default = m.group(1)
            continue
        if len(body) == 1 and isinstance(body[0], ast.Raise) and ast.unparse(body[0]).startswith('raise NotImplementedError'):
            tr.unimplemented.append(fn.name)
            continue
        u0 = ast.unparse(body[0]) if body else ''
        if u0.startswith('coeffs ='):
            tr.cauers[fn.name] = parse_cauer(fn)
        elif u0.startswith('expr ='):
            tr.fosters[fn.name] = parse_foster(fn)
        elif isinstance(body[0], ast.Try):
            tr.tries[fn.name] = parse_try(fn)
        else:
            tr.patterns[fn.name] = parse_pattern(fn)
        tr.order.append(fn.name)
    if tr.default is None:
        raise Untranslatable('lcapy/synthesis.py: Synthesis.network not found')
    for nm, (a, b) in tr.tries.items():
        for x in (a, b):
            if x not in tr.patterns:
                raise Untranslatable('lcapy/synthesis.py: %s refers to %s which is not a pattern realiser' % (nm, x))
    for nm, c in tr.cauers.items():
        for x in (c['even'][1], c['odd'][1]):
            if x not in tr.patterns:
                raise Untranslatable('lcapy/synthesis.py: %s refers to %s which is not a pattern realiser' % (nm, x))
    for nm, f in tr.fosters.items():
        if f['pat'] not in tr.patterns:
            raise Untranslatable('lcapy/synthesis.py: %s refers to %s which is not a pattern realiser' % (nm, f['pat']))
    # module-level network()
    fn = find_def(tree, 'network', None, 'lcapy/synthesis.py')
    if body_dump(fn) != text_dump('return Synthesis().network(lexpr, form)') or [a.arg for a in fn.args.args] != ['lexpr', 'form']:
        fail(fn, 'synthesis.network no longer forwards to Synthesis().network')
    # glue in other files
    pinned(repo, 'lcapy/immittancemixin.py', 'network', 'ImmittanceMixin', 'from .synthesis import network\nreturn network(self.Z, form)')
    pinned(repo, 'lcapy/network.py', 'transform', 'Network', 'return self.Z(s).network(form)')
    # default values of the `form` parameter of the three entry points
    def form_default(rel, name, cls, args):
        t = ast.parse(open(os.path.join(repo, rel)).read())
        f = find_def(t, name, cls, rel)
        if [a.arg for a in f.args.args] != args or len(f.args.defaults) != 1 or f.args.vararg or f.args.kwarg or f.args.kwonlyargs:
            raise Untranslatable('%s:%d: unexpected signature of %s' % (rel, f.lineno, name))
        dv = f.args.defaults[0]
        if not (isinstance(dv, ast.Constant) and isinstance(dv.value, str) and dv.value.isidentifier()):
            raise Untranslatable('%s:%d: default form of %s is not a plain name' % (rel, f.lineno, name))
        return dv.value
    tr.transform_default = form_default('lcapy/network.py', 'transform', 'Network', ['self', 'form'])
    tr.mixin_default = form_default('lcapy/immittancemixin.py', 'network', 'ImmittanceMixin', ['self', 'form'])
    tr.function_default = form_default('lcapy/synthesis.py', 'network', None, ['lexpr', 'form'])
    pinned(repo, 'lcapy/oneport.py', 'series', None, SERIES_BODY % 'Ser')
    pinned(repo, 'lcapy/oneport.py', 'parallel', None, SERIES_BODY % 'Par')
    pinned(repo, 'lcapy/expr.py', 'continued_fraction_coeffs', 'Expr', CF_BODY)
    pinned(repo, 'lcapy/expr.py', 'continued_fraction_inverse_coeffs', 'Expr', ICF_BODY)
    tr.files = ['lcapy/synthesis.py', 'lcapy/immittancemixin.py', 'lcapy/network.py', 'lcapy/oneport.py', 'lcapy/expr.py']
    return tr


def b(x):
    return 'true' if x else 'false'


def gen_coq(tr):
    out = ['(* GENERATED from %s (sha256 %s) by tools/tr_synth.py.' % (tr.path, tr.sha),
           '   Do not edit: regenerated from the source on every run. *)',
           'Require Import LT.FieldSec LT.PolyQ LT.SynthNet LT.SynthPat LT.SynthLadder.',
           'From Coq Require Import String.', '']
    for nm in tr.order:
        if nm in tr.patterns:
            p = tr.patterns[nm]
            out.append('(* Synthesis.%s, line %d *)' % (nm, p.line))
            out.append('Definition pat_%s : pat := %s.' % (nm, p.coq()))
    out.append('')
    for nm in tr.order:
        if nm in tr.cauers:
            c = tr.cauers[nm]
            out.append('(* Synthesis.%s, line %d *)' % (nm, c['line']))
            out.append('Definition lad_%s : ladder := MkLadder %s %s (MkLStep %s pat_%s %s) (MkLStep %s pat_%s %s) %s.' % (
                nm, b(c['src_inv']), b(c['et']), c['even'][0], c['even'][1], b(c['even'][2]),
                c['odd'][0], c['odd'][1], b(c['odd'][2]), b(c['skip0'])))
        if nm in tr.fosters:
            f = tr.fosters[nm]
            out.append('(* Synthesis.%s, line %d *)' % (nm, f['line']))
            out.append('Definition fos_%s : foster := MkFoster %s %s pat_%s %s.' % (nm, b(f['src_inv']), f['op'], f['pat'], b(f['inv'])))
    out.append('')
    out.append('Definition synth_default : string := "%s"%%string.' % tr.default)
    out.append('(* default value of `form` in Network.transform / ImmittanceMixin.network / synthesis.network *)')
    out.append('Definition transform_default : string := "%s"%%string.' % tr.transform_default)
    out.append('Definition mixin_default : string := "%s"%%string.' % tr.mixin_default)
    out.append('Definition function_default : string := "%s"%%string.' % tr.function_default)
    ents = []
    for nm in tr.order:
        if nm in tr.patterns:
            ents.append('("%s"%%string, MPat pat_%s)' % (nm, nm))
        elif nm in tr.tries:
            ents.append('("%s"%%string, MTry pat_%s pat_%s)' % (nm, tr.tries[nm][0], tr.tries[nm][1]))
        elif nm in tr.cauers:
            ents.append('("%s"%%string, MCauer lad_%s)' % (nm, nm))
        elif nm in tr.fosters:
            ents.append('("%s"%%string, MFoster fos_%s)' % (nm, nm))
    out.append('Definition synth_forms : list (string * method) :=\n  [%s].' % ';\n   '.join(ents))
    return '\n'.join(out) + '\n'


if __name__ == '__main__':
    import sys
    t = translate(sys.argv[1] if len(sys.argv) > 1 else '/repo')
    print(gen_coq(t))
