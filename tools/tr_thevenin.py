"""C04 translator (fail-closed): the branch structure of OnePort.thevenin() / OnePort.norton() in lcapy/oneport.py
-> a Coq table (Gen.C04evalGen) of (guard, where the immittance is evaluated, which component of the source is taken)
per signal kind, plus the constructor of the returned network.

Accepted shape (anything else raises Untranslatable and is reported as a broken obligation):

    new = self.simplify()
    X = new.<Voc|Isc>
    W = new.<impedance|admittance>
    if X.is_superposition and not W.is_real:     -> GSuperReactive
        [warn(...)]
        W1 = <imm> ; X1 = <src>
    elif X.is_ac:                                -> GAc
        ...
    elif X.is_dc and X != 0:                     -> GDcNonzero
        ...
    else:                                        -> GElse
        ...
    X1 = X1.cpt() ; W1 = W1.cpt()
    if X == 0: return W1
    if W == 0: return X1
    return <Ser|Par>(W1, X1)

    <imm> ::= W | W.subs(<pt>)                   ImmAsIs | ImmAt pt
    <src> ::= X | X.laplace() | X.select(<pt>) | X(0)
    <pt>  ::= 0 | j | X.ac_keys()[0] | <pt> * <pt> | a local name assigned a <pt> earlier in the same branch
"""
import ast


class Untranslatable(Exception):
    pass


SPEC = {'thevenin': ('Voc', 'impedance', 'Ser'), 'norton': ('Isc', 'admittance', 'Par')}


def _name(n, what):
    if not isinstance(n, ast.Name):
        raise Untranslatable('%s: expected a name, got %s' % (what, ast.dump(n)[:80]))
    return n.id


def _attr_of(n, base):
    """n is `base.attr` -> attr"""
    if isinstance(n, ast.Attribute) and isinstance(n.value, ast.Name) and n.value.id == base:
        return n.attr
    return None


class MethodTranslator:
    def __init__(self, fn, which):
        self.fn = fn
        self.which = which
        self.srcattr, self.immattr, self.ctor = SPEC[which]

    def fail(self, msg, node=None):
        raise Untranslatable('OnePort.%s%s: %s' % (self.which, ' line %d' % node.lineno if node is not None and hasattr(node, 'lineno') else '', msg))

    # ---- expressions ----
    def point(self, e, env):
        if isinstance(e, ast.Constant) and type(e.value) is int and e.value == 0:
            return 'PZero'
        if isinstance(e, ast.Name):
            if e.id in env:
                return env[e.id]
            if e.id == 'j':
                return 'PJ'
            self.fail('unknown name %s in an evaluation point' % e.id, e)
        if isinstance(e, ast.BinOp) and isinstance(e.op, ast.Mult):
            return '(PMul %s %s)' % (self.point(e.left, env), self.point(e.right, env))
        # X.ac_keys()[0]
        if isinstance(e, ast.Subscript):
            idx = e.slice
            if isinstance(idx, ast.Index):      # py < 3.9
                idx = idx.value
            if isinstance(idx, ast.Constant) and idx.value == 0 and isinstance(e.value, ast.Call) and not e.value.args \
                    and not e.value.keywords and _attr_of(e.value.func, self.X) == 'ac_keys':
                return 'POmega'
        self.fail('evaluation point not understood: %s' % ast.dump(e)[:120], e)

    def imm(self, e, env):
        if isinstance(e, ast.Name) and e.id == self.W:
            return 'ImmAsIs'
        if isinstance(e, ast.Call) and _attr_of(e.func, self.W) == 'subs' and len(e.args) == 1 and not e.keywords:
            return '(ImmAt %s)' % self.point(e.args[0], env)
        self.fail('immittance expression not understood: %s' % ast.dump(e)[:120], e)

    def src(self, e, env):
        if isinstance(e, ast.Name) and e.id == self.X:
            return 'SrcAsIs'
        if isinstance(e, ast.Call) and not e.keywords:
            if _attr_of(e.func, self.X) == 'laplace' and not e.args:
                return 'SrcLaplace'
            if _attr_of(e.func, self.X) == 'select' and len(e.args) == 1:
                return '(SrcSelect %s)' % self.point(e.args[0], env)
            if isinstance(e.func, ast.Name) and e.func.id == self.X and len(e.args) == 1 \
                    and isinstance(e.args[0], ast.Constant) and type(e.args[0].value) is int and e.args[0].value == 0:
                return 'SrcAtZero'
        self.fail('source expression not understood: %s' % ast.dump(e)[:120], e)

    def guard(self, t):
        X, W = self.X, self.W
        if isinstance(t, ast.Attribute) and _attr_of(t, X) == 'is_ac':
            return 'GAc'
        if isinstance(t, ast.BoolOp) and isinstance(t.op, ast.And) and len(t.values) == 2:
            a, b = t.values
            if _attr_of(a, X) == 'is_superposition' and isinstance(b, ast.UnaryOp) and isinstance(b.op, ast.Not) \
                    and _attr_of(b.operand, W) == 'is_real':
                return 'GSuperReactive'
            if _attr_of(a, X) == 'is_dc' and self.cmp0(b, X, ast.NotEq):
                return 'GDcNonzero'
        self.fail('guard not understood: %s' % ast.dump(t)[:160], t)

    @staticmethod
    def cmp0(t, name, op):
        return (isinstance(t, ast.Compare) and isinstance(t.left, ast.Name) and t.left.id == name and len(t.ops) == 1
                and isinstance(t.ops[0], op) and isinstance(t.comparators[0], ast.Constant)
                and type(t.comparators[0].value) is int and t.comparators[0].value == 0)

    # ---- statements ----
    def branch(self, g, body):
        env = {}
        out = {}
        for st in body:
            if isinstance(st, ast.Expr) and isinstance(st.value, ast.Call) and isinstance(st.value.func, ast.Name) and st.value.func.id == 'warn':
                continue
            if not (isinstance(st, ast.Assign) and len(st.targets) == 1 and isinstance(st.targets[0], ast.Name)):
                self.fail('statement not understood in a branch: %s' % ast.dump(st)[:120], st)
            tgt = st.targets[0].id
            if tgt == self.W1:
                out['imm'] = self.imm(st.value, env)
            elif tgt == self.X1:
                out['src'] = self.src(st.value, env)
            elif tgt in (self.X, self.W, 'new', 'self', 'j'):
                self.fail('assignment to %s inside a branch' % tgt, st)
            else:
                env[tgt] = self.point(st.value, env)
        if set(out) != {'imm', 'src'}:
            self.fail('branch %s does not assign both the immittance and the source' % g)
        return '(Br %s %s %s)' % (g, out['imm'], out['src'])

    def translate(self):
        body = [st for st in self.fn.body
                if not (isinstance(st, ast.Expr) and isinstance(st.value, ast.Constant) and isinstance(st.value.value, str))]
        if len(body) != 9:
            self.fail('expected 9 statements, found %d' % len(body))
        s_new, s_x, s_w, s_if, s_xc, s_wc, s_r1, s_r2, s_ret = body
        # new = self.simplify()
        if not (isinstance(s_new, ast.Assign) and _name(s_new.targets[0], 'target') == 'new' and isinstance(s_new.value, ast.Call)
                and _attr_of(s_new.value.func, 'self') == 'simplify' and not s_new.value.args):
            self.fail('first statement is not new = self.simplify()', s_new)
        for st, attr, slot in ((s_x, self.srcattr, 'X'), (s_w, self.immattr, 'W')):
            if not (isinstance(st, ast.Assign) and len(st.targets) == 1 and _attr_of(st.value, 'new') == attr):
                self.fail('expected <name> = new.%s' % attr, st)
            setattr(self, slot, _name(st.targets[0], 'target'))
        # X1 = X1.cpt(); W1 = W1.cpt()
        names = []
        for st in (s_xc, s_wc):
            if not (isinstance(st, ast.Assign) and len(st.targets) == 1 and isinstance(st.value, ast.Call) and not st.value.args
                    and isinstance(st.value.func, ast.Attribute) and st.value.func.attr == 'cpt'
                    and isinstance(st.value.func.value, ast.Name) and st.value.func.value.id == _name(st.targets[0], 'target')):
                self.fail('expected <name> = <name>.cpt()', st)
            names.append(st.targets[0].id)
        self.X1, self.W1 = names
        if len({self.X, self.W, self.X1, self.W1}) != 4:
            self.fail('local names are not distinct')
        # the if chain
        branches = []
        node = s_if
        while True:
            if not isinstance(node, ast.If):
                self.fail('expected an if statement', node)
            branches.append(self.branch(self.guard(node.test), node.body))
            if len(node.orelse) == 1 and isinstance(node.orelse[0], ast.If):
                node = node.orelse[0]
                continue
            if not node.orelse:
                self.fail('if chain without else', node)
            branches.append(self.branch('GElse', node.orelse))
            break
        # if X == 0: return W1 / if W == 0: return X1 / return Ctor(W1, X1)
        for st, nm, ret in ((s_r1, self.X, self.W1), (s_r2, self.W, self.X1)):
            if not (isinstance(st, ast.If) and self.cmp0(st.test, nm, ast.Eq) and not st.orelse and len(st.body) == 1
                    and isinstance(st.body[0], ast.Return) and isinstance(st.body[0].value, ast.Name) and st.body[0].value.id == ret):
                self.fail('expected `if %s == 0: return %s`' % (nm, ret), st)
        v = s_ret.value if isinstance(s_ret, ast.Return) else None
        if not (isinstance(v, ast.Call) and isinstance(v.func, ast.Name) and v.func.id in ('Ser', 'Par') and not v.keywords
                and [getattr(a, 'id', None) for a in v.args] == [self.W1, self.X1]):
            self.fail('final return is not Ser/Par(%s, %s)' % (self.W1, self.X1), s_ret)
        return branches, 'C' + v.func.id


def translate(path):
    """-> text of Gen.C04evalGen"""
    import warnings
    src = open(path).read()
    with warnings.catch_warnings():
        warnings.simplefilter('ignore')         # (invalid escape sequences in docstrings)
        mod = ast.parse(src)
    cls = [n for n in mod.body if isinstance(n, ast.ClassDef) and n.name == 'OnePort']
    if len(cls) != 1:
        raise Untranslatable('class OnePort not found in %s' % path)
    out = ['(* generated by tools/tr_thevenin.py from lcapy/oneport.py: OnePort.thevenin / OnePort.norton *)',
           'Require Import LT.FieldSec Gen.C04evalmodel.', 'From Coq Require Import List.', 'Import ListNotations.']
    for which in ('thevenin', 'norton'):
        fns = [n for n in cls[0].body if isinstance(n, ast.FunctionDef) and n.name == which]
        if len(fns) != 1:
            raise Untranslatable('OnePort.%s not found (or defined twice)' % which)
        fn = fns[0]
        if [a.arg for a in fn.args.args] != ['self'] or fn.args.vararg or fn.args.kwarg or fn.args.kwonlyargs or fn.decorator_list:
            raise Untranslatable('OnePort.%s: unexpected signature' % which)
        br, ctor = MethodTranslator(fn, which).translate()
        out.append('Definition %s_table : list branch := [\n  %s].' % (which, ';\n  '.join(br)))
        out.append('Definition %s_ctor : ctor := %s.' % (which, ctor))
    return '\n'.join(out) + '\n'


if __name__ == '__main__':
    import sys
    print(translate(sys.argv[1]))
