"""Fail-closed translator: the closed forms written in lcapy/laplace.py -> Coq  (property C09).

Reads the *source text* of /repo/lcapy/laplace.py, lcapy/transformer.py and lcapy/utils.py with `ast`
(never imports or runs them) and emits `LaplaceGen.v`: the record `gen_forms : forms K` of
coq/theory/LaplaceModel.v filled with the formulas as written in the source.

Translated (arithmetic, as written):
  LaplaceTransformer.term            `return const / s` (expr == 1), `return const / (s - arg)` (exp(alpha t)),
                                     the sifting branch DiracDelta(a t + b) * v(..) (plain delta only): const * v(t0) * exp(-s t0) / abs(scale)
  LaplaceTransformer.sin_cos         the cos -> phi + pi/2 rewrite, tau = -zeta (negative -> 0), phi += omega*tau,
                                     the expression E, the factors exp(-tau s), exp(alpha tau), exp(beta),
                                     and every `if len(factors) > <n>: raise` guard (-> gen_sc_guard)
  LaplaceTransformer.function        the four returns for rect / tri / ramp / rampstep
  LaplaceTransformer.func            func(s / scale) / abs(scale) [* exp(s * shift / scale)]
  LaplaceTransformer.derivative_undef  func1(s) * s**order - sum_m s**(order-m-1) * v^(m)(0)
  LaplaceTransformer.integral        `const2 * X / s`, `const2 * F1 * F2`
Pinned (compared verbatim after `ast.unparse`; their behaviour is the hand model LaplaceModel.v, which the
correspondence run ties to the code): the whole body of `integral` (limits / integrand tests of its three returns),
the factor-parsing statements of sin_cos, the guards of func /
derivative_undef, the order of the branch tests of `term`, `LaplaceTransformer.key`,
`LaplaceTransformer.clip_heaviside` and the single-function branch of term,
`UnilateralForwardTransformer.remove_heaviside/doit`, `utils.scale_shift` coefficient indices.
Anything outside the recognised subset raises Untranslatable(file:line) and is reported by the check as a
broken obligation.
"""
import ast
import warnings
warnings.filterwarnings("ignore", category=SyntaxWarning)
import hashlib
import os


class Untranslatable(Exception):
    pass


def fail(node, why, fname='lcapy/laplace.py'):
    raise Untranslatable('%s:%s: %s: %s' % (fname, getattr(node, 'lineno', '?'), why,
                                            (ast.unparse(node) if isinstance(node, ast.AST) else str(node))[:160]))


def U(n):
    return ast.unparse(n)


def N(text):
    """normal form of a pinned source fragment under this interpreter's ast.unparse"""
    return ast.unparse(ast.parse(text))


def is_doc(st):
    return isinstance(st, ast.Expr) and isinstance(st.value, ast.Constant) and isinstance(st.value.value, str)


def coq_nat_lit(n):
    return '%d%%nat' % n


def coq_int(n):
    n = int(n)
    if n < 0:
        return '(- %s)' % coq_int(-n)
    if n == 0:
        return '0'
    if n == 1:
        return '1'
    return '(' + ' + '.join(['1'] * n) + ')'


class Expr:
    """Python expression -> Coq term over K.  env: python name -> ('K', coqname) | ('nat', coqname) |
    ('fn', coq function head) | ('opaque', coqname)"""

    def __init__(self, env, fname='lcapy/laplace.py'):
        self.env = env
        self.fname = fname

    def nat(self, n):
        """natural-number expression (exponents)"""
        if isinstance(n, ast.Constant) and isinstance(n.value, int) and n.value >= 0:
            return coq_nat_lit(n.value)
        if isinstance(n, ast.Name) and self.env.get(n.id, (None,))[0] == 'nat':
            return self.env[n.id][1]
        if isinstance(n, ast.BinOp) and isinstance(n.op, (ast.Add, ast.Sub)):
            return '(%s %s %s)%%nat' % (self.nat(n.left), '+' if isinstance(n.op, ast.Add) else '-', self.nat(n.right))
        fail(n, 'not a natural-number expression', self.fname)

    def tr(self, n):
        if isinstance(n, ast.Constant):
            if isinstance(n.value, int) and not isinstance(n.value, bool):
                return coq_int(n.value)
            fail(n, 'unsupported constant', self.fname)
        if isinstance(n, ast.Name):
            k = self.env.get(n.id)
            if k and k[0] == 'K':
                return k[1]
            fail(n, 'unknown or non-scalar name', self.fname)
        if isinstance(n, ast.UnaryOp) and isinstance(n.op, ast.USub):
            return '(- %s)' % self.tr(n.operand)
        if isinstance(n, ast.BinOp):
            if isinstance(n.op, ast.Pow):
                return '(fpow %s %s)' % (self.tr(n.left), self.nat(n.right))
            ops = {ast.Add: '+', ast.Sub: '-', ast.Mult: '*', ast.Div: '/'}
            for k, v in ops.items():
                if isinstance(n.op, k):
                    return '(%s %s %s)' % (self.tr(n.left), v, self.tr(n.right))
            fail(n, 'unsupported operator', self.fname)
        if isinstance(n, ast.Attribute):
            if U(n) == 'sym.pi':
                return 'pi_'
            fail(n, 'unsupported attribute', self.fname)
        if isinstance(n, ast.Call):
            f = U(n.func)
            if f in ('sym.exp', 'sym.sin', 'sym.cos', 'abs') and len(n.args) == 1 and not n.keywords:
                return '(%s %s)' % ({'sym.exp': 'ex', 'sym.sin': 'sn', 'sym.cos': 'cs', 'abs': 'fabs'}[f], self.tr(n.args[0]))
            if isinstance(n.func, ast.Name) and self.env.get(n.func.id, (None,))[0] == 'fn' and len(n.args) == 1:
                return '(%s %s)' % (self.env[n.func.id][1], self.tr(n.args[0]))
            if f in self.env and self.env[f][0] == 'opaque':
                return self.env[f][1]
            # sym.Derivative(v, t, m).subs(t, 0)  ->  Ic v m
            if (isinstance(n.func, ast.Attribute) and n.func.attr == 'subs' and U(n.args[0]) == 't' and U(n.args[1]) == '0'
                    and isinstance(n.func.value, ast.Call) and U(n.func.value.func) == 'sym.Derivative'
                    and len(n.func.value.args) == 3 and U(n.func.value.args[0]) == 'v' and U(n.func.value.args[1]) == 't'
                    and self.env.get('v', (None,))[0] == 'icfun'):
                return '(Ic %s %s)' % (self.env['v'][1], self.nat(n.func.value.args[2]))
            fail(n, 'unsupported call', self.fname)
        fail(n, 'unsupported expression', self.fname)


# --------------------------------------------------------------------------------------------
SINCOS_PINNED = [
    'factors = expr.as_ordered_factors()',
    'alpha = 0', 'beta = 0', 'm = 0',
    "if factors[m].is_Function and factors[m].func is sym.exp:\n    exparg = factors[m].args[0]\n    (alpha, beta) = scale_shift(exparg, t)\n    m += 1",
    "if not (factors[m].is_Function and factors[m].func in (sym.sin, sym.cos)):\n    raise ValueError('Not expsin, no sin/cos')",
    'sincosarg = factors[m].args[0]',
    '(omega, phi) = scale_shift(sincosarg, t)',
    'm += 1',
    "if len(factors) == m + 1 and (not (factors[m].is_Function and factors[m].func is sym.Heaviside)):\n    raise ValueError('Not expsin, no Heaviside')",
]
TAU_ORELSE = ("if tau.is_Symbol and (not tau.is_positive):\n    print('Assuming %s is positive' % tau)\n"
              "elif tau.is_Mul and len(tau.args) == 2 and tau.args[0].is_negative and tau.args[1].is_Symbol:\n"
              "    print('Assuming %s is positive' % -tau)\n    tau = 0")
TERM_TESTS = [
    'expr.is_Piecewise and expr.args[0].args[1].has(t >= 0)',
    'expr.has(sym.sinh, sym.cosh, sym.tanh)',
    'len(terms) > 1',
    'expr == 1',
    'expr.is_Function and expr.func == sym.exp',
    'expr.has(sym.Integral)',
    'expr.has(sym.sin, sym.cos)',
    'expr.has(AppliedUndef)',
    'expr.is_Function and expr.args[0].has(t)',
    'expr.has(sym.Heaviside(t))',
    'expr.has(sym.DiracDelta) or expr.has(sym.Heaviside)',
]
KEY_RETURN = "(expr, t, s, kwargs.get('zero_initial_conditions', True))"
REMOVE_HEAVISIDE = ("rest = S.One\nfor factor in expr.as_ordered_factors():\n    if factor.is_Function and factor.func in (Heaviside, UnitStep) and (factor.args[0] == var):\n"
                    "        pass\n    else:\n        rest *= factor\nreturn rest")
DOIT_BODY = ("if expr.is_Piecewise and expr.args[0].args[1].has(var >= 0):\n    expr = expr.args[0].args[0]\n"
             "if not evaluate:\n    return self.noevaluate(expr, var, conjvar)\n"
             "(const, expr) = factor_const(expr, var)\nkey = self.key(expr, var, conjvar, **kwargs)\n"
             "if key in self.cache:\n    return const * self.cache[key]\nexpr = self.rewrite(expr, var)\n"
             "terms = expr.as_ordered_terms()\nresult = 0\n"
             "for term in terms:\n    sterm = self.simplify_term(term, var)\n    ret = self.term(sterm, var, conjvar, **kwargs)\n    result += ret\n"
             "self.cache[key] = result\nreturn const * result")


# the whole of LaplaceTransformer.integral: which limits / integrand shapes reach which return (hand model: integral_model,
# LInteg = second return, LIntegA = first return, LConv = third return); the three returns themselves are translated below
INTEGRAL_BODY = (
    'const, expr = factor_const(expr, t)\n'
    'if len(expr.args) != 2:\n'
    "    self.error('Expecting two args')\n"
    'integrand = expr.args[0]\n'
    'if not isinstance(expr, sym.Integral):\n'
    "    self.error('Expecting integral')\n"
    'if len(expr.args[1]) != 3:\n'
    "    self.error('Require definite integral')\n"
    'var = expr.args[1][0]\n'
    'limits = expr.args[1][1:]\n'
    'const2, expr2 = factor_const(integrand, var)\n'
    'if expr2.is_Function and expr2.args[0] == t - var and (limits[0] == 0) and (limits[1] == sym.oo):\n'
    '    return const2 * self.term(expr2.subs(t - var, t), t, s) / s\n'
    'if not limits[0].is_positive and limits[1] == t:\n'
    '    if isinstance(expr2, AppliedUndef):\n'
    '        if expr2.args[0] == expr.args[1][0]:\n'
    '            return const2 * self.func(expr2, expr2.args[0], s) / s\n'
    'if limits[0].is_positive:\n'
    "    self.error('Cannot handle lower limit %s' % limits[0])\n"
    'if limits[1] < t:\n'
    "    self.error('Cannot handle upper limit %s' % limits[1])\n"
    'if len(expr.args) != 2 or not expr2.is_Mul or (not expr2.args[0].is_Function) or (not expr2.args[1].is_Function):\n'
    "    self.error('Need integral of product of two functions')\n"
    'f1 = expr2.args[0]\n'
    'f2 = expr2.args[1]\n'
    'def f_of_var(x):\n'
    '    syms = x.free_symbols\n'
    '    return var in syms and t not in syms\n'
    'def f_of_t_minus_var(x):\n'
    "    w = sym.symbols('wxx', real=True)\n"
    '    xx = x.subs(t, w + var)\n'
    '    xx = sym.simplify(xx)\n'
    '    syms = xx.free_symbols\n'
    '    return w in syms and var not in syms\n'
    'if f_of_t_minus_var(f2) and f_of_var(f1):\n'
    '    F1 = self.term(f1, var, s)\n'
    '    F2 = self.term(f2.subs(t - var, t), t, s)\n'
    'elif f_of_t_minus_var(f1) and f_of_var(f2):\n'
    '    F1 = self.term(f1.subs(t - var, t), t, s)\n'
    '    F2 = self.term(f2, var, s)\n'
    'else:\n'
    "    self.error('Cannot recognise convolution')\n"
    'return const2 * F1 * F2\n')

CLIP_BODY = N("def value(e):\n    try:\n        (scale, shift) = scale_shift(e.args[0], t)\n    except ValueError:\n        return e\n"
              "    if scale.is_positive and shift.is_positive:\n        return sym.S.One\n    return e\n"
              "return expr.replace(lambda e: isinstance(e, sym.Heaviside), value)")
SINCOS_PINNED = [N(x) for x in SINCOS_PINNED]
TAU_ORELSE = N(TAU_ORELSE)
TERM_TESTS = [N(x) for x in TERM_TESTS]
KEY_RETURN = N(KEY_RETURN)
REMOVE_HEAVISIDE = N(REMOVE_HEAVISIDE)
DOIT_BODY = N(DOIT_BODY)
INTEGRAL_BODY = N(INTEGRAL_BODY)


class Translator:
    def __init__(self, repo):
        self.repo = repo
        self.files = {}
        self.sha = {}
        for rel in ('lcapy/laplace.py', 'lcapy/transformer.py', 'lcapy/utils.py'):
            p = os.path.join(repo, rel)
            try:
                src = open(p).read()
            except OSError as e:
                raise Untranslatable('%s: cannot read: %s' % (rel, e))
            self.sha[rel] = hashlib.sha256(src.encode()).hexdigest()
            try:
                self.files[rel] = ast.parse(src)
            except SyntaxError as e:
                raise Untranslatable('%s: syntax error: %s' % (rel, e))
        self.defs = {}
        self.notes = []
        self.guards = []
        cls = self.find_class('lcapy/laplace.py', 'LaplaceTransformer')
        self.meth = {n.name: n for n in cls.body if isinstance(n, ast.FunctionDef)}
        for need in ('term', 'sin_cos', 'function', 'func', 'derivative_undef', 'integral', 'key',
                     'integrate_0', 'integrate_0minus'):
            if need not in self.meth:
                raise Untranslatable('lcapy/laplace.py: LaplaceTransformer.%s not found' % need)
        self.tr_term()
        self.tr_sincos()
        self.tr_function()
        self.tr_func()
        self.tr_deriv()
        self.tr_integral()
        self.pin_key()
        self.pin_transformer()
        self.pin_utils()

    def find_class(self, rel, name):
        for n in self.files[rel].body:
            if isinstance(n, ast.ClassDef) and n.name == name:
                return n
        raise Untranslatable('%s: class %s not found' % (rel, name))

    def body(self, fn):
        return [st for st in fn.body if not is_doc(st)]

    # ---- term: the two inline closed forms and the branch order ---------------------------------
    def tr_term(self):
        fn = self.meth['term']
        tests = []
        for st in self.body(fn):
            if isinstance(st, ast.If):
                tests.append(U(st.test))
        if tests != TERM_TESTS:
            for i, (a, b) in enumerate(zip(tests + [None] * 20, TERM_TESTS + [None] * 20)):
                if a != b:
                    break
            fail(fn, 'the branch tests of LaplaceTransformer.term changed (test #%d: found %r, expected %r)' % (i, a, b))
        ex = Expr({'const': ('K', 'const'), 's': ('K', 's'), 'arg': ('K', 'arg')})
        got = {}
        for st in self.body(fn):
            if isinstance(st, ast.If) and U(st.test) == 'expr == 1':
                if len(st.body) != 1 or not isinstance(st.body[0], ast.Return) or st.orelse:
                    fail(st, 'unexpected body of the `expr == 1` branch')
                got['const'] = ex.tr(st.body[0].value)
            if isinstance(st, ast.If) and U(st.test) == 'expr.is_Function and expr.func == sym.exp':
                b = st.body
                if (len(b) != 2 or U(b[0]) != 'arg = expr.args[0] / t' or not isinstance(b[1], ast.If)
                        or U(b[1].test) != 'not arg.has(t)' or len(b[1].body) != 1
                        or not isinstance(b[1].body[0], ast.Return) or b[1].orelse or st.orelse):
                    fail(st, 'unexpected body of the exp(alpha t) branch')
                got['exp'] = ex.tr(b[1].body[0].value)
            if isinstance(st, ast.If) and U(st.test) == 'expr.is_Function and expr.args[0].has(t)':
                want = ("result = self.function(expr, t, s)\nif result is not None:\n    return result * const\n"
                        "expr = expand_functions(expr, t)\nexpr = self.clip_heaviside(expr, t)")
                if '\n'.join(U(x) for x in st.body) != N(want) or st.orelse:
                    fail(st, 'unexpected body of the single-function branch (function / expand_functions / clip_heaviside)')
            if isinstance(st, ast.If) and U(st.test) == 'len(terms) > 1':
                want = ("result = 0\nfor term in terms:\n    result += self.term(term, t, s, **kwargs)\nreturn const * result")
                if '\n'.join(U(x) for x in st.body) != N(want):
                    fail(st, 'unexpected body of the term-splitting branch')
        # the sifting branch  Mul(DiracDelta(a t + b), v(..))  inside `if expr.has(AppliedUndef)`
        und = [st for st in self.body(fn) if isinstance(st, ast.If) and U(st.test) == 'expr.has(AppliedUndef)']
        if len(und) != 1 or not und[0].body or not isinstance(und[0].body[0], ast.If):
            fail(fn, 'unexpected AppliedUndef branch')
        sb = und[0].body[0]
        want_test = N('expr.is_Mul and len(expr.args) == 2 and isinstance(expr.args[0], sym.DiracDelta) and '
                      'len(expr.args[0].args) == 1 and isinstance(expr.args[1], (AppliedUndef, sym.Subs))')
        if U(sb.test) != want_test or sb.orelse:
            fail(sb, 'unexpected test of the DiracDelta * function branch')
        b = sb.body
        if (len(b) != 4 or U(b[0]) != N('(scale, shift) = scale_shift(expr.args[0].args[0], t)')
                or not isinstance(b[1], ast.Assign) or U(b[1].targets[0]) != 't0'
                or U(b[2]) != N('if t0.is_negative:\n    return 0') or not isinstance(b[3], ast.Return)):
            fail(sb, 'unexpected body of the DiracDelta * function branch')
        ex2 = Expr({'const': ('K', 'const'), 's': ('K', 's'), 'scale': ('K', 'scale'), 'shift': ('K', 'shift'),
                    'expr.args[1].subs': ('opaque', 'X')})
        t0 = ex2.tr(b[1].value)
        ex2.env['t0'] = ('K', 't0')
        got['sift'] = '  let t0 := %s in\n  %s' % (t0, ex2.tr(b[3].value))
        rest_und = [U(x) for x in und[0].body[1:]]
        want_und = [N(x) for x in (
            "if expr.has(sym.Derivative):\n    return self.derivative_undef(expr, t, s, **kwargs) * const",
            "factors = expr.as_ordered_factors()",
            "if len(factors) == 1:\n    return const * self.func(factors[0], t, s)\nelif len(factors) > 2:\n    self.error('Cannot handle product')",
            "foo = factors[1]",
            "if foo.is_Function and foo.func == sym.exp and foo.args[0].has(t):\n    (scale, shift) = scale_shift(foo.args[0], t)\n"
            "    if shift == 0:\n        result = self.func(factors[0], t, s)\n        return const * result.subs(s, s - scale)",
            "self.error('Cannot handle product')")]
        if rest_und != want_und:
            fail(und[0], 'the AppliedUndef branch of term changed')
        # tail: the integrate branches
        tail = [U(st) for st in self.body(fn) if not isinstance(st, ast.If)]
        want_tail = [N('(const, expr) = factor_const(expr, t)'), 'terms = expr.expand(deep=False).as_ordered_terms()',
                     'tsym = sympify(str(t))', 'expr = expr.replace(tsym, t)', 'return self.integrate_0(expr, t, s) * const']
        if tail != want_tail:
            fail(fn, 'unexpected straight-line statements in term: %r' % tail)
        self.defs['gen_const'] = ('(const s : K) : K', got['const'])
        self.defs['gen_exp'] = ('(const arg s : K) : K', got['exp'])
        self.defs['gen_sift'] = ('(const X scale shift s : K) : K', got['sift'])

    # ---- sin_cos ------------------------------------------------------------------------------
    def tr_sincos(self):
        fn = self.meth['sin_cos']
        if [a.arg for a in fn.args.args] != ['self', 'expr', 't', 's']:
            fail(fn, 'unexpected signature of sin_cos')
        env = {'s': ('K', 's'), 'alpha': ('K', 'alpha'), 'beta': ('K', 'beta'), 'omega': ('K', 'omega'),
               'phi': ('K', 'phi'), 'zeta': ('K', 'zeta')}
        ex = Expr(env)
        lets = []          # (coq name, coq term)
        pinned = list(SINCOS_PINNED)
        guards = []        # ('const', n) | ('m', k): raise when len(factors) > n  /  > m + k
        m_now = None       # value of m relative to "after sin/cos" is tracked textually
        seen_m_incr = 0
        ret = None

        def assign(name, term):
            env[name] = ('K', name)
            lets.append((name, term))

        def cond(test):
            t = U(test)
            if isinstance(test, ast.Compare) and len(test.ops) == 1 and isinstance(test.ops[0], ast.NotEq) and U(test.comparators[0]) == '0':
                return '(negb (feqb %s 0))' % ex.tr(test.left)
            if t == 'factors[m].func is sym.cos':
                return 'iscos'
            if t == 'tau.is_negative':
                return '(neg tau)'
            fail(test, 'unsupported condition in sin_cos')

        def block(stmts, guard=None):
            """assignments under an optional condition -> lets"""
            for st in stmts:
                if isinstance(st, ast.Assign) and len(st.targets) == 1 and isinstance(st.targets[0], ast.Name):
                    nm = st.targets[0].id
                    val = ex.tr(st.value)
                elif isinstance(st, ast.AugAssign) and isinstance(st.target, ast.Name):
                    nm = st.target.id
                    if nm not in env:
                        fail(st, 'augmented assignment to an unknown name')
                    op = {ast.Add: '+', ast.Mult: '*', ast.Sub: '-'}.get(type(st.op))
                    if op is None:
                        fail(st, 'unsupported augmented assignment')
                    val = '(%s %s %s)' % (nm, op, ex.tr(st.value))
                elif isinstance(st, ast.If):
                    c = cond(st.test)
                    if U(st.test) == 'tau.is_negative':
                        if '\n'.join(U(x) for x in st.orelse) != TAU_ORELSE:
                            fail(st, 'the symbolic-tau branches of sin_cos changed')
                    elif st.orelse:
                        fail(st, 'unexpected else branch in sin_cos')
                    block(st.body, c if guard is None else '(%s && %s)' % (guard, c))
                    continue
                else:
                    fail(st, 'unsupported statement in sin_cos')
                if guard is not None:
                    if nm not in env:
                        fail(st, 'conditional first assignment')
                    val = '(if %s then %s else %s)' % (guard, val, nm)
                assign(nm, val)

        for st in self.body(fn):
            if ret is not None:
                fail(st, 'statement after return in sin_cos')
            u = U(st)
            # guards on the number of factors
            if (isinstance(st, ast.If) and not st.orelse and len(st.body) == 1 and isinstance(st.body[0], ast.Raise)
                    and isinstance(st.test, ast.Compare) and len(st.test.ops) == 1 and isinstance(st.test.ops[0], ast.Gt)
                    and U(st.test.left) == 'len(factors)'):
                r = st.test.comparators[0]
                if isinstance(r, ast.Constant) and isinstance(r.value, int):
                    guards.append(('const', r.value, seen_m_incr))
                    continue
                if U(r) == 'm' or (isinstance(r, ast.BinOp) and isinstance(r.op, ast.Add) and U(r.left) == 'm'
                                   and isinstance(r.right, ast.Constant) and isinstance(r.right.value, int)):
                    k = 0 if U(r) == 'm' else r.right.value
                    guards.append(('m', k, seen_m_incr))
                    continue
                fail(st, 'unsupported guard on len(factors)')
            if pinned and u == pinned[0]:
                pinned.pop(0)
                if u == 'm += 1':
                    seen_m_incr = 1
                continue
            if u == N('if factors[m].func is sym.cos:\n    phi += sym.pi / 2'):
                block([st])
                continue
            if u == 'tau = 0':
                assign('tau', '0')
                continue
            if isinstance(st, ast.If) and U(st.test) == 'len(factors) == m + 1':
                b = st.body
                if (len(b) < 3 or U(b[0]) != N('(eta, zeta) = scale_shift(factors[m].args[0], t)')
                        or U(b[1]) != N("if eta != 1:\n    raise ValueError('Need to use similarity theorem')") or st.orelse):
                    fail(st, 'unexpected Heaviside handling in sin_cos')
                block(b[2:], 'hasu')
                continue
            if isinstance(st, (ast.Assign, ast.AugAssign)) or isinstance(st, ast.If):
                if pinned and isinstance(st, ast.If) and any(u == p for p in pinned):
                    fail(st, 'sin_cos statements out of order')
                block([st])
                continue
            if isinstance(st, ast.Return):
                ret = ex.tr(st.value)
                continue
            fail(st, 'unsupported statement in sin_cos')
        if pinned:
            raise Untranslatable('lcapy/laplace.py:%d: sin_cos: expected statement not found: %s' % (fn.lineno, pinned[0][:80]))
        if ret is None:
            fail(fn, 'sin_cos has no return')
        body = ''.join('  let %s := %s in\n' % (n, t) for n, t in lets) + '  ' + ret
        self.defs['gen_sincos'] = ('(iscos hasu : bool) (alpha beta omega phi zeta s : K) : K', body)
        # guard: m in the source after the sin/cos factor = the model's m
        gs = []
        for kind, k, after in guards:
            if kind == 'const':
                gs.append('negb (Nat.ltb %d n)' % k)
            else:
                # m at this point of the source: model m (after sin/cos) minus (1 - after)
                if not after:
                    fail(fn, 'guard on m before the sin/cos factor is not supported')
                gs.append('negb (Nat.ltb (m + %d) n)' % k)
        self.guards = guards
        self.defs['gen_sc_guard'] = ('(n m : nat) : bool', ' && '.join(gs) if gs else 'true')

    # ---- function -----------------------------------------------------------------------------
    def tr_function(self):
        fn = self.meth['function']
        b = self.body(fn)
        if (len(b) != 4 or U(b[0]) != N('(expr, scale, shift) = similarity_shift(expr, t)')
                or not isinstance(b[1], ast.If) or U(b[1].test) != 'shift != 0' or [U(x) for x in b[1].body] != ['return None']
                or b[1].orelse or not isinstance(b[2], ast.If) or U(b[3]) != 'return None'):
            fail(fn, 'unexpected structure of LaplaceTransformer.function')
        ex = Expr({'s': ('K', 's'), 'scale': ('K', 'scale')})
        node = b[2]
        seen = []
        while True:
            t = U(node.test)
            if not t.startswith('expr.func is '):
                fail(node, 'unexpected test in function')
            kind = t[len('expr.func is '):]
            stmts = [st for st in node.body if not (isinstance(st, ast.Expr) and isinstance(st.value, ast.Call) and U(st.value.func) == 'warn')]
            if len(stmts) != 1 or not isinstance(stmts[0], ast.Return):
                fail(node, 'unexpected body in function')
            if kind not in ('rect', 'tri', 'ramp', 'rampstep'):
                fail(node, 'unknown special function %s (no specification entry)' % kind)
            self.defs['gen_' + {'rampstep': 'rstep'}.get(kind, kind)] = ('(scale s : K) : K', ex.tr(stmts[0].value))
            seen.append(kind)
            if len(node.orelse) == 1 and isinstance(node.orelse[0], ast.If):
                node = node.orelse[0]
            elif not node.orelse:
                break
            else:
                fail(node, 'unexpected else in function')
        if sorted(seen) != ['ramp', 'rampstep', 'rect', 'tri']:
            fail(fn, 'function does not handle exactly rect/tri/ramp/rampstep: %s' % seen)

    # ---- func ------------------------------------------------------------------------------
    def tr_func(self):
        fn = self.meth['func']
        b = self.body(fn)
        want = ["if not isinstance(expr, AppliedUndef):\n    self.error('Expecting function')",
                '(scale, shift) = scale_shift(expr.args[0], t)',
                'name = expr.func.__name__',
                'func = sym.Function(name[0].upper() + name[1:])']
        if [U(x) for x in b[:4]] != [N(x) for x in want]:
            fail(fn, 'unexpected head of LaplaceTransformer.func')
        ex = Expr({'s': ('K', 's'), 'scale': ('K', 'scale'), 'shift': ('K', 'shift'), 'func': ('fn', 'Fn v')})
        rest = b[4:]
        if (len(rest) != 3 or not isinstance(rest[0], ast.Assign) or U(rest[0].targets[0]) != 'result'
                or not isinstance(rest[1], ast.If) or U(rest[1].test) != 'shift != 0' or rest[1].orelse
                or len(rest[1].body) != 1 or not isinstance(rest[1].body[0], ast.Assign)
                or U(rest[1].body[0].targets[0]) != 'result' or U(rest[2]) != 'return result'):
            fail(fn, 'unexpected body of LaplaceTransformer.func')
        r0 = ex.tr(rest[0].value)
        ex.env['result'] = ('K', 'result')
        r1 = ex.tr(rest[1].body[0].value)
        self.defs['gen_func'] = ('(v : nat) (scale shift s : K) : K',
                                 '  let result := %s in\n  if negb (feqb shift 0) then %s else result' % (r0, r1))

    # ---- derivative_undef --------------------------------------------------------------------
    def tr_deriv(self):
        fn = self.meth['derivative_undef']
        b = self.body(fn)
        want = ["if not isinstance(expr, sym.Derivative):\n    self.error('Expecting derivative')",
                "if not isinstance(expr.args[0], AppliedUndef) and expr.args[1][0] != t:\n    self.error('Expecting function of t')",
                'name = expr.args[0].func.__name__',
                'func1 = sym.Function(name[0].upper() + name[1:])',
                'order = expr.args[1][1]']
        if [U(x) for x in b[:5]] != [N(x) for x in want]:
            fail(fn, 'unexpected head of derivative_undef')
        ex = Expr({'s': ('K', 's'), 'func1': ('fn', 'Fn v'), 'order': ('nat', 'order'), 'm': ('nat', 'm'), 'v': ('icfun', 'v')})
        rest = b[5:]
        if (len(rest) != 3 or not isinstance(rest[0], ast.Assign) or U(rest[0].targets[0]) != 'result'
                or not isinstance(rest[1], ast.If) or U(rest[1].test) != 'not zero_initial_conditions' or rest[1].orelse
                or U(rest[2]) != 'return result'):
            fail(fn, 'unexpected body of derivative_undef')
        r0 = ex.tr(rest[0].value)
        ib = [st for st in rest[1].body]
        if (len(ib) != 2 or U(ib[0]) != 'v = sym.Function(name)(t)' or not isinstance(ib[1], ast.For)
                or U(ib[1].target) != 'm' or U(ib[1].iter) != 'range(order)' or ib[1].orelse or len(ib[1].body) != 1
                or not isinstance(ib[1].body[0], ast.AugAssign) or U(ib[1].body[0].target) != 'result'
                or not isinstance(ib[1].body[0].op, ast.Sub)):
            fail(rest[1], 'unexpected initial-condition loop in derivative_undef')
        term = ex.tr(ib[1].body[0].value)
        self.defs['gen_deriv'] = ('(v order : nat) (zic : bool) (s : K) : K',
                                  '  let result := %s in\n  if negb zic then result - sum_range K order (fun m => %s) else result' % (r0, term))

    # ---- integral ----------------------------------------------------------------------------
    def tr_integral(self):
        fn = self.meth['integral']
        if [a.arg for a in fn.args.args] != ['self', 'expr', 't', 's']:
            fail(fn, 'unexpected signature of integral')
        got = [ln for ln in '\n'.join(U(x) for x in self.body(fn)).split('\n') if ln.strip()]
        want = [ln for ln in INTEGRAL_BODY.split('\n') if ln.strip()]
        if got != want:
            for i, (a, b) in enumerate(zip(got + [None] * (len(want) + 1), want + [None] * (len(got) + 1))):
                if a != b:
                    break
            fail(fn, 'LaplaceTransformer.integral changed (line %d of its body: found %r, expected %r)' % (i + 1, a, b))
        rets = [n for n in ast.walk(fn) if isinstance(n, ast.Return) and n.value is not None]
        # nested helper functions return booleans; keep returns of arithmetic expressions only
        arith = sorted([r for r in rets if isinstance(r.value, ast.BinOp)], key=lambda r: r.lineno)
        texts = [U(r.value) for r in arith]
        want = ['const2 * self.term(expr2.subs(t - var, t), t, s) / s',
                'const2 * self.func(expr2, expr2.args[0], s) / s',
                'const2 * F1 * F2']
        if texts != want:
            fail(fn, 'unexpected return expressions in integral: %r' % texts)
        env = {'const2': ('K', 'const2'), 's': ('K', 's'), 'F1': ('K', 'F1'), 'F2': ('K', 'F2'),
               'self.term': ('opaque', 'X'), 'self.func': ('opaque', 'X')}
        ex = Expr(env)
        a = ex.tr(arith[0].value)
        b = ex.tr(arith[1].value)
        if a != b:
            fail(fn, 'the two integral forms differ')
        self.defs['gen_integ'] = ('(const2 X s : K) : K', b)
        self.defs['gen_conv'] = ('(const2 F1 F2 : K) : K', ex.tr(arith[2].value))

    # ---- pinned pieces -------------------------------------------------------------------------
    def pin_key(self):
        if 'clip_heaviside' not in self.meth:
            raise Untranslatable('lcapy/laplace.py: LaplaceTransformer.clip_heaviside not found')
        got = '\n'.join(U(x) for x in self.body(self.meth['clip_heaviside']))
        if got != CLIP_BODY:
            fail(self.meth['clip_heaviside'], 'clip_heaviside changed (model: Heaviside(a t + b) with a > 0 and b > 0 becomes 1)')
        fn = self.meth['key']
        b = self.body(fn)
        if not b or not isinstance(b[0], ast.Return) or U(b[0].value) != KEY_RETURN:
            fail(fn, 'cache key is not (expr, t, s, zero_initial_conditions)')
        for nm in ('integrate_0', 'integrate_0minus'):
            pass
        b0 = [U(x) for x in self.body(self.meth['integrate_0'])]
        if b0 != ['return self.integrate(expr, t, s, 0, sym.oo)']:
            fail(self.meth['integrate_0'], 'integrate_0 does not integrate from 0 to oo')
        bm = [U(x) for x in self.body(self.meth['integrate_0minus'])]
        if bm != [N("t0 = sym.symbols('t0', negative=True, real=True)"), 'F = self.integrate(expr, t, s, t0, sym.oo)',
                  'return sym.limit(F, t0, 0)']:
            fail(self.meth['integrate_0minus'], 'integrate_0minus is not lim_{t0->0-} of the integral from t0')

    def pin_transformer(self):
        rel = 'lcapy/transformer.py'
        cls = self.find_class(rel, 'UnilateralForwardTransformer')
        meth = {n.name: n for n in cls.body if isinstance(n, ast.FunctionDef)}
        for nm, want in (('remove_heaviside', REMOVE_HEAVISIDE), ('doit', DOIT_BODY)):
            if nm not in meth:
                raise Untranslatable('%s: UnilateralForwardTransformer.%s not found' % (rel, nm))
            got = '\n'.join(U(x) for x in meth[nm].body if not is_doc(x))
            if got != want:
                fail(meth[nm], 'UnilateralForwardTransformer.%s changed' % nm, rel)
        if 'simplify_term' not in meth or [U(x) for x in meth['simplify_term'].body if not is_doc(x)] != ['return self.remove_heaviside(expr, var)']:
            raise Untranslatable('%s: simplify_term is not remove_heaviside' % rel)

    def pin_utils(self):
        rel = 'lcapy/utils.py'
        fns = {n.name: n for n in self.files[rel].body if isinstance(n, ast.FunctionDef)}
        if 'scale_shift' not in fns:
            raise Untranslatable('%s: scale_shift not found' % rel)
        txt = [U(x) for x in fns['scale_shift'].body if not is_doc(x)]
        if 'scale = expr.coeff(var, 1)' not in txt or 'shift = expr.coeff(var, 0)' not in txt or txt[-1] != N('return (scale, shift)'):
            fail(fns['scale_shift'], 'scale_shift does not return (coefficient of var, constant term)', rel)
        if 'similarity_shift' not in fns:
            raise Untranslatable('%s: similarity_shift not found' % rel)
        txt = '\n'.join(U(x) for x in fns['similarity_shift'].body if not is_doc(x))
        for need in ('scale1 = arg.coeff(var, 1)', 'shift1 = arg.coeff(var, 0)', N('return (expr2, scale, shift)')):
            if need not in txt:
                fail(fns['similarity_shift'], 'similarity_shift: expected %r' % need, rel)

    # ---- output --------------------------------------------------------------------------------
    ORDER = ['gen_const', 'gen_exp', 'gen_sincos', 'gen_sc_guard', 'gen_rect', 'gen_tri', 'gen_ramp', 'gen_rstep',
             'gen_func', 'gen_deriv', 'gen_integ', 'gen_conv', 'gen_sift']

    def coq(self):
        out = ['(* GENERATED by tools/tr_laplace.py from lcapy/laplace.py (sha256 %s), lcapy/transformer.py (%s),' % (
            self.sha['lcapy/laplace.py'][:16], self.sha['lcapy/transformer.py'][:16]),
            '   lcapy/utils.py (%s).  Do not edit: regenerated from the source on every run. *)' % self.sha['lcapy/utils.py'][:16],
            'Require Import LT.FieldSec LT.PolyQ LT.ExpPoly LT.LaplaceSig LT.LaplaceModel.',
            'Local Open Scope F_scope.', 'Section Gen.', 'Variable K : fld.', 'Variable V : lenv K.',
            'Notation ex := (l_ex K V).', 'Notation sn := (l_sn K V).', 'Notation cs := (l_cs K V).',
            'Notation fabs := (l_fabs K V).', 'Notation pi_ := (l_pi K V).', 'Notation isr := (l_isr K V).', 'Notation neg := (l_neg K V).',
            'Notation Fn := (l_Fn K V).', 'Notation Ic := (l_Ic K V).', 'Notation Fv := (l_Fv K V).', '']
        for nm in self.ORDER:
            sig, body = self.defs[nm]
            out.append('Definition %s %s :=\n%s.\n' % (nm, sig, body if body.startswith('  ') else '  ' + body))
        out.append('Definition gen_forms : forms K :=\n  Forms K %s.' % ' '.join(self.ORDER))
        out.append('End Gen.')
        return '\n'.join(out) + '\n'


if __name__ == '__main__':
    import sys
    t = Translator(sys.argv[1] if len(sys.argv) > 1 else '/repo')
    print(t.coq())
