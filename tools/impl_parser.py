"""Runs the REAL lcapy netlist reader/writer (from /repo) on the cases given on
stdin (JSON list) and prints what it observed (JSON list).  Parsing and
printing only; nothing is analysed.

case kinds
  {"lines": [l1, ...]}            Circuit(); c.add(l) for each line
      -> {"elts": [[class, name, [nodes], [args|null], [kwpos|null, kw], opts, string]...],
          "str": str(c), "printed": [str(cpt) ...]}
       | {"error": kind, "at": index of the offending line, "etype":..., "msg":...}
  {"file": path}                  Circuit(path)  (netfile_add; the file may .include others)  -> as for "lines"
  {"roundtrip": [l1, ...]} | {"roundtrip_file": path}
                                  x -> c0 ; s1 = str(c0) ; c1 = parse(s1) ; s2 = str(c1) ; c2 = parse(s2); s3
      -> {"c0":..,"s1":..,"c1":..,"s2":..,"c2":..,"s3":..} with "errorN" when stage N raises
  {"derive": {"lines": [...], "op": name}} | {"derive": {"network": expr, "op": "netlist"}}
                                  the text Lcapy itself produces by a rewrite (c.s_model(), c.kill(), c.subs(..), ...)
                                  or by network-to-netlist conversion  -> {"derived": text}
  {"hist": [["add", line] | ["remove", name], ...]}
                                  Circuit(); c.add(line) / c.remove(name) in that order
      -> as for "lines" plus "gen": the names the namer handed out (c.namer.names), "counts": number of elements
         after every operation  | {"error": kind ("unknown_name" for remove), "at": index of the offending operation}
  {"roundtrip_hist": [...]}       the same history, then the print/parse stages of "roundtrip"
  {"vp": arg}                     lcapy.valueparser.value_parser(arg)
      -> {"vp": ["same", s]} | {"vp": ["float", "num/den"]}   (exact value of the float)
  {"opts": s}                     Opts(s)  -> {"opts": [...], "fmt": str(opts)}
opts are lists of [key, value] with value = ["s", str] | ["b", bool] | ["l", [values]]
"""
import sys
import json
import warnings
warnings.filterwarnings('ignore')
from fractions import Fraction
from lcapy import Circuit
from lcapy.opts import Opts
from lcapy.valueparser import value_parser


def oval(v):
    if isinstance(v, bool):
        return ['b', v]
    if isinstance(v, str):
        return ['s', v]
    if isinstance(v, list):
        return ['l', [oval(x) for x in v]]
    return ['?', repr(v)]


def opts_list(o):
    return [[k, oval(v)] for k, v in o.items()]


def classify(e):
    m = str(e)
    t = type(e).__name__
    if isinstance(e, ValueError):
        if m.startswith('Missing } in') or m.startswith('Missing " in'):
            return 'unbalanced'
        if m.startswith('Empty namespace in component name'):
            return 'empty_ns'
        if m.startswith('Unknown keyword'):
            return 'unknown_kw'
        if m.startswith('Unknown component'):
            return 'unknown_cpt'
        if m.startswith('Syntax error: Too many args'):
            return 'too_many'
        if m.startswith('Syntax error: Missing node'):
            return 'missing_node'
        if m.startswith('Syntax error: Missing arg'):
            return 'missing_arg'
        if m.startswith('Syntax error: Cannot have value'):
            return 'after_named'
        if m.startswith('Syntax error: Unknown param'):
            return 'unknown_param'
        if m.startswith('Param ') and m.endswith('already assigned'):
            return 'assigned'
        if m.startswith('Mismatched braces'):
            return 'opts_braces'
        if m.startswith('Expecting include'):
            return 'include'
    if isinstance(e, IndexError):
        return 'index'
    if isinstance(e, FileNotFoundError):
        return 'include'
    return 'other:' + t


def sem(e):
    """what the constructor made of the arguments: source value for independent sources, else the
    one-port/two-port argument tuple (used by the oracle where None was re-read as 0)"""
    try:
        k = e.cpt
        if e.is_independent_source:
            return str(k.Voc if e.type == 'V' else k.Isc)
        return str(getattr(k, 'args', None))
    except Exception as ex:
        return 'ERR ' + type(ex).__name__


def elt(e, with_sem=False):
    if e.classname == 'XX':
        return ['XX', e.name, [], [], [None, ''], opts_list(e.opts), e._string]
    kw = e.keyword
    args = [a if (a is None or isinstance(a, str)) else '?' + repr(a) for a in e.args]
    out = [e.classname, e.name, [n.name for n in e.nodes], args, [kw[0], kw[1]], opts_list(e.opts), e._string]
    if with_sem:
        out.append(sem(e))
    return out


def build(lines):
    c = Circuit()
    for i, l in enumerate(lines):
        try:
            c.add(l)
        except Exception as e:
            return None, {'error': classify(e), 'at': i, 'etype': type(e).__name__, 'msg': str(e)[:200]}
    return c, None


def build_hist(ops, counts=None):
    c = Circuit()
    for i, (op, x) in enumerate(ops):
        try:
            if op == 'add':
                c.add(x)
            elif op == 'remove':
                c.remove(x)
            else:
                raise RuntimeError('bad op')
        except Exception as e:
            kind = classify(e)
            if op == 'remove' and isinstance(e, ValueError) and str(e).startswith('Unknown component: '):
                kind = 'unknown_name'
            return None, {'error': kind, 'at': i, 'etype': type(e).__name__, 'msg': str(e)[:200]}
        if counts is not None:
            counts.append(list(c.elements.keys()))
    return c, None


def build_file(path):
    try:
        return Circuit(path), None
    except Exception as e:
        return None, {'error': classify(e), 'at': 0, 'etype': type(e).__name__, 'msg': str(e)[:200]}


def snapshot(c, with_sem=False):
    return [elt(e, with_sem) for e in c.elements.values()]


def run(case):
    if 'lines' in case:
        c, err = build(case['lines'])
        if err:
            return err
        return {'elts': snapshot(c), 'str': str(c), 'printed': [str(e) for e in c.elements.values()]}
    if 'file' in case:
        c, err = build_file(case['file'])
        if err:
            return err
        return {'elts': snapshot(c), 'str': str(c), 'printed': [str(e) for e in c.elements.values()]}
    if 'hist' in case:
        c, err = build_hist(case['hist'])
        if err:
            return err
        return {'elts': snapshot(c), 'str': str(c), 'printed': [str(e) for e in c.elements.values()], 'gen': list(c.namer.names)}
    if 'roundtrip' in case or 'roundtrip_file' in case or 'roundtrip_hist' in case:
        out = {}
        lines = case.get('roundtrip')
        for stage in range(3):
            if stage == 0 and 'roundtrip_file' in case:
                c, err = build_file(case['roundtrip_file'])
            elif stage == 0 and 'roundtrip_hist' in case:
                keys = []
                c, err = build_hist(case['roundtrip_hist'], keys)
                out['keys'] = keys
            else:
                c, err = build(lines)
            if err:
                out['error%d' % stage] = err
                return out
            out['c%d' % stage] = snapshot(c, True)
            s = str(c)
            out['s%d' % (stage + 1)] = s
            lines = s.split('\n')
        return out
    if 'derive' in case:
        d = case['derive']
        try:
            if 'network' in d:
                import lcapy
                env = {k: getattr(lcapy, k) for k in ('R', 'C', 'L', 'V', 'I', 'Vstep', 'Vdc', 'Vac', 'Istep', 'Idc', 'Iac', 'G', 'Y', 'Z')}
                net = eval(d['network'], {'__builtins__': {}}, env)
                return {'derived': str(net.netlist())}
            c, err = build(d['lines'])
            if err:
                return {'error': 'derive_base:' + err['error']}
            op = d['op']
            if op == 'subs':
                n = c.subs(d.get('arg', {'a': 3}))
            elif op == 'kill':
                n = c.kill(*d.get('arg', []))
            elif op == 'kill_except':
                n = c.kill_except(*d.get('arg', []))
            else:
                n = getattr(c, op)()
            return {'derived': str(n)}
        except Exception as e:
            return {'error': 'derive:' + type(e).__name__, 'msg': str(e)[:200]}
    if 'vp' in case:
        r = value_parser(case['vp'])
        if isinstance(r, str):
            return {'vp': ['same', r]}
        f = Fraction(r)
        return {'vp': ['float', '%d/%d' % (f.numerator, f.denominator)]}
    if 'opts' in case:
        try:
            o = Opts(case['opts'])
        except Exception as e:
            return {'error': classify(e), 'etype': type(e).__name__, 'msg': str(e)[:200]}
        return {'opts': opts_list(o), 'fmt': str(o)}
    return {'error': 'bad case'}


def main():
    cases = json.load(sys.stdin)
    res = []
    for c in cases:
        try:
            res.append(run(c))
        except Exception as e:
            res.append({'error': 'worker:' + type(e).__name__, 'msg': str(e)[:200]})
    json.dump(res, sys.stdout)


main()
