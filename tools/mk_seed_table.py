#!/usr/bin/env python3
"""Regenerates the table of DESIGN.md section 9.3 (between the SEED-TABLE markers) from seeded/*/meta.json."""
import json, os, re
V = '/verif'
rows = ['| id | change | needs | what happened when the check was run against it |', '|---|---|---|---|']
def esc(s):
    return s.replace('|', '\\|').replace('\n', ' ')
for d in sorted(os.listdir(V + '/seeded')):
    m = json.load(open('%s/seeded/%s/meta.json' % (V, d)))
    rows.append('| %s | %s | %s | %s |' % (d, esc(m['summary']), esc(m['needs']), esc(m['result'])))
s = open(V + '/DESIGN.md').read()
a, b = '<!-- SEED-TABLE-BEGIN -->', '<!-- SEED-TABLE-END -->'
assert a in s and b in s
s = s[:s.index(a) + len(a)] + '\n' + '\n'.join(rows) + '\n' + s[s.index(b):]
open(V + '/DESIGN.md', 'w').write(s)
print(len(rows) - 2, 'rows')
