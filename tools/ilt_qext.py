"""Exact arithmetic in the quadratic extensions Q(i)(sqrt d) (d a square-free positive integer) for the
C10 harness and worker: poles, residues and exponents that are not Gaussian rationals.
Elements a + b*sqrt(d) with a, b Gaussian rationals (ilt_exact.G).  JSON form: [re a, im a, re b, im b]
("p/q" strings).  No floats."""
from fractions import Fraction
from ilt_exact import G, fstr


class QX:
    __slots__ = ('a', 'b', 'd')

    def __init__(self, a, b, d):
        self.a = G.of(a)
        self.b = G.of(b)
        self.d = int(d)

    @staticmethod
    def of(x, d):
        if isinstance(x, QX):
            if x.d != int(d):
                raise ValueError('mixed extensions')
            return x
        if isinstance(x, (list, tuple)) and len(x) == 4:
            return QX(G(Fraction(x[0]), Fraction(x[1])), G(Fraction(x[2]), Fraction(x[3])), d)
        return QX(G.of(x), G(0), d)

    def _o(self, o):
        return QX.of(o, self.d)

    def __add__(self, o):
        o = self._o(o)
        return QX(self.a + o.a, self.b + o.b, self.d)
    __radd__ = __add__

    def __neg__(self):
        return QX(-self.a, -self.b, self.d)

    def __sub__(self, o):
        return self + (-self._o(o))

    def __rsub__(self, o):
        return self._o(o) - self

    def __mul__(self, o):
        o = self._o(o)
        return QX(self.a * o.a + G(self.d) * self.b * o.b, self.a * o.b + self.b * o.a, self.d)
    __rmul__ = __mul__

    def inv(self):
        n = self.a * self.a - G(self.d) * self.b * self.b
        if n.is_zero():
            raise ZeroDivisionError('QX')
        return QX(self.a / n, (-self.b) / n, self.d)

    def __truediv__(self, o):
        return self * self._o(o).inv()

    def __rtruediv__(self, o):
        return self._o(o) * self.inv()

    def __pow__(self, n):
        if n < 0:
            return self.inv() ** (-n)
        r = QX(G(1), G(0), self.d)
        for _ in range(n):
            r = r * self
        return r

    def conj(self):
        return QX(self.a.conj(), self.b.conj(), self.d)

    def __eq__(self, o):
        o = self._o(o)
        return self.a == o.a and self.b == o.b

    def __hash__(self):
        return hash((self.a, self.b, self.d))

    def is_zero(self):
        return self.a.is_zero() and self.b.is_zero()

    def is_real(self):
        return self.a.is_real() and self.b.is_real()

    def js(self):
        return self.a.js() + self.b.js()

    def __repr__(self):
        return 'QX(%s,%s;%d)' % (self.a, self.b, self.d)


def xpmul(p, q, d):
    if not p or not q:
        return []
    out = [QX(0, 0, d)] * (len(p) + len(q) - 1)
    for i, a in enumerate(p):
        for k, b in enumerate(q):
            out[i + k] = out[i + k] + QX.of(a, d) * QX.of(b, d)
    return out


def xfrom_roots(roots, d, lead=1):
    """roots: [(QX, mult)] -> lead * prod (x - p)^m, lowest first (QX coefficients)"""
    p = [QX.of(lead, d)]
    for r, m in roots:
        for _ in range(m):
            p = xpmul(p, [-QX.of(r, d), QX(1, 0, d)], d)
    return p


def rational_poly(p):
    """QX polynomial whose coefficients are Gaussian rationals -> list of G; raises ValueError otherwise"""
    out = []
    for c in p:
        if not c.b.is_zero():
            raise ValueError('coefficient outside Q(i)')
        out.append(c.a)
    return out


def xlaplace_normal_form(obs, T, s0, d):
    """algebraic L of the parsed normal form restricted to delay T, at the point s0 (G or QX)"""
    s0 = QX.of(s0, d)
    v = QX(0, 0, d)
    for (Tt, n, p, c, step) in obs['reg']:
        if Fraction(Tt) == T:
            v = v + QX.of(c, d) / ((s0 - QX.of(p, d)) ** (n + 1))
    for (Tt, k, c) in obs['sing']:
        if Fraction(Tt) == T:
            v = v + QX.of(c, d) * (s0 ** k)
    return v


def squarefree_class(x):
    """the square-free positive integer d with |x| = d * (rational)^2, for a non-zero rational x"""
    x = abs(Fraction(x))
    n = x.numerator * x.denominator
    d, f = 1, 2
    while f * f <= n:
        e = 0
        while n % f == 0:
            n //= f
            e += 1
        if e % 2:
            d *= f
        f += 1
    return d * n


def xsqrt_rational(x, d):
    """principal square root of a RATIONAL x inside Q(i)(sqrt d) as a QX, or None"""
    from ilt_exact import isqrt_fraction
    x = Fraction(x)
    if x < 0:
        r = xsqrt_rational(-x, d)
        return None if r is None else QX(G(0, 1), G(0), d) * r
    r = isqrt_fraction(x)
    if r is not None:
        return QX(G(r), G(0), d)
    r = isqrt_fraction(x / d)
    return None if r is None else QX(G(0), G(r), d)


# ---- sympy constant -> QX (worker side; exact, structural) ----------------------------------
def to_quad(x, d):
    """exact value of a constant sympy expression built from rationals, I, sqrt(d), +, *, integer powers
    (and half-integer powers of d) as a QX; raises ValueError otherwise"""
    import sympy as sym
    if x.is_Rational:
        return QX(G(Fraction(int(x.p), int(x.q))), G(0), d)
    if x == sym.I:
        return QX(G(0, 1), G(0), d)
    if x.is_Add:
        r = QX(0, 0, d)
        for a in x.args:
            r = r + to_quad(a, d)
        return r
    if x.is_Mul:
        r = QX(1, 0, d)
        for a in x.args:
            r = r * to_quad(a, d)
        return r
    if x.is_Pow and x.exp.is_Integer:
        b = to_quad(x.base, d)
        n = int(x.exp)
        if n < 0 and b.is_zero():
            raise ValueError('division by zero')
        return b ** n
    if x.is_Pow and x.exp.is_Rational and int(x.exp.q) == 2 and x.base.is_Rational and x.base > 0:
        # (u/v)^(k/2) with u/v = d * w^2 for a rational w
        from ilt_exact import isqrt_fraction
        base = Fraction(int(x.base.p), int(x.base.q))
        w = isqrt_fraction(base / d)
        if w is None:
            raise ValueError('square root outside Q(i)(sqrt %d): %s' % (d, x))
        return QX(G(0), G(w), d) ** int(x.exp.p)
    raise ValueError('not in Q(i)(sqrt %d): %s' % (d, str(x)[:80]))


def quad_json(x, d):
    import sympy as sym
    x = sym.sympify(x)
    try:
        q = to_quad(x, d)
    except ValueError:
        q = to_quad(sym.expand(sym.radsimp(x)), d)
    return q.js()


# ---- Coq literals ------------------------------------------------------------------------------
def _qi(g):
    return '(qi (%d) %d (%d) %d)' % (g.re.numerator, g.re.denominator, g.im.numerator, g.im.denominator)


def xq(x, d):
    x = QX.of(x, d)
    return '(X %s %s)' % (_qi(x.a), _qi(x.b))


def xqlist(l, d):
    return '[' + '; '.join(xq(x, d) for x in l) + ']'
