"""Runs the REAL lcapy schematic machinery (from PYTHONPATH) on the cases given
on stdin (JSON list) and prints what it did (JSON list); no LaTeX is run.

case: {"lines": [...netlist lines...]           (src = "netlist")
       | "net": "(R(1)+C(2))|L(3)", "layout": "horizontal"|"vertical"|"ladder"   (src = "network")
       "method": "graph"|"lineq", "opts": {"node_spacing": "2.5", "scale": "0.5", "cpt_size": "1"},
       "workdir": <dir for the .schtex file>, "graphs": bool}

result: {"lines": [...],              netlist actually drawn
         "nodes": {name: {"x": "p/q", "y": "p/q", "aux": bool, "finite": bool, "raw": [float, float]}},
         "elts": [{name, type, cls, node_names, nodes, drawn, size, stretch, angle, free, ignore, place,
                   directive, fixed, offset}],
         "tikz": "<text of the generated picture>", "stdout": "<what lcapy printed>",
         "graphs": {"x"|"y": {"edges": [[cpt, [from members], [to members], "p/q", stretch]],
                              "cnodes": {node: [members]},
                              "ldist": [[[members], "p/q" | null]], "pruned": [[from, to, "p/q"]]}}}
Positions are converted with Fraction(float).limit_denominator(10**6)."""
import sys
import json
import io
import os
import math
import contextlib
import warnings
from fractions import Fraction

warnings.filterwarnings('ignore')
import lcapy
from lcapy.schematic import Schematic
from lcapy.schemplacer import schemplacer

DEN = 10 ** 6

# ---- candidate fixes, applied in-process (never to the files in the repo) when a case asks for them.
# They are used only to CLASSIFY a violation ("disappears with fix X" = known finding X) and to
# validate the patches proposed in the report.
from lcapy import schemgraph as _sg, schemlineqplacer as _sl

_orig_check_positions = _sg.Graph.check_positions
_orig_lineq_add = _sl.Lineq.add


def _repair_then_check(self):
    """Graph.solve post-pass: monotone Bellman-Ford relaxation of the graph's own constraints,
    starting from the heuristic positions (only ever increases a position)."""
    gnodes = [g for g in self.values() if g.pos is not None]
    for _ in range(len(gnodes) + 1):
        changed = False
        for g in gnodes:
            for e in g.fedges:
                t = e.to_gnode
                if t.pos is None or e.cpt is None:
                    continue
                if t._pos < g._pos + e.size - 1e-9:
                    t._pos = g._pos + e.size
                    changed = True
                elif not e.stretch and t._pos > g._pos + e.size + 1e-9:
                    g._pos = t._pos - e.size
                    changed = True
        if not changed:
            break
    end = self['end'] if 'end' in self else None
    if end is not None:
        end._pos = max(g._pos for g in gnodes)
    return _orig_check_positions(self)


def _lineq_add_keep_fixed(self, elt, n1, n2, size, stretch):
    """Lineq.add: an existing fixed constraint is kept when a later stretchy one arrives"""
    if size == 0:
        return
    if size < 0:
        n1, n2 = n2, n1
        size = -size
    if n1 in self.cnodes:
        n1 = self.cnodes[n1]
    if n2 in self.cnodes:
        n2 = self.cnodes[n2]
    key = n1, n2
    key2 = n2, n1
    if key not in self.constraints and key2 not in self.constraints:
        self.constraints[key] = _sl.Constraint(size, stretch)
        return
    if key2 in self.constraints:
        size = -size
        key = key2
    constraint = _sl.Constraint(size, stretch)
    constraint2 = self.constraints[key]
    if not constraint2.stretch:
        if (not constraint.stretch and abs(constraint2.size - constraint.size) > 1e-9):
            raise ValueError('Incompatible fixed constraint of size %s and %s' % (constraint.size, constraint2.size))
        return
    if not constraint.stretch or abs(constraint.size) > abs(constraint2.size):
        self.constraints[key] = constraint


def set_patches(names):
    _sg.Graph.check_positions = _repair_then_check if 'graph_repair' in names else _orig_check_positions
    _sl.Lineq.add = _lineq_add_keep_fixed if 'lineq_keep_fixed' in names else _orig_lineq_add


def frs(x):
    f = Fraction(float(x)).limit_denominator(DEN)
    return '%d/%d' % (f.numerator, f.denominator)


def make_sch(case):
    if 'net' in case:
        net = eval(case['net'], dict(vars(lcapy)))
        netlist = net.netlist(layout=case['layout'])
        if netlist is None:
            raise RuntimeError('NetlistIsNone: %s.netlist(layout=%r) returned None' % (case['net'], case['layout']))
        lines = [l for l in netlist.split('\n')]
        sch = net.sch(layout=case['layout'])
        return sch, lines
    sch = Schematic()
    for l in case['lines']:
        sch.add(l)
    return sch, list(case['lines'])


def graphs_of(case, lines):
    """constraint graphs the placer base builds (method graph), before solving"""
    sch = Schematic()
    for l in lines:
        sch.add(l)
    sch._setup(False)
    method = case.get('method', 'graph')
    placer = schemplacer(sch.elements, sch.nodes, method, 0)
    placer._make_graphs()
    out = {}
    if method == 'lineq':
        for ax, g in (('x', placer.xgraph), ('y', placer.ygraph)):
            edges = []
            for (fr, to), con in g.constraints.items():
                size = con.size
                if size < 0:
                    fr, to, size = to, fr, -size
                edges.append([None, list(fr) if isinstance(fr, tuple) else [fr],
                              list(to) if isinstance(to, tuple) else [to], frs(size), bool(con.stretch)])
            table = [[list(k[0]) if isinstance(k[0], tuple) else [k[0]], list(k[1]) if isinstance(k[1], tuple) else [k[1]],
                      frs(con.size), bool(con.stretch)] for k, con in g.constraints.items()]
            out[ax] = {'edges': edges, 'cnodes': {n: list(t) for n, t in g.cnodes.items()}, 'table': table}
        raw_solve(sch, method, out)
        return out
    for ax, g in (('x', placer.xgraph), ('y', placer.ygraph)):
        edges = []
        for gnode in g.values():
            for e in gnode.fedges:
                fr = e.from_gnode.name
                to = e.to_gnode.name
                edges.append([e.cpt.name if e.cpt is not None else None,
                              list(fr) if isinstance(fr, tuple) else [fr],
                              list(to) if isinstance(to, tuple) else [to], frs(e.size), bool(e.stretch)])
        cn = {n: list(t) for n, t in g.cnodes.items()}
        ld = []
        pruned = []
        groups = []
        solve_in = None
        if len(g) > 0:
            # parallel-edge groups before prune (list order), keyed by the pair of gnodes
            gmap = {}
            for gnode in g.values():
                for e in gnode.fedges:
                    key = (_gname(e.from_gnode), _gname(e.to_gnode))
                    gmap.setdefault(key, {'edges': [], 'fwd': [], 'rev': []})['edges'].append([frs(e.size), bool(e.stretch)])
            g.prune()
            for gnode in g.values():
                for e in gnode.fedges:
                    fr, to = e.from_gnode.name, e.to_gnode.name
                    pruned.append([list(fr) if isinstance(fr, tuple) else [fr],
                                   list(to) if isinstance(to, tuple) else [to], frs(e.size)])
                    gmap.setdefault((_gname(e.from_gnode), _gname(e.to_gnode)), {'edges': [], 'fwd': [], 'rev': []})['fwd'].append(
                        [frs(e.size), bool(e.stretch)])
                for e in gnode.redges:
                    # a reverse edge is stored at its head gnode and points back to the tail
                    gmap.setdefault((_gname(e.to_gnode), _gname(e.from_gnode)), {'edges': [], 'fwd': [], 'rev': []})['rev'].append(
                        [frs(e.size), bool(e.stretch)])
            groups = [[k[0], k[1], v['edges'], v['fwd'], v['rev']] for k, v in gmap.items()]
            g.add_start_nodes()
            # the graph the solve stage works on: gnodes in dict order, forward and reverse edge lists in list order
            def lab(gn):
                return list(gn.name) if isinstance(gn.name, tuple) else [gn.name]
            solve_in = [[lab(gn), [[lab(e.to_gnode), frs(e.size), bool(e.stretch), repr(float(e.size))] for e in gn.fedges],
                         [[lab(e.to_gnode), frs(e.size), bool(e.stretch), repr(float(e.size))] for e in gn.redges]] for gn in g.values()]
            g.longest_path(g['start'], g['end'])
            for gnode in g.values():
                nm = gnode.name
                d = gnode.dist
                ld.append([list(nm) if isinstance(nm, tuple) else [nm],
                           None if (d is None or d < 0) else frs(d)])
        out[ax] = {'edges': edges, 'cnodes': cn, 'ldist': ld, 'pruned': pruned, 'groups': groups, 'solve_in': solve_in}
    raw_solve(sch, method, out)
    return out


def _gname(gn):
    return '|'.join(gn.name) if isinstance(gn.name, tuple) else str(gn.name)


def trace_graph(g):
    """observation only: records which stage of Graph.solve positioned each gnode
    ('longest' = assign_longest, 'fixed' = assign_fixed1, 'dangling' = the start/end branches of
    assign_stretchy1, 'between' = its two-known-nodes branch), the gnodes on the path walked by a
    'between' call, and whether the position each stage assigned is the one its DOCUMENTED rule gives
    (reference arithmetic written here from the comments/docstrings of schemgraph.py):
       longest : cumulative edge size from 0 along the critical path
       fixed   : placed neighbour -/+ size of a non-stretch edge
       dangling: closest placed neighbour -/+ length of the path to it
       between : from.pos + sum(size + (stretch if the edge is stretchy)),
                 stretch = max(0, (separation - extent) / stretches) of the longest path
    For a 'between' call it also records the EDGES of the walked path (reversed(from_path) + to_path, the path
    along which positions are assigned) and of the path the stretch was computed for
    (longest_path(from_gnode, to_gnode)), each edge as 'tail>head' in forward orientation.
    The wrappers call the original methods and do not alter any result."""
    how, walked, rule_ok, squeezed = {}, {}, {}, {}
    walked_edges, stretch_path = {}, {}
    o_longest, o_fixed1, o_s1 = g.assign_longest, g.assign_fixed1, g.assign_stretchy1
    TOL = 1e-9

    def unknown_names():
        return set(_gname(gn) for gn in g.values() if gn.pos is None)

    def byname():
        return dict((_gname(gn), gn) for gn in g.values())

    def settle(before, branch, expected, on_path=None, squeeze=False, w_edges=None, s_edges=None):
        nodes = byname()
        for n in before - unknown_names():
            how[n] = branch
            if squeeze:
                squeezed[n] = True
            if on_path:
                walked[n] = on_path
            if w_edges is not None and s_edges is not None:
                walked_edges[n] = w_edges
                stretch_path[n] = s_edges
            rule_ok[n] = bool((n in expected) and abs(nodes[n].pos - expected[n]) < TOL)

    def assign_longest(path, unknown):
        before = unknown_names()
        expected = {}
        pos = 0
        for edge in path:
            expected.setdefault(_gname(edge.from_gnode), pos)
            pos += edge.size
        if len(path):
            expected.setdefault(_gname(path[-1].to_gnode), pos)
        r = o_longest(path, unknown)
        settle(before, 'longest', expected)
        return r

    def assign_fixed1(gnode):
        cands = []
        for edge in gnode.fedges:
            if not edge.stretch and edge.to_gnode.pos is not None and edge.to_gnode.name != 'end':
                cands.append(edge.to_gnode.pos - edge.size)
        for edge in gnode.redges:
            if not edge.stretch and edge.to_gnode.pos is not None and edge.to_gnode.name != 'start':
                cands.append(edge.to_gnode.pos + edge.size)
        r = o_fixed1(gnode)
        if r:
            n = _gname(gnode)
            how[n] = 'fixed'
            rule_ok[n] = bool(any(abs(gnode.pos - c) < TOL for c in cands))
        return r

    def assign_stretchy1(gnode, unknown):
        before = unknown_names()
        branch = '?'
        on_path = []
        expected = {}
        squeeze = False
        w_edges = s_edges = None
        try:
            to_path = g.path_to_closest_known(gnode, forward=True)
            from_path = g.path_to_closest_known(gnode, forward=False)
            tg, fg = to_path.to_gnode, from_path.to_gnode
            if fg.name == 'start' and tg.name == 'end':
                branch = 'unlucky'
            elif fg.name == 'start':
                branch = 'dangling'
                expected[_gname(gnode)] = tg.pos - to_path.dist
            elif tg.name == 'end':
                branch = 'dangling'
                expected[_gname(gnode)] = fg.pos + from_path.dist
            else:
                branch = 'between'
                fedges, tedges = list(reversed(from_path)), list(to_path)
                on_path = sorted(set(_gname(e.from_gnode) for e in fedges + tedges) |
                                 set(_gname(e.to_gnode) for e in fedges + tedges))
                path = g.longest_path(fg, tg)
                # from_path consists of reverse edges (stored at the head, pointing to the tail)
                w_edges = ['%s>%s' % (_gname(e.to_gnode), _gname(e.from_gnode)) for e in fedges] + \
                          ['%s>%s' % (_gname(e.from_gnode), _gname(e.to_gnode)) for e in tedges]
                s_edges = ['%s>%s' % (_gname(e.from_gnode), _gname(e.to_gnode)) for e in path]
                stretches, separation, extent = path.stretches, tg.pos - fg.pos, path.dist
                stretch = 0 if stretches == 0 else max(0, (separation - extent) / stretches)
                # the two placed nodes are closer than the minimum extent of the path between them
                # (lcapy prints "Inconsistent ... component(s) will not fit")
                squeeze = bool(extent - separation > 1e-6)
                pos = fg.pos
                for edge in fedges:
                    pos += edge.size + (stretch if edge.stretch else 0)
                    if edge.from_gnode.pos is None:
                        expected.setdefault(_gname(edge.from_gnode), pos)
                for edge in tedges:
                    pos += edge.size + (stretch if edge.stretch else 0)
                    if edge.to_gnode.pos is None:
                        expected.setdefault(_gname(edge.to_gnode), pos)
        except Exception:
            pass
        r = o_s1(gnode, unknown)
        settle(before, branch, expected, on_path, squeeze, w_edges, s_edges)
        return r

    g.assign_longest, g.assign_fixed1, g.assign_stretchy1 = assign_longest, assign_fixed1, assign_stretchy1
    return how, walked, rule_ok, squeezed, walked_edges, stretch_path


def raw_solve(sch, method, out):
    """output of the solve stage alone (graph units), on a fresh placer over the same elements"""
    placer = schemplacer(sch.elements, sch.nodes, method, 0)
    placer._make_graphs()
    for ax, g in (('x', placer.xgraph), ('y', placer.ygraph)):
        how, walked, rule_ok, squeezed, walked_edges, stretch_path = trace_graph(g) if method == 'graph' else (None,) * 6
        with warnings.catch_warnings(record=True) as wl:
            warnings.simplefilter('always')
            try:
                pos, extent = g.solve()
                out[ax]['solved'] = {n: frs(v) for n, v in pos.items()}
            except Exception as e:
                import traceback
                out[ax]['solve_error'] = type(e).__name__ + ': ' + str(e)[:200]
                out[ax]['solve_error_line'] = [l.strip() for l in traceback.format_exc().split('\n') if l.startswith('    ')][-1:]
        if how is not None:
            out[ax]['assigned'] = how
            out[ax]['walked'] = walked
            out[ax]['rule_ok'] = rule_ok
            out[ax]['squeezed'] = squeezed
            out[ax]['walked_edges'] = walked_edges
            out[ax]['stretch_path'] = stretch_path
        if method == 'lineq':
            # what Lineq.solve itself reported, and the shape of its LU factor (root-cause signatures)
            negs = []
            for w_ in wl:
                m_ = str(w_.message)
                if m_.startswith('Negative stretch'):
                    try:
                        negs.append(frs(float(m_.split()[-1])))
                    except ValueError:
                        pass
            out[ax]['neg_warned'] = negs
            U = getattr(g, 'U', None)
            if U is not None and 'solved' in out[ax]:
                ncol = U.shape[1] - 1
                offdiag, tiny = [], []
                for r_ in range(U.shape[0]):
                    row = U[r_, :ncol]
                    nz = bool((abs(row) > 1e-9).any())
                    d_ = abs(U[r_, r_]) if r_ < ncol else 0.0
                    if nz and d_ == 0:
                        offdiag.append(r_)       # pivot of this row is not on the diagonal: the row is left out
                    if 0 < d_ < 1e-9:
                        tiny.append(r_)          # rounding residue taken as a pivot
                    if r_ >= ncol and abs(U[r_, r_ if r_ < U.shape[1] else -1]) > 0 and not nz:
                        tiny.append(r_)          # residue in the right-hand-side column of a redundant row
                out[ax]['lu_offdiag_rows'] = offdiag
                out[ax]['lu_tiny_pivots'] = tiny


def run(case, idx):
    buf = io.StringIO()
    res = {}
    set_patches(case.get('patches', []))
    with contextlib.redirect_stdout(buf), warnings.catch_warnings(record=True) as wlist:
        warnings.simplefilter('always')
        sch, lines = make_sch(case)
        res['lines'] = lines
        fname = os.path.join(case['workdir'], 'sch_%d_%d.schtex' % (os.getpid(), idx))
        kwargs = {'method': case.get('method', 'graph')}
        for k, v in case.get('opts', {}).items():
            kwargs[k] = float(Fraction(v))
        try:
            sch.draw(filename=fname, **kwargs)
            res['tikz'] = open(fname).read()
        finally:
            if os.path.exists(fname):
                os.remove(fname)
        nodes = {}
        for name, n in sch.nodes.items():
            p = n.pos
            ent = {'aux': bool(n.auxiliary), 'split': bool(n.is_split)}
            try:
                x, y = float(p.x), float(p.y)
                ent['finite'] = math.isfinite(x) and math.isfinite(y)
                ent['raw'] = [x, y] if ent['finite'] else [repr(x), repr(y)]
                if ent['finite']:
                    ent['x'], ent['y'] = frs(x), frs(y)
            except Exception as e:
                ent['finite'] = False
                ent['raw'] = repr(p)
            nodes[name] = ent
        res['nodes'] = nodes
        elts = []
        for name, e in sch.elements.items():
            d = {'name': name, 'type': e.type, 'cls': e.classname, 'node_names': list(e.node_names),
                 'directive': bool(e.directive), 'ignore': bool(e.ignore), 'place': bool(e.place)}
            if not e.directive:
                d.update({'nodes': [n.name for n in e.nodes], 'drawn': [n.name for n in e.drawn_nodes],
                          'size': frs(e.size), 'stretch': bool(e.stretch), 'angle': frs(e.angle),
                          'free': bool(e.free), 'fixed': bool(e.fixed), 'offset': frs(e.offset),
                          'invisible': bool(e.invisible)})
            elts.append(d)
        res['elts'] = elts
        res['spacing'] = frs(sch.node_spacing)
        if case.get('graphs'):
            try:
                res['graphs'] = graphs_of(case, lines)
            except Exception as e:
                res['graphs_error'] = type(e).__name__ + ': ' + str(e)[:300]
        res['warnings'] = sorted(set(str(w.message)[:60] for w in wlist))
    res['stdout'] = buf.getvalue()[-2000:]
    return res


def main():
    cases = json.load(sys.stdin)
    out = []
    for i, c in enumerate(cases):
        try:
            out.append(run(c, i))
        except Exception as e:
            import traceback
            frames = [[os.path.basename(f.filename), f.name, (f.line or '').strip()]
                      for f in traceback.extract_tb(e.__traceback__) if '/lcapy/' in f.filename]
            out.append({'error': type(e).__name__ + ': ' + str(e)[:400], 'tb': traceback.format_exc()[-800:], 'frames': frames[-6:]})
    json.dump(out, sys.stdout)


main()
