"""Fresh evaluations for C16.  stdin = JSON list of requests, stdout = JSON list
of canonical results.  Request kinds:
  {"text": netlist, "q": query}        query on a circuit built from the text
  {"text": netlist, "d": rewrite}      text (generated names canonicalised) of the rewritten circuit
  {"text": netlist, "d": rewrite, "q": query}   query on the rewritten circuit
  {"t": transform}                     unrelated expression transform
Default mode: this process only imports lcapy and then FORKS one child per request, so
every request sees the pristine just-imported interpreter state (no circuit, no expression,
empty transform caches) under this process's PYTHONHASHSEED.  With --nofork exactly one
request is evaluated in this very interpreter (used to confirm discrepancies in a really
new interpreter)."""
import sys, json, os, warnings
warnings.filterwarnings('ignore')
sys.path.insert(0, os.path.dirname(os.path.abspath(__file__)))
import c16_ops as O
O.limit_memory(3)
import lcapy  # noqa: F401  (import before forking)


def evaluate(r):
    try:
        return O.with_alarm(int(r.get('step_seconds', 40)), evaluate1, r)
    except (MemoryError, O.StepTimeout, RecursionError) as e:
        return O.err(e)


def evaluate1(r):
    try:
        if 't' in r:
            return O.transform(r['t'])
        c = O.build(r['text'])
        if 'd' in r:
            c = O.derive(c, r['d'])
            if 'q' not in r:
                return O._names(O.dump(c))
        return O.query(c, r['q'])
    except (MemoryError, O.StepTimeout, RecursionError):
        raise
    except Exception as e:
        return O.err(e)


def main():
    reqs = json.load(sys.stdin)
    if '--nofork' in sys.argv:
        json.dump([evaluate(r) for r in reqs], sys.stdout)
        return
    out = []
    for r in reqs:
        rd, wr = os.pipe()
        pid = os.fork()
        if pid == 0:
            os.close(rd)
            try:
                res = evaluate(r)
            except BaseException as e:
                res = 'ERR:' + type(e).__name__
            with os.fdopen(wr, 'w') as f:
                f.write(json.dumps(res))
            os._exit(0)
        os.close(wr)
        with os.fdopen(rd) as f:
            data = f.read()
        os.waitpid(pid, 0)
        try:
            out.append(json.loads(data))
        except Exception:
            out.append('ERR:childcrash')
    json.dump(out, sys.stdout)


main()
