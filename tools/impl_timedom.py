"""Worker for property C02: runs the REAL Lcapy circuit analysis (from $PYTHONPATH)
on the cases given on stdin (JSON list) and prints exact results.

case = {"netlist": [lines],
        "quants": [{"kind": "v"|"i", "name": cpt} | {"kind": "node", "name": node}],
        "laws":   [law, ...]      (textbook laws over the quantity indexes, see checks/c02.py)
        "points": ["p/q", ...]    rational t > 0 at which the oracle evaluates the laws
        "causal_expected": bool   (generator's knowledge: all sources causal, no initial state)
        "switch": {...}           optional: convert_IVP experiment (see run_switch)
        "subs": {symbol: "p/q"}   optional: the netlist has SYMBOLIC element values; every result of Lcapy (time and s-domain)
                                  is specialised at this rational point before it is parsed / handed to the oracle;
                                  "regular_point": do the poles keep their generic multiplicities at the point,
                                  "undefined_at_point": the specialised closed form is nan / zoo
        "timeout": seconds}
result = {"flags": {...Analysis flags of the real circuit...},
          "q": [ {"time": normal form | {"unparsed": ..}, "sdom": [{"T","B","A","Q","ts"}] | {"error"},
                  "time_text", "sdom_text"} | {"error": ..} ],
          "oracle": [ {"law": index, "what": text} ... ]   exact violations found with sympy on Lcapy's raw
                                                          expressions (independent of the parser and of Coq)}
Exactness: every number is a Gaussian rational "p/q" pair; verdicts never use floats.  Constants that
are combinations of exp(rational) (values at t0) are decided exactly by collecting distinct exponents
(Lindemann-Weierstrass: exponentials of distinct algebraic numbers are linearly independent over Q(i)).
"""
import sys
import json
import signal
import warnings
warnings.filterwarnings('ignore')
from fractions import Fraction
import sympy as sym
from sympy import Rational, I
import lcapy
from lcapy import Circuit, s as ls, t as lt

S = ls.sympy
Tt = lt.sympy


# ------------------------------------------------------------------ exact numbers
def to_pair(x):
    """exact value of a constant sympy expression built from rationals, I, +, *, integer powers"""
    if x.is_Rational:
        return (Fraction(int(x.p), int(x.q)), Fraction(0))
    if x == I:
        return (Fraction(0), Fraction(1))
    if x.is_Add:
        re, im = Fraction(0), Fraction(0)
        for a in x.args:
            r, i = to_pair(a)
            re += r
            im += i
        return (re, im)
    if x.is_Mul:
        re, im = Fraction(1), Fraction(0)
        for a in x.args:
            r, i = to_pair(a)
            re, im = re * r - im * i, re * i + im * r
        return (re, im)
    if x.is_Pow and x.exp.is_Integer:
        r, i = to_pair(x.base)
        n = int(x.exp)
        if n < 0:
            d = r * r + i * i
            if d == 0:
                raise ValueError('division by zero')
            r, i = r / d, -i / d
            n = -n
        re, im = Fraction(1), Fraction(0)
        for _ in range(n):
            re, im = re * r - im * i, re * i + im * r
        return (re, im)
    raise ValueError('not a Gaussian rational: %s' % str(x)[:80])


def gauss(x):
    x = sym.sympify(x)
    try:
        re, im = to_pair(x)
    except ValueError:
        re, im = to_pair(sym.expand(sym.simplify(x)))
    return ['%d/%d' % (re.numerator, re.denominator), '%d/%d' % (im.numerator, im.denominator)]


def ungauss(g):
    return Rational(g[0]) + I * Rational(g[1])


class NotExact(Exception):
    pass


def expconst(x):
    """exact normal form of a constant: {exponent (re, im) -> coefficient (re, im)} meaning
    sum coeff * exp(exponent); handles +, *, integer powers, exp, cos, sin of Gaussian rationals"""
    x = sym.sympify(x)
    if x.is_Rational or x == I:
        return {(Fraction(0), Fraction(0)): to_pair(x)}
    if x.is_Add:
        out = {}
        for a in x.args:
            for k, v in expconst(a).items():
                o = out.get(k, (Fraction(0), Fraction(0)))
                out[k] = (o[0] + v[0], o[1] + v[1])
        return out
    if x.is_Mul:
        out = {(Fraction(0), Fraction(0)): (Fraction(1), Fraction(0))}
        for a in x.args:
            d = expconst(a)
            new = {}
            for k1, v1 in out.items():
                for k2, v2 in d.items():
                    k = (k1[0] + k2[0], k1[1] + k2[1])
                    v = (v1[0] * v2[0] - v1[1] * v2[1], v1[0] * v2[1] + v1[1] * v2[0])
                    o = new.get(k, (Fraction(0), Fraction(0)))
                    new[k] = (o[0] + v[0], o[1] + v[1])
            out = new
        return out
    if x.is_Pow and x.exp.is_Integer:
        n = int(x.exp)
        if n >= 0:
            return expconst(sym.Mul(*([x.base] * n), evaluate=False)) if n > 1 else (expconst(x.base) if n == 1 else {(Fraction(0), Fraction(0)): (Fraction(1), Fraction(0))})
        d = expconst(x.base)
        d = {k: v for k, v in d.items() if v != (Fraction(0), Fraction(0))}
        if len(d) != 1:
            raise NotExact('reciprocal of a sum of exponentials')
        (k, v), = d.items()
        nrm = v[0] * v[0] + v[1] * v[1]
        inv = (v[0] / nrm, -v[1] / nrm)
        base = {(-k[0], -k[1]): inv}
        out = {(Fraction(0), Fraction(0)): (Fraction(1), Fraction(0))}
        for _ in range(-n):
            new = {}
            for k1, v1 in out.items():
                for k2, v2 in base.items():
                    kk = (k1[0] + k2[0], k1[1] + k2[1])
                    new[kk] = (v1[0] * v2[0] - v1[1] * v2[1], v1[0] * v2[1] + v1[1] * v2[0])
            out = new
        return out
    if x.func == sym.exp:
        a = to_pair(sym.expand(x.args[0]))
        return {a: (Fraction(1), Fraction(0))}
    if x.func in (sym.cos, sym.sin, sym.cosh, sym.sinh):
        return expconst(x.rewrite(sym.exp))
    if x == sym.E:
        return {(Fraction(1), Fraction(0)): (Fraction(1), Fraction(0))}
    if x.is_Pow and x.base == sym.E:
        return {to_pair(sym.expand(x.exp)): (Fraction(1), Fraction(0))}
    raise NotExact('constant %s' % str(x)[:80])


def is_zero_exact(x):
    """True / False exactly; raises NotExact when the constant is outside the decidable class"""
    try:
        d = expconst(x)
    except ValueError as e:
        raise NotExact(str(e))
    return all(v == (Fraction(0), Fraction(0)) for v in d.values())


# ------------------------------------------------------------------ time-domain parser
class Unparsed(Exception):
    pass


def parse_time(e):
    """normal form of a time-domain expression:
       {"cond": bool, "reg": [[T, n, p, c, step]], "sing": [[T, k, c]]}
       every additive term is  c (t-T)^n exp(p (t-T)) [Heaviside(t-T)]  or  c DiracDelta(t-T, k);
       the coefficient stored is that of (t-T)^n/n!"""
    t = Tt
    cond = False
    if isinstance(e, sym.Piecewise):
        if len(e.args) != 1:
            raise Unparsed('Piecewise with several pieces')
        val, c = e.args[0]
        if c != (t >= 0):
            raise Unparsed('Piecewise condition %s' % c)
        cond = True
        e = val
    if e.has(sym.Piecewise) or e.has(sym.Integral) or e.has(sym.Sum) or e.has(sym.nan) or e.has(sym.zoo) or e.has(sym.oo):
        raise Unparsed('unsupported construct')
    for fn in (sym.cos, sym.sin, sym.cosh, sym.sinh, sym.tanh):
        e = e.rewrite(fn, sym.exp)
    e = sym.expand(e)
    reg = {}
    sing = {}
    for term in sym.Add.make_args(e):
        if term == 0:
            continue
        H, Dl, rest = [], [], []
        for f in sym.Mul.make_args(term):
            if f.func == sym.Heaviside:
                H.append(f)
            elif f.func == sym.DiracDelta:
                Dl.append(f)
            elif f.is_Pow and f.base.func == sym.Heaviside:
                raise Unparsed('power of Heaviside')
            else:
                rest.append(f)
        if len(H) > 1 or len(Dl) > 1 or (H and Dl):
            raise Unparsed('product of steps/impulses')
        rest = sym.Mul(*rest)
        if Dl:
            d = Dl[0]
            T = sym.expand(t - d.args[0])
            k = int(d.args[1]) if len(d.args) > 1 else 0
            if T.has(t) or not T.is_Rational or rest.has(t):
                raise Unparsed('DiracDelta term %s' % term)
            key = ('%d/%d' % (T.p, T.q), k)
            sing[key] = sing.get(key, 0) + rest
            continue
        step = bool(H)
        T = Rational(0)
        if H:
            T = sym.expand(t - H[0].args[0])
            if T.has(t) or not T.is_Rational:
                raise Unparsed('Heaviside argument %s' % H[0])
        tau = sym.Dummy('tau')
        g = sym.expand(rest.subs(t, tau + T))
        for sub in sym.Add.make_args(g):
            c, dep = sub.as_independent(tau)
            n = 0
            p = 0
            for f in sym.Mul.make_args(dep):
                if f == tau:
                    n += 1
                elif f.is_Pow and f.base == tau and f.exp.is_Integer and f.exp > 0:
                    n += int(f.exp)
                elif f.func == sym.exp:
                    a = sym.expand(f.args[0])
                    pa = sym.Poly(a, tau)
                    if pa.degree() != 1:
                        raise Unparsed('exponent %s' % a)
                    p += pa.all_coeffs()[0]
                    c = c * sym.exp(pa.all_coeffs()[1])
                elif f == 1:
                    pass
                else:
                    raise Unparsed('factor %s' % f)
            pg = tuple(gauss(p))
            key = ('%d/%d' % (T.p, T.q), n, pg, step)
            reg[key] = reg.get(key, 0) + c
    out_reg = []
    for (T, n, pg, step), c in sorted(reg.items(), key=lambda kv: str(kv[0])):
        gc = gauss(c * sym.factorial(n))
        if gc == ['0/1', '0/1']:
            continue
        out_reg.append([T, n, list(pg), gc, step])
    out_sing = []
    for (T, k), c in sorted(sing.items(), key=lambda kv: str(kv[0])):
        gc = gauss(c)
        if gc == ['0/1', '0/1']:
            continue
        out_sing.append([T, k, gc])
    return {'cond': cond, 'reg': out_reg, 'sing': out_sing}


# ------------------------------------------------------------------ s-domain decomposition + certificates
def poly_low(P):
    """sympy Poly in S -> coefficient list, lowest power first (Gaussian pairs)"""
    cs = P.all_coeffs()
    return [gauss(c) for c in reversed(cs)]


def sdom_terms(e):
    """X(s) = sum_T exp(-s T) B_T(s)/A_T(s): list of (T, B Poly, A Poly).
    Every exponential must be exp(k s) with rational k; with q the common denominator of the k's,
    exp(k s) is written Z**(-k q) for Z = exp(-s/q), so that X is a rational function of (s, Z)."""
    e = sym.sympify(e)
    e = e.rewrite(sym.cosh, sym.exp).rewrite(sym.sinh, sym.exp)
    ks = []
    for a in e.atoms(sym.exp):
        pa = sym.Poly(sym.expand(a.args[0]), S)
        cs = pa.all_coeffs()
        if pa.degree() != 1 or cs[1] != 0 or not cs[0].is_Rational:
            raise Unparsed('exponent %s' % a.args[0])
        ks.append(cs[0])
    q = 1
    for k in ks:
        q = sym.ilcm(q, k.q)
    Z = sym.Dummy('Z')

    def rep(arg):
        k = sym.Poly(sym.expand(arg), S).all_coeffs()[0]
        return Z ** int(-k * q)
    e = e.replace(sym.exp, rep)
    num, den = sym.fraction(sym.cancel(sym.together(e)))
    m = 0
    if den.has(Z):
        pd = sym.Poly(den, Z)
        if len(pd.terms()) != 1:
            raise Unparsed('denominator is not a monomial in exp(-s)')
        (mon,), co = pd.terms()[0]
        m = mon
        den = co
    pn = sym.Poly(sym.expand(num), Z)
    out = []
    for (j,), co in sorted(pn.terms()):
        T = Rational(j - m, q)
        n, d = sym.fraction(sym.cancel(co / den))
        if n == 0:
            continue
        if n.free_symbols - {S} or d.free_symbols - {S}:
            raise Unparsed('free symbols %s' % ((n.free_symbols | d.free_symbols) - {S}))
        out.append((T, sym.Poly(n, S, extension=I) if n.has(I) else sym.Poly(n, S), sym.Poly(d, S, extension=I) if d.has(I) else sym.Poly(d, S)))
    return out


def certificate(B, A):
    """(Q low-first, [(r, p, o)]) with B/A = Q + sum r/(s-p)^o; roots must be Gaussian rationals"""
    Q, R = sym.div(B, A)
    rts = sym.roots(A)
    if sum(rts.values()) != A.degree():
        raise Unparsed('poles not found in closed form')
    lc = A.LC()
    ts = []
    Rex = R.as_expr()
    for p, m in rts.items():
        try:
            gp = gauss(p)
        except ValueError:
            raise Unparsed('pole %s is not a Gaussian rational' % str(p)[:40])
        pp = ungauss(gp)
        # g(s) = R(s) / (lc * prod_{q != p} (s - q)^mq)
        other = lc
        for q, mq in rts.items():
            if q != p:
                other = other * (S - ungauss(gauss(q))) ** mq
        g = Rex / other
        for k in range(1, m + 1):
            # coefficient of 1/(s-p)^k = g^{(m-k)}(p) / (m-k)!
            d = sym.diff(g, S, m - k) if m - k > 0 else g
            val = sym.cancel(d.subs(S, pp)) / sym.factorial(m - k)
            gv = gauss(sym.nsimplify(sym.expand(val)) if not val.is_number else val)
            if gv != ['0/1', '0/1']:
                ts.append([gv, gp, k])
    return poly_low(Q) if not Q.is_zero else [], ts


def sdom_cert(e):
    out = []
    for T, B, A in sdom_terms(e):
        Q, ts = certificate(B, A)
        out.append({'T': '%d/%d' % (T.p, T.q), 'B': poly_low(B), 'A': poly_low(A), 'Q': Q, 'ts': ts})
    return out


def nf_maps(nf):
    """coefficient maps of a parsed time normal form"""
    reg, sing = {}, {}
    for T, n, p, c, st in nf['reg']:
        k = (Fraction(T), n, Fraction(p[0]), Fraction(p[1]))
        v = reg.get(k, (Fraction(0), Fraction(0)))
        reg[k] = (v[0] + Fraction(c[0]), v[1] + Fraction(c[1]))
    for T, k_, c in nf['sing']:
        k = (Fraction(T), k_)
        v = sing.get(k, (Fraction(0), Fraction(0)))
        sing[k] = (v[0] + Fraction(c[0]), v[1] + Fraction(c[1]))
    z = (Fraction(0), Fraction(0))
    return {k: v for k, v in reg.items() if v != z}, {k: v for k, v in sing.items() if v != z}


def cert_maps(sd):
    """coefficient maps of the termwise inverse of a certified s-domain value"""
    reg, sing = {}, {}
    for ce in sd:
        T = Fraction(ce['T'])
        for r, p, o in ce['ts']:
            k = (T, o - 1, Fraction(p[0]), Fraction(p[1]))
            v = reg.get(k, (Fraction(0), Fraction(0)))
            reg[k] = (v[0] + Fraction(r[0]), v[1] + Fraction(r[1]))
        for k_, c in enumerate(ce['Q']):
            k = (T, k_)
            v = sing.get(k, (Fraction(0), Fraction(0)))
            sing[k] = (v[0] + Fraction(c[0]), v[1] + Fraction(c[1]))
    z = (Fraction(0), Fraction(0))
    return {k: v for k, v in reg.items() if v != z}, {k: v for k, v in sing.items() if v != z}


# ------------------------------------------------------------------ oracle (sympy on the raw expressions)
def strip_cond(e):
    if isinstance(e, sym.Piecewise) and len(e.args) == 1 and e.args[0][1] == (Tt >= 0):
        return e.args[0][0], True
    return e, False


def at_point(e, t0):
    """exact value of a time expression at a rational t0 that is not a switching instant"""
    v = e.subs(Tt, t0)
    v = v.replace(sym.Heaviside, lambda *a: sym.Integer(1) if a[0] > 0 else sym.Integer(0))
    v = v.replace(sym.DiracDelta, lambda *a: sym.Integer(0))
    return v


def right_limit0(e):
    """value at 0+ : steps at 0 are on, later steps off, impulses dropped"""
    t = Tt

    def hv(*a):
        T = sym.expand(t - a[0])
        return sym.Integer(1) if T == 0 else (sym.Integer(0) if T > 0 else sym.Integer(1))
    v = e.replace(sym.Heaviside, hv).replace(sym.DiracDelta, lambda *a: sym.Integer(0))
    return v.subs(t, 0)


def left_limit0(e):
    t = Tt

    def hv(*a):
        T = sym.expand(t - a[0])
        return sym.Integer(0) if T >= 0 else sym.Integer(1)
    v = e.replace(sym.Heaviside, hv).replace(sym.DiracDelta, lambda *a: sym.Integer(0))
    return v.subs(t, 0)


def impulse0(e):
    """coefficient of DiracDelta(t) in an expanded expression"""
    ex = sym.expand(e)
    tot = 0
    for term in sym.Add.make_args(ex):
        for f in sym.Mul.make_args(term):
            if f.func == sym.DiracDelta and sym.expand(f.args[0] - Tt) == 0 and (len(f.args) == 1 or f.args[1] == 0):
                tot += term / f
    return tot


def src_expr(nf):
    """sympy expression of a source waveform given by the generator as a normal form"""
    t = Tt
    e = 0
    for T, n, p, c, step in nf.get('reg', []):
        T = Rational(T)
        term = ungauss(c) * (t - T) ** n / sym.factorial(n) * sym.exp(ungauss(p) * (t - T))
        if step:
            term = term * sym.Heaviside(t - T)
        e += term
    for T, k, c in nf.get('sing', []):
        e += ungauss(c) * sym.DiracDelta(t - Rational(T), k) if k else ungauss(c) * sym.DiracDelta(t - Rational(T))
    return e


def run_oracle(case, raw, flags):
    """raw: list of sympy time expressions (or None) per quantity"""
    bad = []
    pts = [Rational(p) for p in case.get('points', ['1/3', '7/5', '3'])]
    stripped = []
    conds = []
    for e in raw:
        if e is None:
            stripped.append(None)
            conds.append(False)
        else:
            x, c = strip_cond(e)
            stripped.append(x)
            conds.append(c)

    def zero(val, li, what):
        try:
            try:
                z = is_zero_exact(val)
            except NotExact:
                # a closed form specialised from symbolic element values may spell Gaussian rationals with radicals
                # (sqrt(L1) at L1 = 2/25): exact symbolic normalisation, then the same exact decision
                try:
                    z = is_zero_exact(sym.expand(val))
                except NotExact:
                    z = is_zero_exact(sym.simplify(sym.expand(val)))
            if not z:
                bad.append({'law': li, 'what': what})
        except NotExact as ex:
            bad.append({'law': li, 'what': 'undecided: ' + str(ex)[:80], 'undecided': True})

    for li, law in enumerate(case.get('laws', [])):
        k = law['k']
        idx = [law['jv'], law['ji']] if k in ('C', 'L') else [j for _, j in law['ts']]
        if k == 'L':
            idx += [m[2] for m in law['ms']]
        if any(stripped[j] is None for j in idx):
            continue
        if k == 'C':
            v, i = stripped[law['jv']], stripped[law['ji']]
            Cv, v0 = Rational(law['C']), law.get('v0')
            res = i - Cv * sym.diff(v, Tt)
            for t0 in pts:
                zero(at_point(res, t0), li, 'i = C dv/dt violated for %s at t = %s' % (law['name'], t0))
            # initial state
            vp = right_limit0(v)
            imp = impulse0(i)
            if v0 is not None:
                zero(vp - Rational(v0) - imp / Cv, li, 'v(0+) = v0 + impulse/C violated for %s (v(0+) = %s, v0 = %s)' % (law['name'], vp, v0))
                if not conds[law['jv']]:
                    # a response that is claimed for t < 0 as well must arrive at the specified initial state
                    zero(left_limit0(v) - Rational(v0), li, 'the response of %s is given for t < 0 but does not reach the initial voltage %s at t = 0-' % (law['name'], v0))
            elif not conds[law['jv']]:
                zero(vp - left_limit0(v) - imp / Cv, li, 'capacitor voltage of %s is not continuous at t = 0 (no impulse accounts for the jump)' % law['name'])
        elif k == 'L':
            v, i = stripped[law['jv']], stripped[law['ji']]
            Lv, i0 = Rational(law['L']), law.get('i0')
            res = v - Lv * sym.diff(i, Tt)
            for M, i0k, jk in law['ms']:
                res = res - Rational(M) * sym.diff(stripped[jk], Tt)
            for t0 in pts:
                zero(at_point(res, t0), li, 'v = L di/dt (+ mutual terms) violated for %s at t = %s' % (law['name'], t0))
            ip = right_limit0(i)
            imp = impulse0(v)
            if i0 is not None:
                # flux balance: L (i(0+) - i0) + sum M (ik(0+) - i0k) = impulse content of v
                tot = Lv * (ip - Rational(i0))
                for M, i0k, jk in law['ms']:
                    tot += Rational(M) * (right_limit0(stripped[jk]) - Rational(i0k))
                zero(tot - imp, li, 'i(0+) = i0 + impulse/L violated for %s (i(0+) = %s, i0 = %s)' % (law['name'], ip, i0))
                if not conds[law['ji']]:
                    zero(left_limit0(i) - Rational(i0), li, 'the response of %s is given for t < 0 but does not reach the initial current %s at t = 0-' % (law['name'], i0))
            elif not conds[law['ji']]:
                tot = Lv * (ip - left_limit0(i))
                for M, i0k, jk in law['ms']:
                    tot += Rational(M) * (right_limit0(stripped[jk]) - left_limit0(stripped[jk]))
                zero(tot - imp, li, 'inductor current of %s is not continuous at t = 0 (no impulse accounts for the jump)' % law['name'])
        else:
            res = 0
            for a, j in law['ts']:
                res += ungauss(a) * stripped[j]
            res = res - src_expr(law.get('w', {}))
            for t0 in pts:
                zero(at_point(res, t0), li, '%s violated at t = %s' % (law['name'], t0))
            # impulses must balance too
            try:
                if not is_zero_exact(impulse0(res)):
                    bad.append({'law': li, 'what': '%s: impulse content at t = 0 does not balance' % law['name']})
            except NotExact:
                pass
    # causality: zero for t < 0
    if case.get('causal_expected'):
        for qi, (e, c) in enumerate(zip(stripped, conds)):
            if e is None:
                continue
            if c:
                bad.append({'law': -1, 'q': qi, 'what': 'causal circuit, zero initial state: response %d is only given for t >= 0' % qi})
                continue
            for t0 in (Rational(-1, 3), Rational(-2)):
                try:
                    if not is_zero_exact(at_point(e, t0)):
                        bad.append({'law': -1, 'q': qi, 'what': 'causal circuit, zero initial state: response %d is not zero at t = %s' % (qi, t0)})
                        break
                except NotExact as ex:
                    bad.append({'law': -1, 'q': qi, 'what': 'undecided: ' + str(ex)[:80], 'undecided': True})
                    break
    return bad


# ------------------------------------------------------------------ one case
class CaseTimeout(Exception):
    pass


def _alarm(signum, frame):
    raise CaseTimeout()


def get_quant(c, q):
    if q['kind'] == 'node':
        return c[q['name']].v, c[q['name']].V(ls)
    el = c[q['name']]
    if q['kind'] == 'v':
        return el.v, el.V(ls)
    return el.i, el.I(ls)


def circuit_flags(c):
    a = c.analysis
    fl = {'is_ivp': bool(a.ivp), 'is_causal': bool(a.causal), 'is_dc': bool(a.dc), 'is_ac': bool(a.ac),
          'src_causal': {}, 'zeroic': {}, 'has_ic': {}}
    for name, elt in c.elements.items():
        if elt.is_independent_source:
            fl['src_causal'][name] = bool(elt.is_causal)
        if elt.has_ic is not None:
            fl['zeroic'][name] = bool(elt.zeroic)
            fl['has_ic'][name] = bool(elt.has_ic)
    return fl


def specialise(e, subs, var):
    """value of a symbolic result at the rational point subs = {symbol name: "p/q"}; every symbol other than
    `var` must be given (a left-over symbol is an error of the harness, not a verdict)"""
    m = {x: Rational(subs[x.name]) for x in e.free_symbols if x != var and x.name in subs}
    e2 = e.subs(m)
    left = e2.free_symbols - {var}
    if left:
        raise ValueError('symbols left after substitution: %s' % sorted(str(x) for x in left))
    return e2


def regular_point(se, subs):
    """Is the point subs REGULAR for the symbolic s-domain value se: do its poles keep their generic multiplicities
    (the squarefree part of the denominator has the same degree in s before and after the substitution and the leading
    coefficient does not vanish)?  At a regular point the closed form built from the generic poles is defined, so an
    undefined value (nan / zoo) there is a defect; at a degenerate point (a natural frequency meets another one or a
    pole of the source) the generic closed form need not be defined.  True / False / None (not decidable here)."""
    try:
        den = sym.denom(sym.together(se))
        if den.has(sym.exp):
            den = sym.Mul(*[f for f in sym.Mul.make_args(sym.powsimp(den)) if not f.has(sym.exp)])
        if not den.is_polynomial(S):
            return None
        P = sym.Poly(den, S)
        m = {x: Rational(subs[x.name]) for x in den.free_symbols if x != S and x.name in subs}
        Pp = sym.Poly(den.subs(m), S)
        if Pp.free_symbols_in_domain:
            return None
        return bool(Pp.degree() == P.degree() and Pp.sqf_part().degree() == P.sqf_part().degree())
    except CaseTimeout:
        raise
    except Exception:
        return None


def undefined_value(e):
    return any(e.has(x) for x in (sym.nan, sym.zoo, sym.oo, sym.S.NegativeInfinity))


def run_circuit(case):
    c = Circuit()
    for line in case['netlist']:
        c.add(line)
    out = {'flags': circuit_flags(c), 'q': []}
    raw = []
    subs = case.get('subs')
    for q in case['quants']:
        r = {}
        try:
            tv, sv = get_quant(c, q)
            te = tv.sympy
            if subs:
                # circuit solved with SYMBOLIC element values: the closed form is specialised at the generator's rational point
                r['symbolic_time_text'] = str(te)[:300]
                r['regular_point'] = regular_point(sv.sympy, subs)
                te = specialise(te, subs, Tt)
                if undefined_value(te):
                    r['undefined_at_point'] = True
            raw.append(te)
            r['time_text'] = str(te)[:300]
            try:
                r['time'] = parse_time(te)
            except Unparsed as ex:
                r['time'] = {'unparsed': str(ex)[:160]}
            except ValueError as ex:
                r['time'] = {'unparsed': 'ValueError: ' + str(ex)[:160]}
            se = sv.sympy
            if subs:
                r['symbolic_sdom_text'] = str(se)[:300]
                se = specialise(se, subs, S)
            r['sdom_text'] = str(se)[:300]
            try:
                r['sdom'] = sdom_cert(se)
            except Unparsed as ex:
                r['sdom'] = {'error': str(ex)[:160]}
            except ValueError as ex:
                r['sdom'] = {'error': 'ValueError: ' + str(ex)[:160]}
            # diagnosis only: when the time function is not the inverse of the s-domain value, is the
            # inverse transform of the EXPANDED s-domain expression the right one?
            if isinstance(r['sdom'], list) and 'unparsed' not in r['time']:
                if nf_maps(r['time']) != cert_maps(r['sdom']):
                    try:
                        alt = lcapy.LaplaceDomainExpression(sym.expand(se))(lt)
                        r['alt_equal'] = bool(nf_maps(parse_time(alt.sympy)) == cert_maps(r['sdom']))
                    except CaseTimeout:
                        raise
                    except Exception as ex:
                        r['alt_equal'] = False
        except CaseTimeout:
            raise
        except Exception as ex:
            raw.append(None)
            r['error'] = type(ex).__name__ + ': ' + str(ex)[:200]
        out['q'].append(r)
    try:
        out['oracle'] = run_oracle(case, raw, out['flags'])
    except CaseTimeout:
        raise
    except Exception as ex:
        import traceback
        out['oracle_error'] = type(ex).__name__ + ': ' + str(ex)[:200] + traceback.format_exc()[-300:]
    return out


# ------------------------------------------------------------------ switched circuits
def netlist_lines(cct):
    return [l.strip() for l in str(cct).split('\n') if l.strip()]


def run_switch(case):
    """convert_IVP experiment.
    case['switch'] = {"t": "p/q", "reactive": [names]}
    returns the converted netlist, the initial condition of every reactive element as an exact
    exp-constant {exponent: coeff}, and the calls recorded while convert_IVP ran:
    (method, time argument, netlist before, netlist after)."""
    from lcapy.netlist import Netlist
    sw = case['switch']
    c = Circuit()
    for line in case['netlist']:
        c.add(line)
    tq = Rational(sw['t'])
    targ = int(tq) if tq.q == 1 else float(tq)
    pre = {'after': netlist_lines(c.replace_switches(targ)), 'before': netlist_lines(c.replace_switches_before(targ))}
    log = []
    orig = {}

    def wrap(name):
        f = getattr(type(c), name)
        orig[name] = f

        def g(self, *a, **k):
            r = f(self, *a, **k)
            try:
                log.append({'call': name, 'args': [str(x)[:40] if not hasattr(x, 'elements') else netlist_lines(x) for x in a],
                            'self': netlist_lines(self), 'ret': netlist_lines(r) if hasattr(r, 'elements') else str(r)[:40]})
            except Exception:
                pass
            return r
        setattr(type(c), name, g)
    for nm in ('replace_switches', 'replace_switches_before', 'initialize'):
        wrap(nm)
    try:
        out = {'times': [str(x) for x in c.switching_times()]}
        out.update(pre)
        ivp = c.convert_IVP(targ)
    finally:
        for nm, f in orig.items():
            setattr(type(c), nm, f)
    out['calls'] = log
    out['netlist'] = netlist_lines(ivp)
    ics = {}
    for name in sw.get('reactive', []):
        elt = ivp.elements.get(name)
        if elt is None:
            continue
        try:
            ic = elt.cpt.v0 if elt.type == 'C' else elt.cpt.i0
            d = expconst(sym.sympify(ic.sympy))
            ics[name] = [[['%d/%d' % (k[0].numerator, k[0].denominator), '%d/%d' % (k[1].numerator, k[1].denominator)],
                          ['%d/%d' % (v[0].numerator, v[0].denominator), '%d/%d' % (v[1].numerator, v[1].denominator)]]
                         for k, v in sorted(d.items()) if v != (Fraction(0), Fraction(0))]
        except Exception as ex:
            ics[name] = {'error': type(ex).__name__ + ': ' + str(ex)[:100]}
    out['ics'] = ics
    # reference: interval-by-interval solution with Lcapy's own solver on netlists whose switches
    # were replaced by the harness (case['switch']['intervals'] = [{"netlist": [...], "T": "p/q"|None}, ...]):
    # the waveform of each reactive element of interval k at its end, handed to interval k+1
    def reference(intervals):
        prev = None
        for iv in intervals:
            cc = Circuit()
            for line in iv['netlist']:
                nm = line.split()[0]
                if prev is not None and nm in prev:
                    line = line + ' {' + str(prev[nm]) + '}'
                cc.add(line)
            Tq = Rational(iv['T'])
            prev = {}
            for name in sw.get('reactive', []):
                el = cc[name]
                wv = el.v if cc.elements[name].type == 'C' else el.i
                x, _ = strip_cond(wv.sympy)
                prev[name] = sym.simplify(left_value(x, Tq))
        ref = {}
        if prev is not None:
            for name, val in prev.items():
                d = expconst(sym.sympify(val))
                ref[name] = [[['%d/%d' % (k[0].numerator, k[0].denominator), '%d/%d' % (k[1].numerator, k[1].denominator)],
                              ['%d/%d' % (v[0].numerator, v[0].denominator), '%d/%d' % (v[1].numerator, v[1].denominator)]]
                             for k, v in sorted(d.items()) if v != (Fraction(0), Fraction(0))]
        return ref
    try:
        out['ref_ics'] = reference(sw.get('intervals', []))
    except CaseTimeout:
        raise
    except Exception as ex:
        out['ref_error'] = type(ex).__name__ + ': ' + str(ex)[:200]
    if sw.get('intervals_code'):
        try:
            out['code_ics'] = reference(sw['intervals_code'])
        except CaseTimeout:
            raise
        except Exception as ex:
            out['code_error'] = type(ex).__name__ + ': ' + str(ex)[:200]
    return out


def left_value(e, T):
    """value just before the instant T (steps at T not yet on)"""
    t = Tt

    def hv(*a):
        T0 = sym.expand(t - a[0])
        return sym.Integer(1) if T0 < T else sym.Integer(0)
    v = e.replace(sym.Heaviside, hv).replace(sym.DiracDelta, lambda *a: sym.Integer(0))
    return v.subs(t, T)


def run(case):
    if 'switch' in case:
        return run_switch(case)
    return run_circuit(case)


def main():
    signal.signal(signal.SIGALRM, _alarm)
    cases = json.load(sys.stdin)
    res = []
    for c in cases:
        try:
            signal.alarm(int(c.get('timeout', 90)))
            try:
                res.append(run(c))
            finally:
                signal.alarm(0)
        except CaseTimeout:
            res.append({'error': 'timeout: case exceeded its time budget'})
        except Exception as e:
            import traceback
            res.append({'error': 'worker: ' + type(e).__name__ + ': ' + str(e)[:200], 'tb': traceback.format_exc()[-400:]})
    json.dump(res, sys.stdout)


if __name__ == '__main__':
    main()
