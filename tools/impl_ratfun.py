"""C11 worker: runs the REAL Lcapy formatting methods (from /repo, or
$VERIF_REPO) on the cases given on stdin (JSON list) and prints exact data
(JSON list).  All numbers are Gaussian rationals serialised as ["p/q","r/s"].

case = {"expr": str,                      # text handed to lcapy.expr()
        "var": "s"|"z"|"omega"|"f",
        "env": {name: [re, im]},          # instantiation of the symbols (and "pi")
        "points": [[re, im], ...],        # evaluation points of the variable
        "rpoints": [[re, "0/1"], ...],    # real points (rationalize_denominator with delay/undef)
        "methods": [[key, name, kwargs], ...],
        "mfactor": str, "dfactor": str}   # factors for multiply/divide_top_and_bottom
result = {"orig": [...], "decomp": {...}, "m": {key: {...}}, ...}
A method that raises returns {"error": ...} (no verdict is drawn from that).
"""
import json
import os
import signal
import sys
import warnings

warnings.filterwarnings('ignore')
sys.path.insert(0, os.path.dirname(os.path.abspath(__file__)))
import sympy as sym
from ratfun_exact import G, evaluate, NotExact
from lcapy import expr as lexpr
from lcapy.ratfun import Ratfun
from lcapy.root import pair_conjugates
from lcapy.sym import miscsymbol


class TimeOut(BaseException):
    """not an Exception subclass: sympy/lcapy `except Exception` blocks must not swallow it"""


FIRED = [0]
SURD = [0]


def _alarm(*a):
    FIRED[0] += 1
    raise TimeOut()


signal.signal(signal.SIGALRM, _alarm)
TLIM = int(os.environ.get('C11_TLIM', '10'))
BUDGET = int(os.environ.get('C11_BUDGET', '45'))      # seconds per case


def guarded(fn):
    """run fn under a time limit.  The timer repeats every second, so that a
    bare `except:` in lcapy/sympy cannot swallow the interruption for good; and
    if the timer fired at all, the result is DISCARDED even when fn returned
    normally (an interrupted computation may have taken a fallback path)."""
    FIRED[0] = 0
    signal.setitimer(signal.ITIMER_REAL, TLIM, 1.0)
    try:
        r = fn()
        signal.setitimer(signal.ITIMER_REAL, 0)
        if FIRED[0]:
            return None, 'timeout (interrupted, result discarded)'
        return r, None
    except TimeOut:
        return None, 'timeout'
    except NotExact as e:
        return None, 'notexact: ' + str(e)[:80]
    except ZeroDivisionError as e:
        return None, 'zerodiv: ' + str(e)[:80]
    except RecursionError:
        return None, 'RecursionError'
    except Exception as e:
        return None, type(e).__name__ + ': ' + str(e)[:160]
    finally:
        signal.setitimer(signal.ITIMER_REAL, 0)


def sympy_of(x):
    return x.sympy if hasattr(x, 'sympy') else sym.sympify(x)


def ev(e, env, var, pt):
    env2 = dict(env)
    env2[var] = pt
    try:
        return evaluate(sympy_of(e), env2)
    except NotExact as ex:
        if 'sqrt' in str(ex) or 'power' in str(ex):
            return ev_surd(sympy_of(e), env2)
        raise


def gsym(g):
    return sym.Rational(g.re.numerator, g.re.denominator) + sym.I * sym.Rational(g.im.numerator, g.im.denominator)


def ev_surd(e, env2):
    """fallback for results containing square roots that do not lie in Q(i)
    (irrational poles): substitute, map exp / undefined functions exactly as
    ratfun_exact does, let sympy reduce the radical expression EXACTLY, and
    accept only a Gaussian-rational outcome; the outcome is cross-checked at 40
    digits so that a wrong symbolic reduction can never produce a verdict."""
    from sympy.core.function import AppliedUndef
    from ratfun_exact import E3, undef_value
    SURD[0] += 1
    m = {}
    for sy in e.free_symbols:
        if sy.name not in env2:
            raise NotExact('free symbol %s' % sy.name)
        m[sy] = gsym(env2[sy.name])
    if 'pi' in env2:
        m[sym.pi] = gsym(env2['pi'])
    e2 = e.xreplace(m)

    def expo(x):
        a = sym.expand_complex(x.args[0])
        re_, im_ = a.as_real_imag()
        re_, im_ = sym.nsimplify(re_), sym.nsimplify(im_)
        if not (re_.is_Integer and im_.is_Integer):
            raise NotExact('exp of non-integral argument')
        return sym.Rational(3) ** int(re_) * sym.Rational(5) ** int(im_)
    e2 = e2.replace(lambda x: isinstance(x, sym.exp), expo)

    def und(x):
        args = [evaluate(a, {}) for a in x.args]
        return gsym(undef_value(x.func.__name__, args))
    e2 = e2.replace(lambda x: isinstance(x, AppliedUndef), und)
    if e2.free_symbols or e2.has(sym.exp) or e2.atoms(AppliedUndef):
        raise NotExact('surd fallback: unreduced')
    v = sym.radsimp(sym.expand_complex(e2))
    re_, im_ = v.as_real_imag()
    re_, im_ = sym.simplify(re_), sym.simplify(im_)
    if not (re_.is_Rational and im_.is_Rational):
        raise NotExact('surd fallback: not in Q(i)')
    # numeric cross-check of the symbolic reduction (can only withdraw a value)
    num = complex(sym.N(e2, 40))
    got = complex(float(re_), float(im_))
    if abs(num - got) > 1e-9 * max(1.0, abs(num)):
        raise NotExact('surd fallback: numeric cross-check failed')
    from fractions import Fraction
    return G(Fraction(int(re_.p), int(re_.q)), Fraction(int(im_.p), int(im_.q)))


def evs(e, env, var, pts):
    return [ev(e, env, var, p).ser() for p in pts]


def poly_coeffs(e, v, env):
    """coefficients (LOWEST power first) of the polynomial e in v, instantiated"""
    p = sym.Poly(sympy_of(e), v)
    cs = p.all_coeffs()
    return [evaluate(c, env).ser() for c in reversed(cs)]


def rootdict(d, env):
    return [[evaluate(sympy_of(k), env).ser(), int(sympy_of(n))] for k, n in d.items()]


def minpoly_groups(d, env):
    """roots that are not Gaussian rationals: instantiate, take sympy's minimal polynomial over Q of every
    reported number (oracle, cross-checked numerically at 60 digits: can only withdraw), group the roots by it.
    returns [[coeffs low-first (rationals), multiplicity, number of distinct reported roots in the group], ...]"""
    x = sym.Symbol('x_mp')
    sub = {}
    for k_ in d:
        for sy in sympy_of(k_).free_symbols:
            if sy.name not in env:
                raise NotExact('free symbol ' + sy.name)
            sub[sy] = gsym(env[sy.name])
    groups = {}
    for k_, n_ in d.items():
        r_ = sympy_of(k_).xreplace(sub)
        if 'pi' in env:
            r_ = r_.xreplace({sym.pi: gsym(env['pi'])})
        mp = sym.Poly(sym.minimal_polynomial(r_, x), x)
        if abs(complex(sym.N(mp.as_expr().subs(x, r_), 60))) > 1e-40:
            raise NotExact('minimal polynomial cross-check failed')
        mp = mp.monic()
        key = tuple(mp.all_coeffs())
        g = groups.setdefault(key, {'mult': set(), 'roots': []})
        g['mult'].add(int(sympy_of(n_)))
        val = complex(sym.N(r_, 40))
        if all(abs(val - v2) > 1e-12 for v2 in g['roots']):
            g['roots'].append(val)
    out = []
    for key, g in groups.items():
        if len(g['mult']) != 1:
            out.append([[str(c_) for c_ in reversed(key)], -1, len(g['roots'])])      # conjugates reported with different multiplicities
        else:
            out.append([[['%d/%d' % (sym.Rational(c_).p, sym.Rational(c_).q), '0/1'] for c_ in reversed(key)], g['mult'].pop(), len(g['roots'])])
    return out


def roots_or_minpolys(r, d, env):
    try:
        r['roots'] = rootdict(d, env)
    except NotExact:
        r['minpolys'] = minpoly_groups(d, env)


def run_case(c):
    import time
    t_start = time.time()
    SURD[0] = 0
    out = {'m': {}}
    env = {k: G.des(v) for k, v in c['env'].items()}
    H, err = guarded(lambda: lexpr(c['expr']))
    if err:
        return {'error': 'parse: ' + err}
    var = H.var
    vname = str(var)
    out['cls'] = type(H).__name__
    if vname != c['var']:
        return {'error': 'variable %s, expected %s' % (vname, c['var'])}
    pts = [G.des(p) for p in c['points']]
    rpts = [G.des(p) for p in c.get('rpoints', [])]
    orig, err = guarded(lambda: evs(H, env, vname, pts))
    if err:
        return {'error': 'orig: ' + err}
    out['orig'] = orig
    if rpts:
        out['orig_r'], err = guarded(lambda: evs(H, env, vname, rpts))
        if err:
            out['orig_r'] = None
    rf, err = guarded(lambda: H._ratfun)
    if err:
        return {'error': 'ratfun: ' + err}
    if rf is None:
        return {'error': 'not a rational function (_ratfun is None)'}
    # --- decomposition
    def dec():
        B, A, delay, undef = rf.as_B_A_delay_undef()
        return {'B': poly_coeffs(B, var, env), 'A': poly_coeffs(A, var, env),
                'delay': evaluate(sym.sympify(delay), env).ser(),
                'undef': [ev(undef, env, vname, p).ser() for p in pts],
                'undef_r': [ev(undef, env, vname, p).ser() for p in rpts],
                'has_undef': bool(sym.sympify(undef) != 1),
                'N': evs(rf.N, env, vname, pts), 'D': evs(rf.D, env, vname, pts)}
    out['decomp'], err = guarded(dec)
    if err:
        return {'error': 'decomp: ' + err}

    tainted = False
    for key, name, kw in c['methods']:
        kw = dict(kw)

        def one():
            r = {}
            if name in ('canonical', 'general', 'standard', 'mixedfrac', 'partfrac', 'recippartfrac', 'ZPK', 'factored',
                        'timeconst', 'expandcanonical', 'as_continued_fraction', 'simplify', 'simplify_terms',
                        'simplify_factors', 'simplify_conjugates', 'as_continued_fraction_inverse', 'timeconst_terms',
                        'as_monic_terms', 'as_nonmonic_terms', 'expand_response', 'as_sum'):
                res = getattr(H, name)(**kw)
                r['vals'] = evs(res, env, vname, pts)
                r['str'] = str(res)[:200]
                r['cls'] = type(res).__name__
            elif name == 'rationalize_denominator':
                res = H.rationalize_denominator()
                use = rpts if (out['decomp']['has_undef'] or G.des(out['decomp']['delay']) != G(0)) else pts
                r['real_points'] = use is rpts
                r['vals'] = evs(res, env, vname, use)
                r['N'] = evs(H.N, env, vname, use)
                r['D'] = evs(H.D, env, vname, use)
            elif name == 'multiply_top_and_bottom':
                fct = sym.sympify(c['mfactor'], locals={vname: var})
                res = H.multiply_top_and_bottom(fct)
                r['vals'] = evs(res, env, vname, pts)
                r['f'] = evs(fct, env, vname, pts)
                r['N'] = evs(H.N, env, vname, pts)
                r['D'] = evs(H.D, env, vname, pts)
            elif name == 'divide_top_and_bottom':
                fct = lexpr(c['dfactor'])
                res = H.divide_top_and_bottom(fct)
                r['vals'] = evs(res, env, vname, pts)
                r['f'] = evs(fct, env, vname, pts)
                r['N'] = evs(H.N, env, vname, pts)
                r['D'] = evs(H.D, env, vname, pts)
            elif name == 'N_D':
                N, D_ = H.N, H.D
                r['N'] = evs(N, env, vname, pts)
                r['D'] = evs(D_, env, vname, pts)
                ds = D_.sympy
                r['D_is_poly'] = bool(ds.is_polynomial(var)) and not ds.has(sym.exp) and not ds.atoms(sym.core.function.AppliedUndef)
            elif name == 'poles':
                roots_or_minpolys(r, H.poles(**kw), env)
            elif name == 'zeros':
                roots_or_minpolys(r, H.zeros(**kw), env)
            elif name in ('poles_pairs', 'zeros_pairs', 'N_roots_pairs', 'D_roots_pairs'):
                # the public pairs=True interfaces (dict form and list form)
                src = {'poles_pairs': lambda **k_: H.poles(**k_), 'zeros_pairs': lambda **k_: H.zeros(**k_),
                       'N_roots_pairs': lambda **k_: H.N.roots(**k_), 'D_roots_pairs': lambda **k_: H.D.roots(**k_)}[name]
                prs, sgl = src(pairs=True)

                def kv(k_):
                    a_, b_ = list(k_)
                    return [evaluate(sympy_of(a_), env).ser(), evaluate(sympy_of(b_), env).ser()]
                r['pairs'] = [kv(k_) + [int(sympy_of(n_))] for k_, n_ in prs.items()]
                r['singles'] = rootdict(sgl, env)
                pl, sl = src(pairs=True, aslist=True)
                r['pairs_list'] = [kv(k_) for k_ in pl]
                r['singles_list'] = [evaluate(sympy_of(k_), env).ser() for k_ in sl]
                if name in ('N_roots_pairs', 'D_roots_pairs'):
                    # roots() of the expression's own numerator / denominator polynomial (NOT the cancelled B, A)
                    Pexpr = H.N if name == 'N_roots_pairs' else H.D
                    r['poly'] = poly_coeffs(Pexpr, var, env)
                    r['roots'] = rootdict(Pexpr.roots(), env)
            elif name == 'as_ZPK':
                zeros, poles, K, undef = rf.as_ZPK()
                r['zeros'] = rootdict(zeros, env)
                r['poles'] = rootdict(poles, env)
                r['K'] = evs(K, env, vname, pts)
                pp, ps = pair_conjugates(poles)
                zp, zs = pair_conjugates(zeros)
                pr = lambda d: [[evaluate(sym.sympify(k[0]), env).ser(), evaluate(sym.sympify(k[1]), env).ser(), int(n)] for k, n in d.items()]
                r['ppairs'], r['psingles'] = pr(pp), rootdict(ps, env)
                r['zpairs'], r['zsingles'] = pr(zp), rootdict(zs, env)
            elif name == 'as_QRPO':
                Q, R, P, O, delay, undef = rf.as_QRPO(**kw)
                r['Q'] = poly_coeffs(Q, var, env)
                r['R'] = [evaluate(sym.sympify(x), env).ser() for x in R]
                r['P'] = [evaluate(sym.sympify(x), env).ser() for x in P]
                r['O'] = [int(o) for o in O]
                r['delay'] = evaluate(sym.sympify(delay), env).ser()
                r['undef'] = [ev(undef, env, vname, p).ser() for p in pts]
            elif name == 'residues':
                R = rf.residues(**kw)
                r['R'] = [evaluate(sym.sympify(x), env).ser() for x in R]
            elif name == 'as_QRF':
                Q, R, F, delay, undef = rf.as_QRF(**kw)
                r['Q'] = evs(Q, env, vname, pts)
                r['terms'] = [[evs(a, env, vname, pts), evs(b, env, vname, pts)] for a, b in zip(R, F)]
                r['delay'] = evaluate(sym.sympify(delay), env).ser()
                r['undef'] = [ev(undef, env, vname, p).ser() for p in pts]
            elif name == 'recip_QRPO':
                q = miscsymbol('qtmp')
                e2 = H.subs(1 / q)
                rf2 = Ratfun(e2.sympy, q)
                Q, R, P, O, delay, undef = rf2.as_QRPO(**kw)
                r['Q'] = poly_coeffs(Q, q, env)
                r['R'] = [evaluate(sym.sympify(x), env).ser() for x in R]
                r['P'] = [evaluate(sym.sympify(x), env).ser() for x in P]
                r['O'] = [int(o) for o in O]
            elif name == 'cfi_coeffs':
                cs = H.continued_fraction_inverse_coeffs()
                r['coeffs'] = [evs(x, env, vname, pts) for x in cs]
            elif name == 'as_N_D_monic':
                N, D_ = H.as_N_D(monic_denominator=True)
                r['N'] = evs(N, env, vname, pts)
                r['D'] = evs(D_, env, vname, pts)
                r['Dpoly'] = poly_coeffs(D_, var, env)
            elif name == 'coeffs':
                # coefficient lists (highest power first) of the numerator / denominator polynomials
                for nm_, P_ in (('N', H.N), ('D', H.D)):
                    r[nm_ + 'c'] = [evaluate(sympy_of(x), env).ser() for x in P_.coeffs()]
                    r[nm_ + 'n'] = [evaluate(sympy_of(x), env).ser() for x in P_.normcoeffs()]
                    r[nm_] = evs(P_, env, vname, pts)
            elif name == 'as_QMA':
                # Ratfun.as_QMA: expression = (Q + M / A) * exp(-delay * var) * undef
                Q, M_, A_, delay, undef = rf.as_QMA()
                r['Q'] = poly_coeffs(Q, var, env)
                r['M'] = poly_coeffs(M_, var, env)
                r['A'] = poly_coeffs(A_, var, env)
                r['delay'] = evaluate(sym.sympify(delay), env).ser()
                r['undef'] = [ev(undef, env, vname, p).ser() for p in pts]
            elif name == 'as_ratfun_delay':
                # Expr.as_ratfun_delay: expression = ratfun * exp(-delay * var); raises when an undef factor is present
                res, delay = H.as_ratfun_delay()
                r['rvals'] = evs(res, env, vname, pts)
                r['delay'] = evaluate(sym.sympify(delay), env).ser()
                r['cls'] = type(res).__name__
                r['str'] = str(res)[:200]
            elif name == 'cf_coeffs':
                cs = H.continued_fraction_coeffs()
                r['coeffs'] = [evs(x, env, vname, pts) for x in cs]
            else:
                raise ValueError('unknown method ' + name)
            return r
        if time.time() - t_start > BUDGET:
            out['m'][key] = {'error': 'budget: case time budget exhausted'}
            continue
        if tainted:
            out['m'][key] = {'error': 'tainted: an earlier method of this case was interrupted'}
            continue
        res, err = guarded(one)
        out['m'][key] = res if err is None else {'error': err}
        out['surd_evals'] = SURD[0]
        if err and err.startswith('timeout'):
            # caches of H / its Ratfun may hold the outcome of an interrupted computation
            tainted = True
    return out


def main():
    cases = json.load(sys.stdin)
    res = []
    for c in cases:
        try:
            res.append(run_case(c))
        except Exception as e:
            res.append({'error': 'case: ' + type(e).__name__ + ': ' + str(e)[:200]})
    json.dump(res, sys.stdout)


main()
