"""Fail-closed translator for the switch logic of lcapy/mnacpts.py (class SW, method
_replace_switch) -> Coq definitions (Gen/SwitchGen.v) used by property C02.

Recognised subset (anything else raises Untranslatable with the source location):

    active_time = expr(self.args[0])
    if before:
        active = <cmp>
    else:
        active = <cmp>
    if kind in (<names>):           # any number of if / elif arms
        if active:
            return self._netmake_W()      (or _netmake_O())
        return self._netmake_O()          (or _netmake_W())

  <cmp> ::= expr(t) OP active_time | active_time OP expr(t)      OP in  <, <=, >, >=

Emitted:
    before_cmp_gen, after_cmp_gen : Qc -> Qc -> bool     (arguments: t, activation time)
    closed_gen : swkind -> bool -> bool                  (is the switch a wire, given `active`)
Only the arms that mention 'SWno' and 'SWnc' are translated ('SW' and 'SWpush' must share the
arm of 'SWno'); the SWspdt arm is outside C02's model and is skipped (recorded).
"""
import ast
import hashlib
import os


class Untranslatable(Exception):
    pass


OPS = {ast.Lt: 'lt', ast.LtE: 'le', ast.Gt: 'gt', ast.GtE: 'ge'}


def _loc(path, node):
    return '%s:%d' % (path, getattr(node, 'lineno', 0))


class SwitchTranslation:
    def __init__(self, repo):
        self.path = os.path.join(repo, 'lcapy', 'mnacpts.py')
        src = open(self.path).read()
        self.sha = hashlib.sha256(src.encode()).hexdigest()
        tree = ast.parse(src)
        cls = None
        for n in tree.body:
            if isinstance(n, ast.ClassDef) and n.name == 'SW':
                cls = n
        if cls is None:
            raise Untranslatable('%s: class SW not found' % self.path)
        fn = None
        for n in cls.body:
            if isinstance(n, ast.FunctionDef) and n.name == '_replace_switch':
                fn = n
        if fn is None:
            raise Untranslatable('%s: SW._replace_switch not found' % _loc(self.path, cls))
        args = [a.arg for a in fn.args.args]
        if args != ['self', 't', 'before']:
            raise Untranslatable('%s: signature %s' % (_loc(self.path, fn), args))
        self.line = fn.lineno
        self.before = None
        self.after = None
        self.arms = {}          # kind name -> closed_when_active (bool)
        self.skipped = []
        self.src_before = self.src_after = ''
        have_at = False
        for st in fn.body:
            if isinstance(st, ast.Expr) and isinstance(st.value, ast.Constant):
                continue        # docstring
            if isinstance(st, ast.Assign) and len(st.targets) == 1 and isinstance(st.targets[0], ast.Name):
                nm = st.targets[0].id
                if nm == 'kind':
                    if ast.unparse(st.value) != 'self.__class__.__name__':
                        raise Untranslatable('%s: kind = %s' % (_loc(self.path, st), ast.unparse(st.value)))
                    continue
                if nm == 'active_time':
                    if ast.unparse(st.value) != 'expr(self.args[0])':
                        raise Untranslatable('%s: active_time = %s' % (_loc(self.path, st), ast.unparse(st.value)))
                    have_at = True
                    continue
                raise Untranslatable('%s: assignment to %s' % (_loc(self.path, st), nm))
            if isinstance(st, ast.If) and isinstance(st.test, ast.Name) and st.test.id == 'before':
                self.before, self.src_before = self._active(st.body)
                self.after, self.src_after = self._active(st.orelse)
                continue
            if isinstance(st, ast.If):
                self._arms(st)
                continue
            raise Untranslatable('%s: statement %s' % (_loc(self.path, st), ast.unparse(st)[:60]))
        if not have_at or self.before is None or self.after is None:
            raise Untranslatable('%s: active_time / before branches not found' % _loc(self.path, fn))
        for k in ('SWno', 'SWnc'):
            if k not in self.arms:
                raise Untranslatable('%s: no arm for %s' % (_loc(self.path, fn), k))
        for k in ('SW', 'SWpush'):
            if self.arms.get(k) != self.arms['SWno']:
                raise Untranslatable('%s: %s is not treated like SWno' % (_loc(self.path, fn), k))

    def _active(self, body):
        if len(body) != 1 or not isinstance(body[0], ast.Assign):
            raise Untranslatable('%s: expected `active = <comparison>`' % _loc(self.path, body[0] if body else None))
        st = body[0]
        if len(st.targets) != 1 or not isinstance(st.targets[0], ast.Name) or st.targets[0].id != 'active':
            raise Untranslatable('%s: expected assignment to active' % _loc(self.path, st))
        c = st.value
        if not isinstance(c, ast.Compare) or len(c.ops) != 1 or type(c.ops[0]) not in OPS:
            raise Untranslatable('%s: comparison %s' % (_loc(self.path, st), ast.unparse(c)))
        l, r = ast.unparse(c.left), ast.unparse(c.comparators[0])
        op = OPS[type(c.ops[0])]
        if l == 'expr(t)' and r == 'active_time':
            return (op, 't', 'a'), ast.unparse(c)
        if l == 'active_time' and r == 'expr(t)':
            return (op, 'a', 't'), ast.unparse(c)
        raise Untranslatable('%s: operands %s, %s' % (_loc(self.path, st), l, r))

    def _arms(self, st):
        while True:
            t = st.test
            ok = (isinstance(t, ast.Compare) and len(t.ops) == 1 and isinstance(t.ops[0], ast.In) and
                  isinstance(t.left, ast.Name) and t.left.id == 'kind' and isinstance(t.comparators[0], ast.Tuple) and
                  all(isinstance(e, ast.Constant) and isinstance(e.value, str) for e in t.comparators[0].elts))
            if not ok:
                raise Untranslatable('%s: arm test %s' % (_loc(self.path, st), ast.unparse(t)))
            names = [e.value for e in t.comparators[0].elts]
            if any(n in ('SWno', 'SWnc', 'SW', 'SWpush') for n in names):
                self._arm(names, st.body)
            else:
                self.skipped.append(names)
            if len(st.orelse) == 1 and isinstance(st.orelse[0], ast.If):
                st = st.orelse[0]
                continue
            if st.orelse and not (len(st.orelse) == 1 and isinstance(st.orelse[0], ast.Raise)):
                raise Untranslatable('%s: else branch' % _loc(self.path, st.orelse[0]))
            return

    def _arm(self, names, body):
        def ret(s):
            if isinstance(s, ast.Return):
                u = ast.unparse(s.value)
                if u == 'self._netmake_W()':
                    return True
                if u == 'self._netmake_O()':
                    return False
            raise Untranslatable('%s: expected return self._netmake_W()/O()' % _loc(self.path, s))
        if len(body) != 2 or not isinstance(body[0], ast.If) or not isinstance(body[0].test, ast.Name) or body[0].test.id != 'active' \
                or len(body[0].body) != 1 or body[0].orelse:
            raise Untranslatable('%s: arm body' % _loc(self.path, body[0]))
        when_active = ret(body[0].body[0])
        otherwise = ret(body[1])
        if when_active == otherwise:
            raise Untranslatable('%s: both branches return the same component' % _loc(self.path, body[0]))
        for n in names:
            self.arms[n] = when_active

    @staticmethod
    def _cmp_coq(c):
        op, x, y = c
        # x OP y over {t, a}
        return {'lt': 'qlt %s %s' % (x, y), 'le': 'qle %s %s' % (x, y), 'gt': 'qlt %s %s' % (y, x), 'ge': 'qle %s %s' % (y, x)}[op]

    def coq_defs(self):
        def arm(k):
            return 'active' if self.arms[k] else 'negb active'
        return ('(* GENERATED by tools/tr_switch.py from lcapy/mnacpts.py (sha256 %s), SW._replace_switch at line %d.\n'
                '   before: active = %s ;  otherwise: active = %s.  Do not edit. *)\n'
                'Require Import LT.FieldSec LT.TimeDomSwitch.\n'
                'Definition before_cmp_gen (t a : Qc) : bool := %s.\n'
                'Definition after_cmp_gen (t a : Qc) : bool := %s.\n'
                'Definition closed_gen (k : swkind) (active : bool) : bool := match k with SWno => %s | SWnc => %s end.\n'
                % (self.sha[:16], self.line, self.src_before.replace('*)', '* )'), self.src_after.replace('*)', '* )'),
                   self._cmp_coq(self.before), self._cmp_coq(self.after), arm('SWno'), arm('SWnc')))


if __name__ == '__main__':
    import sys
    tr = SwitchTranslation(sys.argv[1] if len(sys.argv) > 1 else '/repo')
    print(tr.coq_defs())
    print('(* skipped arms: %s *)' % tr.skipped)
