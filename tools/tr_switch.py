"""Fail-closed translator for the switch logic of lcapy/mnacpts.py (class SW, method
_replace_switch) -> Coq definitions (Gen/SwitchGen.v) used by property C02.

Recognised subset (anything else raises Untranslatable with the source location):

    active_time = expr(self.args[0])
    if before:
        active = <cmp>
    else:
        active = <cmp>
    if kind in (<names>):           # any number of if / elif arms
        if active:
            return self._netmake_W()      (or _netmake_O())
        return self._netmake_O()          (or _netmake_W())

  <cmp> ::= expr(t) OP active_time | active_time OP expr(t)      OP in  <, <=, >, >=

Emitted:
    before_cmp_gen, after_cmp_gen : Qc -> Qc -> bool     (arguments: t, activation time)
    closed_gen : swkind -> bool -> bool                  (is the switch a wire, given `active`)
Only the arms that mention 'SWno' and 'SWnc' are translated ('SW' and 'SWpush' must share the
arm of 'SWno'); the SWspdt arm is outside C02's model and is skipped (recorded).
"""
import ast
import hashlib
import os
import warnings


def _parse(src):
    with warnings.catch_warnings():
        warnings.simplefilter('ignore')
        return ast.parse(src)


class Untranslatable(Exception):
    pass


OPS = {ast.Lt: 'lt', ast.LtE: 'le', ast.Gt: 'gt', ast.GtE: 'ge'}


def _loc(path, node):
    return '%s:%d' % (path, getattr(node, 'lineno', 0))


class SwitchTranslation:
    def __init__(self, repo):
        self.path = os.path.join(repo, 'lcapy', 'mnacpts.py')
        src = open(self.path).read()
        self.sha = hashlib.sha256(src.encode()).hexdigest()
        tree = _parse(src)
        cls = None
        for n in tree.body:
            if isinstance(n, ast.ClassDef) and n.name == 'SW':
                cls = n
        if cls is None:
            raise Untranslatable('%s: class SW not found' % self.path)
        fn = None
        for n in cls.body:
            if isinstance(n, ast.FunctionDef) and n.name == '_replace_switch':
                fn = n
        if fn is None:
            raise Untranslatable('%s: SW._replace_switch not found' % _loc(self.path, cls))
        args = [a.arg for a in fn.args.args]
        if args != ['self', 't', 'before']:
            raise Untranslatable('%s: signature %s' % (_loc(self.path, fn), args))
        self.line = fn.lineno
        self.before = None
        self.after = None
        self.arms = {}          # kind name -> closed_when_active (bool)
        self.skipped = []
        self.src_before = self.src_after = ''
        have_at = False
        for st in fn.body:
            if isinstance(st, ast.Expr) and isinstance(st.value, ast.Constant):
                continue        # docstring
            if isinstance(st, ast.Assign) and len(st.targets) == 1 and isinstance(st.targets[0], ast.Name):
                nm = st.targets[0].id
                if nm == 'kind':
                    if ast.unparse(st.value) != 'self.__class__.__name__':
                        raise Untranslatable('%s: kind = %s' % (_loc(self.path, st), ast.unparse(st.value)))
                    continue
                if nm == 'active_time':
                    if ast.unparse(st.value) != 'expr(self.args[0])':
                        raise Untranslatable('%s: active_time = %s' % (_loc(self.path, st), ast.unparse(st.value)))
                    have_at = True
                    continue
                raise Untranslatable('%s: assignment to %s' % (_loc(self.path, st), nm))
            if isinstance(st, ast.If) and isinstance(st.test, ast.Name) and st.test.id == 'before':
                self.before, self.src_before = self._active(st.body)
                self.after, self.src_after = self._active(st.orelse)
                continue
            if isinstance(st, ast.If):
                self._arms(st)
                continue
            raise Untranslatable('%s: statement %s' % (_loc(self.path, st), ast.unparse(st)[:60]))
        if not have_at or self.before is None or self.after is None:
            raise Untranslatable('%s: active_time / before branches not found' % _loc(self.path, fn))
        for k in ('SWno', 'SWnc'):
            if k not in self.arms:
                raise Untranslatable('%s: no arm for %s' % (_loc(self.path, fn), k))
        for k in ('SW', 'SWpush'):
            if self.arms.get(k) != self.arms['SWno']:
                raise Untranslatable('%s: %s is not treated like SWno' % (_loc(self.path, fn), k))

    def _active(self, body):
        if len(body) != 1 or not isinstance(body[0], ast.Assign):
            raise Untranslatable('%s: expected `active = <comparison>`' % _loc(self.path, body[0] if body else None))
        st = body[0]
        if len(st.targets) != 1 or not isinstance(st.targets[0], ast.Name) or st.targets[0].id != 'active':
            raise Untranslatable('%s: expected assignment to active' % _loc(self.path, st))
        c = st.value
        if not isinstance(c, ast.Compare) or len(c.ops) != 1 or type(c.ops[0]) not in OPS:
            raise Untranslatable('%s: comparison %s' % (_loc(self.path, st), ast.unparse(c)))
        l, r = ast.unparse(c.left), ast.unparse(c.comparators[0])
        op = OPS[type(c.ops[0])]
        if l == 'expr(t)' and r == 'active_time':
            return (op, 't', 'a'), ast.unparse(c)
        if l == 'active_time' and r == 'expr(t)':
            return (op, 'a', 't'), ast.unparse(c)
        raise Untranslatable('%s: operands %s, %s' % (_loc(self.path, st), l, r))

    def _arms(self, st):
        while True:
            t = st.test
            ok = (isinstance(t, ast.Compare) and len(t.ops) == 1 and isinstance(t.ops[0], ast.In) and
                  isinstance(t.left, ast.Name) and t.left.id == 'kind' and isinstance(t.comparators[0], ast.Tuple) and
                  all(isinstance(e, ast.Constant) and isinstance(e.value, str) for e in t.comparators[0].elts))
            if not ok:
                raise Untranslatable('%s: arm test %s' % (_loc(self.path, st), ast.unparse(t)))
            names = [e.value for e in t.comparators[0].elts]
            if any(n in ('SWno', 'SWnc', 'SW', 'SWpush') for n in names):
                self._arm(names, st.body)
            else:
                self.skipped.append(names)
            if len(st.orelse) == 1 and isinstance(st.orelse[0], ast.If):
                st = st.orelse[0]
                continue
            if st.orelse and not (len(st.orelse) == 1 and isinstance(st.orelse[0], ast.Raise)):
                raise Untranslatable('%s: else branch' % _loc(self.path, st.orelse[0]))
            return

    def _arm(self, names, body):
        def ret(s):
            if isinstance(s, ast.Return):
                u = ast.unparse(s.value)
                if u == 'self._netmake_W()':
                    return True
                if u == 'self._netmake_O()':
                    return False
            raise Untranslatable('%s: expected return self._netmake_W()/O()' % _loc(self.path, s))
        if len(body) != 2 or not isinstance(body[0], ast.If) or not isinstance(body[0].test, ast.Name) or body[0].test.id != 'active' \
                or len(body[0].body) != 1 or body[0].orelse:
            raise Untranslatable('%s: arm body' % _loc(self.path, body[0]))
        when_active = ret(body[0].body[0])
        otherwise = ret(body[1])
        if when_active == otherwise:
            raise Untranslatable('%s: both branches return the same component' % _loc(self.path, body[0]))
        for n in names:
            self.arms[n] = when_active

    @staticmethod
    def _cmp_coq(c):
        op, x, y = c
        # x OP y over {t, a}
        return {'lt': 'qlt %s %s' % (x, y), 'le': 'qle %s %s' % (x, y), 'gt': 'qlt %s %s' % (y, x), 'ge': 'qle %s %s' % (y, x)}[op]

    def coq_defs(self):
        def arm(k):
            return 'active' if self.arms[k] else 'negb active'
        return ('(* GENERATED by tools/tr_switch.py from lcapy/mnacpts.py (sha256 %s), SW._replace_switch at line %d.\n'
                '   before: active = %s ;  otherwise: active = %s.  Do not edit. *)\n'
                'Require Import LT.FieldSec LT.TimeDomSwitch.\n'
                'Definition before_cmp_gen (t a : Qc) : bool := %s.\n'
                'Definition after_cmp_gen (t a : Qc) : bool := %s.\n'
                'Definition closed_gen (k : swkind) (active : bool) : bool := match k with SWno => %s | SWnc => %s end.\n'
                % (self.sha[:16], self.line, self.src_before.replace('*)', '* )'), self.src_after.replace('*)', '* )'),
                   self._cmp_coq(self.before), self._cmp_coq(self.after), arm('SWno'), arm('SWnc')))


class ConvertTranslation:
    """Fail-closed translation of the loop of Netlist.convert_IVP (lcapy/netlist.py) into a
    TimeDomSwitch.loopdef.  Recognised shape (anything else raises Untranslatable):

        times = self.switching_times()
        if times == (): ... return self
        if t < times[0]: return self.replace_switches(t)
        cct = self  [; before = None] [; tprev = 0]
        for m, time in enumerate(times):
            if time > t: break                                  (or >=)
            if before is None:  before = <recv>.replace_switches_before(time); T = <texp>
            else:               before = <bexp>;                               T = <texp>
          | before = <recv>.replace_switches_before(time)       (the same on every iteration)
            cct = <recv>.replace_switches(time).initialize(before, <texp or T>)
            [tprev = time]
        [time = tprev] [if time != 0: warn(...)]
        return cct
      <recv> ::= self | cct      <bexp> ::= cct | <recv>.replace_switches_before(time)
      <texp> ::= time | time - tprev | 0
    """

    def __init__(self, repo):
        self.path = os.path.join(repo, 'lcapy', 'netlist.py')
        src = open(self.path).read()
        self.sha = hashlib.sha256(src.encode()).hexdigest()
        tree = _parse(src)
        fn = None
        for n in ast.walk(tree):
            if isinstance(n, ast.FunctionDef) and n.name == 'convert_IVP':
                fn = n
        if fn is None:
            raise Untranslatable('%s: convert_IVP not found' % self.path)
        self.line = fn.lineno
        if [a.arg for a in fn.args.args] != ['self', 't']:
            raise Untranslatable('%s: signature' % _loc(self.path, fn))
        body = [st for st in fn.body if not (isinstance(st, ast.Expr) and isinstance(st.value, ast.Constant))]
        U = ast.unparse
        have = {'times': False, 'early': False, 'cct': False, 'before_none': False, 'tprev0': False, 'ret': False}
        loop = None
        for st in body:
            u = U(st)
            if isinstance(st, ast.Assign) and u == 'times = self.switching_times()':
                have['times'] = True
            elif isinstance(st, ast.If) and U(st.test) == 'times == ()':
                if not (isinstance(st.body[-1], ast.Return) and U(st.body[-1].value) == 'self') or st.orelse:
                    raise Untranslatable('%s: no-switch branch' % _loc(self.path, st))
            elif isinstance(st, ast.If) and U(st.test) == 't < times[0]':
                if len(st.body) != 1 or not isinstance(st.body[0], ast.Return) or U(st.body[0].value) != 'self.replace_switches(t)' or st.orelse:
                    raise Untranslatable('%s: branch before the first instant' % _loc(self.path, st))
                have['early'] = True
            elif isinstance(st, ast.Assign) and u == 'cct = self':
                have['cct'] = True
            elif isinstance(st, ast.Assign) and u == 'before = None':
                have['before_none'] = True
            elif isinstance(st, ast.Assign) and u == 'tprev = 0':
                have['tprev0'] = True
            elif isinstance(st, ast.For):
                if loop is not None or U(st.target) != '(m, time)' or U(st.iter) != 'enumerate(times)' or st.orelse:
                    raise Untranslatable('%s: loop header %s in %s' % (_loc(self.path, st), U(st.target), U(st.iter)))
                if not (have['times'] and have['early'] and have['cct']):
                    raise Untranslatable('%s: loop before its initialisation' % _loc(self.path, st))
                loop = st
            elif isinstance(st, ast.Assign) and u == 'time = tprev' and loop is not None:
                pass
            elif isinstance(st, ast.If) and U(st.test) == 'time != 0' and loop is not None and all(isinstance(x, ast.Expr) for x in st.body) and not st.orelse:
                pass        # only a warning
            elif isinstance(st, ast.Return) and U(st.value) == 'cct' and loop is not None:
                have['ret'] = True
            else:
                raise Untranslatable('%s: statement %s' % (_loc(self.path, st), u[:60]))
        if loop is None or not have['ret']:
            raise Untranslatable('%s: loop / return cct not found' % _loc(self.path, fn))
        self.strict = None
        first = nxt = None        # (bexp, texp)
        self.after = None
        tprev_set = False
        Tinline = None
        pend_b = pend_T = None
        seen_init = False

        def recv(e):
            if isinstance(e, ast.Name) and e.id == 'self':
                return 'RSelf'
            if isinstance(e, ast.Name) and e.id == 'cct':
                return 'RCur'
            raise Untranslatable('%s: receiver %s' % (_loc(self.path, e), U(e)))

        def bexp(e):
            if isinstance(e, ast.Name) and e.id == 'cct':
                return 'BCur'
            if isinstance(e, ast.Call) and isinstance(e.func, ast.Attribute) and e.func.attr == 'replace_switches_before' and len(e.args) == 1 and U(e.args[0]) == 'time' and not e.keywords:
                return '(BBefore %s)' % recv(e.func.value)
            raise Untranslatable('%s: before = %s' % (_loc(self.path, e), U(e)))

        def texp(e):
            u = U(e)
            if u == 'time':
                return 'TTime'
            if u == 'time - tprev':
                return 'TRel'
            if u == '0':
                return 'TZero'
            raise Untranslatable('%s: T = %s' % (_loc(self.path, e), u))

        def branch(stmts):
            b = T = None
            for x in stmts:
                if isinstance(x, ast.Expr) and isinstance(x.value, ast.Constant):
                    continue
                if isinstance(x, ast.Assign) and len(x.targets) == 1 and isinstance(x.targets[0], ast.Name) and x.targets[0].id == 'before' and b is None:
                    b = bexp(x.value)
                elif isinstance(x, ast.Assign) and len(x.targets) == 1 and isinstance(x.targets[0], ast.Name) and x.targets[0].id == 'T' and T is None:
                    T = texp(x.value)
                else:
                    raise Untranslatable('%s: statement %s' % (_loc(self.path, x), U(x)[:60]))
            return b, T
        for st in loop.body:
            u = U(st)
            if isinstance(st, ast.If) and isinstance(st.test, ast.Compare) and U(st.test.left) == 'time' and U(st.test.comparators[0]) == 't' \
                    and type(st.test.ops[0]) in (ast.Gt, ast.GtE) and len(st.body) == 1 and isinstance(st.body[0], ast.Break) and not st.orelse:
                if self.strict is not None or seen_init or first is not None or pend_b is not None:
                    raise Untranslatable('%s: position of the break test' % _loc(self.path, st))
                self.strict = isinstance(st.test.ops[0], ast.Gt)
            elif isinstance(st, ast.If) and U(st.test) == 'before is None':
                if not have['before_none'] or first is not None or pend_b is not None:
                    raise Untranslatable('%s: `before is None` without `before = None`' % _loc(self.path, st))
                first = branch(st.body)
                nxt = branch(st.orelse)
            elif isinstance(st, ast.Assign) and len(st.targets) == 1 and isinstance(st.targets[0], ast.Name) and st.targets[0].id in ('before', 'T') and not seen_init and first is None:
                b, T = branch([st])
                pend_b = b if b is not None else pend_b
                pend_T = T if T is not None else pend_T
            elif isinstance(st, ast.Assign) and len(st.targets) == 1 and U(st.targets[0]) == 'cct' and not seen_init:
                c = st.value
                ok = (isinstance(c, ast.Call) and isinstance(c.func, ast.Attribute) and c.func.attr == 'initialize' and len(c.args) == 2 and not c.keywords
                      and U(c.args[0]) == 'before' and isinstance(c.func.value, ast.Call) and isinstance(c.func.value.func, ast.Attribute)
                      and c.func.value.func.attr == 'replace_switches' and len(c.func.value.args) == 1 and U(c.func.value.args[0]) == 'time' and not c.func.value.keywords)
                if not ok:
                    raise Untranslatable('%s: %s' % (_loc(self.path, st), u[:80]))
                self.after = recv(c.func.value.func.value)
                if U(c.args[1]) != 'T':
                    Tinline = texp(c.args[1])
                seen_init = True
            elif isinstance(st, ast.Assign) and u == 'tprev = time' and seen_init:
                tprev_set = True
            else:
                raise Untranslatable('%s: loop statement %s' % (_loc(self.path, st), u[:60]))
        if self.strict is None or not seen_init:
            raise Untranslatable('%s: break test / initialize call not found' % _loc(self.path, loop))
        if first is None:
            first = nxt = (pend_b, pend_T)
        first = (first[0], first[1] if first[1] is not None else Tinline)
        nxt = (nxt[0], nxt[1] if nxt[1] is not None else Tinline)
        if None in first or None in nxt:
            raise Untranslatable('%s: before / T not assigned on every path' % _loc(self.path, loop))
        if not first[0].startswith('(BBefore'):
            raise Untranslatable('%s: the first `before` is not a replace_switches_before call' % _loc(self.path, loop))
        if 'TRel' in (first[1], nxt[1]) and not (tprev_set and have['tprev0']):
            raise Untranslatable('%s: tprev used but not maintained' % _loc(self.path, loop))
        self.first, self.next = first, nxt
        self.loop_src = ' ; '.join(U(x).replace('\n', ' ') for x in loop.body)

    def coq_defs(self):
        fb = self.first[0][len('(BBefore '):-1]
        return ('(* GENERATED by tools/tr_switch.py from lcapy/netlist.py (sha256 %s), convert_IVP at line %d.\n   loop body: %s *)\n'
                'Definition loop_gen : loopdef := LoopDef %s %s %s %s %s %s.\n'
                % (self.sha[:16], self.line, self.loop_src.replace('*)', '* )')[:600], 'true' if self.strict else 'false', fb, self.first[1], self.next[0], self.next[1], self.after))


if __name__ == '__main__':
    import sys
    tr = SwitchTranslation(sys.argv[1] if len(sys.argv) > 1 else '/repo')
    print(tr.coq_defs())
    print('(* skipped arms: %s *)' % tr.skipped)
    print(ConvertTranslation(sys.argv[1] if len(sys.argv) > 1 else '/repo').coq_defs())
