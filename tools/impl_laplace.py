"""Worker for property C09: runs the REAL lcapy Laplace transformer (from $PYTHONPATH) on the cases given on
stdin (JSON list) and prints exact results (JSON list).

case: {"expr": "<lcapy expression in t>", "zic": bool, "pre": [[expr, zic], ...] (transforms done first, same cache),
       "points": [{"s0": int, "D": int, "syms": {name: "p/q"}}], "oracle": bool}
result: {"status": "ok" | "error" | "timeout" | "unreifiable" | "has_t",
         "result": str, "trace": [event codes], "ast": [ per point: list of monomials ] ,
         "values": [ per point: [re, im] as "p/q" | {"uneval": why} | {"offlattice": why} ],
         "oracle": {...} }

* reify: the sympy expression the transformer receives -> sum of products of factors in as_ordered_factors
  order (the AST of coq/theory/LaplaceModel.v), constants evaluated at the point's symbol values.
* trace: calls of sin_cos / function / func / integral / derivative_undef / integrate_0 / integrate_0minus / term
  observed by wrapping the methods at run time (no source hook).
* values: what Lcapy returned, evaluated EXACTLY at s = s0 with the characters of coq/theory/LaplaceExec.v
  (e^q -> 2^(qD), (cos q, sin q) -> ((3+4i)/5)^(qD), pi -> marker) in Gaussian rationals.
* oracle (floats, search only): mpmath quadrature of the defining integral from 0- with break points at every
  discontinuity, impulses added analytically, compared with Lcapy's result evaluated by mpmath at 3 real and
  2 complex s in the region of convergence.
"""
import sys
import json
if hasattr(sys, 'set_int_max_str_digits'):
    sys.set_int_max_str_digits(0)
import signal
import time
import warnings
import io
import contextlib
from fractions import Fraction

warnings.filterwarnings('ignore')
import sympy as sp
import mpmath as mp
from lcapy import expr as lexpr
from lcapy import t as lt, s as ls
import lcapy.laplace as LL
from lcapy.extrafunctions import rect, tri, ramp, rampstep
from sympy.core.function import AppliedUndef

tsym = lt.sympy
ssym = ls.sympy

# ---------------------------------------------------------------------------------- tracing
TRACE = []
STATE = {'int0minus_failed': False}
CODES = {'term': 0, 'sin_cos:ok': 1, 'sin_cos:fail': 2, 'function:val': 3, 'function:none': 4, 'func': 5,
         'integral': 6, 'derivative_undef': 7, 'integrate_0': 8, 'integrate_0minus': 9}


def _wrap(name, mode):
    orig = getattr(LL.LaplaceTransformer, name)

    def f(self, *a, **k):
        if mode == 'enter':
            if name == 'integrate_0' and STATE['int0minus_failed']:
                STATE['int0minus_failed'] = False      # fall-back after a failed integrate_0minus: same branch
            else:
                TRACE.append(CODES[name])
            if name == 'integrate_0minus':
                try:
                    return orig(self, *a, **k)
                except ValueError:
                    STATE['int0minus_failed'] = True
                    raise
            return orig(self, *a, **k)
        if mode == 'sincos':
            try:
                r = orig(self, *a, **k)
            except BaseException:
                TRACE.append(CODES['sin_cos:fail'])
                raise
            TRACE.append(CODES['sin_cos:ok'])
            return r
        if mode == 'function':
            r = orig(self, *a, **k)
            TRACE.append(CODES['function:none' if r is None else 'function:val'])
            return r
    setattr(LL.LaplaceTransformer, name, f)


for _n in ('term', 'func', 'integral', 'derivative_undef', 'integrate_0', 'integrate_0minus'):
    _wrap(_n, 'enter')
_wrap('sin_cos', 'sincos')
_wrap('function', 'function')


class Timeout(Exception):
    pass


def _alarm(signum, frame):
    raise Timeout()


signal.signal(signal.SIGALRM, _alarm)


# ---------------------------------------------------------------------------------- Gaussian rationals
class G:
    __slots__ = ('re', 'im')

    def __init__(self, re, im=0):
        self.re = Fraction(re)
        self.im = Fraction(im)

    def __add__(self, o):
        return G(self.re + o.re, self.im + o.im)

    def __sub__(self, o):
        return G(self.re - o.re, self.im - o.im)

    def __neg__(self):
        return G(-self.re, -self.im)

    def __mul__(self, o):
        return G(self.re * o.re - self.im * o.im, self.re * o.im + self.im * o.re)

    def inv(self):
        n = self.re * self.re + self.im * self.im
        if n == 0:
            raise ZeroDivisionError('1/0')
        return G(self.re / n, -self.im / n)

    def __truediv__(self, o):
        return self * o.inv()

    def conj(self):
        return G(self.re, -self.im)

    def is_real(self):
        return self.im == 0

    def ipow(self, n):
        if n < 0:
            return self.inv().ipow(-n)
        r = G(1)
        b = self
        while n:
            if n & 1:
                r = r * b
            b = b * b
            n >>= 1
        return r

    def js(self):
        return ['%d/%d' % (self.re.numerator, self.re.denominator), '%d/%d' % (self.im.numerator, self.im.denominator)]


class Uneval(Exception):
    pass


class OffLattice(Exception):
    pass


XPI = Fraction(1099511627776)
ROT0 = G(Fraction(3, 5), Fraction(4, 5))


def on_lattice(D, q):
    r = q * D
    if r.denominator != 1:
        raise OffLattice(str(q))
    return r.numerator


def xcis(D, q):
    h = XPI / 2
    k = (q / h + Fraction(1, 2)).__floor__()
    r = q - k * h
    n = on_lattice(D, r)
    b = ROT0.ipow(n) if n >= 0 else ROT0.conj().ipow(-n)
    km = k % 4
    if km == 0:
        return b
    if km == 1:
        return G(0, 1) * b
    if km == 2:
        return -b
    return -(G(0, 1) * b)


def xexr(D, q):
    n = on_lattice(D, q)
    return Fraction(2) ** n


def xex(D, z):
    return G(xexr(D, z.re)) * xcis(D, z.im)


def xFn(v, z):
    return (z + G(v + 2)) / (z * z + G(2 * v + 5))


def xFv(v, z):
    """value v(z) of the named function at an instant (mirror of LaplaceExec.xFv; v(0) is the initial-value atom)"""
    if z.re == 0 and z.im == 0:
        return xIc(v, 0)
    return (z * z + G(v + 3)) / (z + G(v + 5))


def xIc(v, m):
    return G(Fraction(7 + 3 * v + m, 5))


# ---------------------------------------------------------------------------------- exact evaluation
class Point:
    def __init__(self, p, names):
        self.s0 = G(Fraction(p['s0']))
        self.Ds = [int(d) for d in p.get('Ds', [p.get('D', 24)])]
        self.D = self.Ds[0]
        self.syms = {k: Fraction(v) for k, v in p.get('syms', {}).items()}
        self.names = names      # lower-case function name -> index

    def fn_index(self, name):
        low = name[0].lower() + name[1:]
        if low not in self.names:
            raise Uneval('unknown function ' + name)
        return self.names[low]

    def ev(self, e):
        if e.is_Integer or e.is_Rational:
            return G(Fraction(int(e.p), int(e.q)))
        if e is sp.I:
            return G(0, 1)
        if e is sp.pi:
            return G(XPI)
        if e is sp.E:
            return xex(self.D, G(1))
        if e.is_Symbol:
            if e == ssym:
                return self.s0
            if e.name in self.syms:
                return G(self.syms[e.name])
            raise Uneval('free symbol ' + e.name)
        if e.is_Add:
            r = G(0)
            for a in e.args:
                r = r + self.ev(a)
            return r
        if e.is_Mul:
            r = G(1)
            for a in e.args:
                r = r * self.ev(a)
            return r
        if e.is_Pow:
            b, x = e.args
            if x.is_Integer:
                return self.ev(b).ipow(int(x))
            if b is sp.E:
                return xex(self.D, self.ev(x))
            raise Uneval('power ' + str(e)[:40])
        if isinstance(e, sp.exp):
            return xex(self.D, self.ev(e.args[0]))
        if isinstance(e, (sp.sin, sp.cos)):
            z = self.ev(e.args[0])
            if not z.is_real():
                raise Uneval('trig of a complex number')
            c = xcis(self.D, z.re)
            return G(c.re) if isinstance(e, sp.cos) else G(c.im)
        if isinstance(e, sp.Abs):
            z = self.ev(e.args[0])
            if not z.is_real():
                raise Uneval('abs of a complex number')
            return G(abs(z.re))
        if isinstance(e, AppliedUndef):
            name = e.func.__name__
            if len(e.args) != 1:
                raise Uneval('function arity')
            if name[0].isupper():
                return xFn(self.fn_index(name), self.ev(e.args[0]))
            if e.args[0].has(tsym):
                raise Uneval('time function in result: ' + str(e))
            return xFv(self.fn_index(name), self.ev(e.args[0]))
        if isinstance(e, sp.Subs):
            d, var, pt = e.args
            if (isinstance(d, sp.Derivative) and isinstance(d.args[0], AppliedUndef) and len(var) == 1 and len(pt) == 1
                    and pt[0] == 0 and d.args[0].args == (var[0],) and all(v == var[0] for v in d.variables)):
                return xIc(self.fn_index(d.args[0].func.__name__), len(d.variables))
            raise Uneval('Subs ' + str(e)[:40])
        raise Uneval(type(e).__name__ + ' ' + str(e)[:40])

    def const(self, e):
        """t-free constant of the INPUT expression -> Gaussian rational (no exp/trig atoms allowed)"""
        e = sp.sympify(e)
        if e.is_Integer or e.is_Rational:
            return G(Fraction(int(e.p), int(e.q)))
        if e is sp.I:
            return G(0, 1)
        if e.is_Symbol and e.name in self.syms:
            return G(self.syms[e.name])
        if e.is_Add:
            r = G(0)
            for a in e.args:
                r = r + self.const(a)
            return r
        if e.is_Mul:
            r = G(1)
            for a in e.args:
                r = r * self.const(a)
            return r
        if e.is_Pow and e.args[1].is_Integer:
            return self.const(e.args[0]).ipow(int(e.args[1]))
        raise Unreifiable('constant ' + str(e)[:40])


# ---------------------------------------------------------------------------------- reification
class Unreifiable(Exception):
    pass


def linear(arg, var):
    """arg = a*var + b with a, b free of var"""
    arg = sp.expand(arg)
    p = arg.as_poly(var)
    if p is None or p.degree() > 1:
        raise Unreifiable('argument not linear: ' + str(arg)[:40])
    a = arg.coeff(var, 1)
    b = arg.coeff(var, 0)
    if a.has(var) or b.has(var):
        raise Unreifiable('argument not linear: ' + str(arg)[:40])
    return a, b


FUNCS = {'exp': 'exp', 'sin': 'sin', 'cos': 'cos', 'sinh': 'sinh', 'cosh': 'cosh', 'Heaviside': 'u',
         'rect': 'rect', 'tri': 'tri', 'ramp': 'ramp', 'rampstep': 'rstep'}


def split_const(g, var):
    """integrand -> (constant free of t and of the integration variable, the rest): the model of factor_const(integrand, var)
    for the integrands of the supported class (constant * named function(s))"""
    k = sp.S.One
    rest = []
    for x in g.as_ordered_factors():
        if x.has(var) or x.has(tsym):
            rest.append(x)
        else:
            k = k * x
    return k, (rest[0] if len(rest) == 1 else sp.Mul(*rest))


def reify_factor(f, names, kout=None):
    """-> symbolic leaf: [tag, ...] with sympy constants; kout collects the constant factors found INSIDE an integral
    (const2 of LaplaceTransformer.integral), which the caller folds into the coefficient of the monomial"""
    if f == tsym:
        return ['powt', 1]
    if f.is_Pow and f.args[0] == tsym and f.args[1].is_Integer and int(f.args[1]) >= 2:
        return ['powt', int(f.args[1])]
    if f.is_Add:
        p = f.as_poly(tsym)
        if p is None or any(c.has(tsym) for c in p.all_coeffs()):
            raise Unreifiable('sum factor ' + str(f)[:40])
        return ['poly', list(reversed(p.all_coeffs()))]
    if isinstance(f, sp.DiracDelta):
        k = 0
        if len(f.args) == 2:
            if not f.args[1].is_Integer:
                raise Unreifiable('DiracDelta order')
            k = int(f.args[1])
        a, b = linear(f.args[0], tsym)
        return ['delta', k, a, b]
    if isinstance(f, AppliedUndef):
        if len(f.args) != 1:
            raise Unreifiable('function arity')
        a, b = linear(f.args[0], tsym)
        nm = f.func.__name__
        names.setdefault(nm, len(names))
        return ['undef', names[nm], a, b]
    if isinstance(f, sp.Derivative):
        g = f.args[0]
        if not (isinstance(g, AppliedUndef) and g.args == (tsym,) and all(v == tsym for v in f.variables)):
            raise Unreifiable('derivative ' + str(f)[:40])
        nm = g.func.__name__
        names.setdefault(nm, len(names))
        return ['deriv', names[nm], len(f.variables)]
    if isinstance(f, sp.Integral):
        if len(f.args) != 2 or len(f.args[1]) != 3:
            raise Unreifiable('integral ' + str(f)[:40])
        var, lo, hi = f.args[1]
        g = f.args[0]
        if kout is not None:
            k2, g = split_const(g, var)
            if k2 != 1:
                kout.append(k2)
        # int_{lo}^{t} v(tau) dtau with lo <= 0 (the named functions are causal, so every lo <= 0 is the running integral)
        if isinstance(g, AppliedUndef) and g.args == (var,) and hi == tsym and (lo in (0, -sp.oo) or (lo.is_Rational and lo.is_negative)):
            nm = g.func.__name__
            names.setdefault(nm, len(names))
            return ['integ', names[nm]]
        # int_0^oo v(t - tau) dtau: the first branch of LaplaceTransformer.integral (goes through self.term(v(t)))
        if (isinstance(g, AppliedUndef) and len(g.args) == 1 and g.args[0] == tsym - var and lo == 0 and hi == sp.oo):
            nm = g.func.__name__
            names.setdefault(nm, len(names))
            return ['integA', names[nm]]
        if g.is_Mul and len(g.args) == 2 and all(isinstance(x, AppliedUndef) and len(x.args) == 1 for x in g.args):
            x, y = g.args
            if x.args[0] == var and sp.expand(y.args[0] - (tsym - var)) == 0:
                pass
            elif y.args[0] == var and sp.expand(x.args[0] - (tsym - var)) == 0:
                x, y = y, x
            else:
                raise Unreifiable('convolution ' + str(f)[:40])
            if (lo, hi) not in ((0, tsym), (-sp.oo, sp.oo), (-sp.oo, tsym), (0, sp.oo)):
                raise Unreifiable('convolution limits')
            for z in (x, y):
                names.setdefault(z.func.__name__, len(names))
            return ['conv', names[x.func.__name__], names[y.func.__name__]]
        # exp(a tau) * v(t - tau) over (0, t) or (0, oo): convolution of the classical signal e^{a t} (t >= 0) with a named
        # function (lower limit 0 only: with -oo the exponential would not be causal)
        if g.is_Mul and len(g.args) == 2 and lo == 0 and hi in (tsym, sp.oo):
            for i in (0, 1):
                e_, x_ = g.args[i], g.args[1 - i]
                if (isinstance(e_, sp.exp) and isinstance(x_, AppliedUndef) and len(x_.args) == 1
                        and sp.expand(x_.args[0] - (tsym - var)) == 0 and not e_.args[0].has(tsym)):
                    a, b = linear(e_.args[0], var)
                    if b != 0 or a == 0:
                        break
                    nm = x_.func.__name__
                    names.setdefault(nm, len(names))
                    return ['conve', a, names[nm], 1 - i]
        raise Unreifiable('integral ' + str(f)[:40])
    if f.is_Function:
        nm = type(f).__name__
        if nm in FUNCS:
            a, b = linear(f.args[0], tsym)
            return [FUNCS[nm], a, b]
    raise Unreifiable('factor ' + str(f)[:40])


def reify(x, names):
    """sympy expression -> [(const, [leaf...])...] with sympy constants"""
    out = []
    for term in x.as_ordered_terms():
        c = sp.S.One
        fs = []
        for f in term.as_ordered_factors():
            if not f.has(tsym):
                c = c * f
            else:
                kk = []
                fs.append(reify_factor(f, names, kk))
                for k2 in kk:
                    c = c * k2
        polys = [f for f in fs if f[0] == 'poly']
        if len(polys) > 1:
            prod = sp.Poly(1, tsym)
            for f in polys:
                prod = prod * sp.Poly(sum(cc * tsym ** i for i, cc in enumerate(f[1])), tsym)
            i0 = fs.index(polys[0])
            fs = [f for f in fs if f[0] != 'poly']
            fs.insert(i0, ['poly', list(reversed(prod.all_coeffs()))])
        out.append((c, fs))
    return out


def ast_at(sym_ast, pt):
    out = []
    for c, fs in sym_ast:
        lf = []
        for f in fs:
            g = [f[0]]
            for a in f[1:]:
                g.append(a if isinstance(a, int) else ([pt.const(x).js() for x in a] if isinstance(a, list) else pt.const(a).js()))
            lf.append(g)
        out.append({'c': pt.const(c).js(), 'fs': lf})
    return out


# ---------------------------------------------------------------------------------- float oracle
mp.mp.dps = 22


def cnum(js):
    return mp.mpc(mp.mpf(Fraction(js[0]).numerator) / Fraction(js[0]).denominator,
                  mp.mpf(Fraction(js[1]).numerator) / Fraction(js[1]).denominator)


def rnum(js):
    z = cnum(js)
    if z.imag != 0:
        raise Uneval('complex where real expected')
    return z.real


def vconc(v, x):
    """the concrete causal function standing for the named function number v:  x^4 e^{-(2+v)x}, x >= 0"""
    if x < 0:
        return mp.mpf(0)
    return x ** 4 * mp.exp(-(2 + v) * x)


def Vconc(v, z):
    return 24 / (z + 2 + v) ** 5


class Oracle:
    """numerical value of the defining integral of the expression given as the AST at one point"""

    def __init__(self, ast):
        self.ast = ast

    def leaf(self, f, x):
        tag = f[0]
        if tag == 'powt':
            return x ** f[1]
        if tag == 'poly':
            return mp.fsum(cnum(c) * x ** i for i, c in enumerate(f[1]))
        a = None
        if tag in ('exp', 'sin', 'cos', 'sinh', 'cosh'):
            a, b = cnum(f[1]), cnum(f[2])
            return getattr(mp, tag)(a * x + b)
        if tag in ('u', 'rect', 'tri', 'ramp', 'rstep'):
            y = rnum(f[1]) * x + rnum(f[2])
            if tag == 'u':
                return mp.mpf(1) if y > 0 else mp.mpf(0)
            if tag == 'rect':
                return mp.mpf(1) if abs(y) < mp.mpf(1) / 2 else mp.mpf(0)
            if tag == 'tri':
                return 1 - abs(y) if abs(y) < 1 else mp.mpf(0)
            if tag == 'ramp':
                return y if y > 0 else mp.mpf(0)
            return mp.mpf(0) if y < 0 else (y if y < 1 else mp.mpf(1))
        if tag == 'undef':
            return vconc(f[1], rnum(f[2]) * x + rnum(f[3]))
        if tag == 'deriv':
            v, k = f[1], f[2]
            if x <= 0:
                return mp.mpf(0)
            return mp.diff(lambda y: y ** 4 * mp.exp(-(2 + v) * y), x, k)
        if tag in ('integ', 'integA'):
            v = f[1]
            if x <= 0:
                return mp.mpf(0)
            lam = 2 + v
            return mp.gammainc(5, 0, lam * x) / mp.mpf(lam) ** 5
        raise Uneval('oracle: leaf ' + tag)

    def breaks(self, fs):
        pts = set()
        for f in fs:
            tag = f[0]
            if tag in ('u', 'ramp'):
                a, b = rnum(f[1]), rnum(f[2])
                pts.add(-b / a)
            elif tag == 'rect':
                a, b = rnum(f[1]), rnum(f[2])
                pts.update([(-b - mp.mpf(1) / 2) / a, (-b + mp.mpf(1) / 2) / a])
            elif tag == 'tri':
                a, b = rnum(f[1]), rnum(f[2])
                pts.update([(-b - 1) / a, -b / a, (-b + 1) / a])
            elif tag == 'rstep':
                a, b = rnum(f[1]), rnum(f[2])
                pts.update([-b / a, (-b + 1) / a])
            elif tag == 'undef':
                a, b = rnum(f[2]), rnum(f[3])
                pts.add(-b / a)
        return sorted(p for p in pts if p > 0)

    def growth(self):
        g = mp.mpf(0)
        for m in self.ast:
            r = mp.mpf(0)
            for f in m['fs']:
                if f[0] == 'exp':
                    r += max(mp.mpf(0), cnum(f[1]).real)
                elif f[0] in ('sinh', 'cosh'):
                    r += abs(cnum(f[1]).real)
                elif f[0] in ('sin', 'cos'):
                    r += abs(cnum(f[1]).imag)
            g = max(g, r)
        return g

    def mono(self, m, s):
        c = cnum(m['c'])
        fs = m['fs']
        deltas = [f for f in fs if f[0] == 'delta']
        rest = [f for f in fs if f[0] != 'delta']
        if any(f[0] in ('conv', 'conve') for f in fs):
            raise Uneval('oracle: convolution')
        if len(deltas) > 1:
            raise Uneval('oracle: product of impulses')

        def g(x):
            r = mp.mpc(1)
            for f in rest:
                r *= self.leaf(f, x)
            return r
        if deltas:
            d = deltas[0]
            k, a, b = d[1], rnum(d[2]), rnum(d[3])
            if a <= 0:
                raise Uneval('oracle: impulse with non-positive scale')
            T = -b / a
            if T < 0:
                return mp.mpc(0)
            for p in self.breaks(rest) + ([mp.mpf(0)] if any(f[0] in ('u', 'ramp', 'rect', 'tri', 'rstep', 'undef', 'deriv', 'integ', 'integA') for f in rest) else []):
                if abs(p - T) < mp.mpf(10) ** -20:
                    raise Uneval('oracle: impulse on a discontinuity')
            h = lambda x: g(x) * mp.exp(-s * x)
            val = h(T) if k == 0 else mp.diff(h, T, k)
            return c * (-1) ** k * val / a ** (k + 1)
        br = self.breaks(rest)
        pts = [mp.mpf(0)] + br
        last = pts[-1]
        # a few extra panels for oscillating / slowly decaying integrands
        pts += [last + 1, last + 3, last + 8, mp.inf]
        h = lambda x: g(x) * mp.exp(-s * x)
        return c * mp.quad(h, pts)

    def value(self, s):
        r = mp.mpc(0)
        for m in self.ast:
            r += self.mono(m, s)
        return r


def lcapy_float(R, pt, sval, names):
    """Lcapy's result evaluated with true exp/sin at s = sval (named functions -> their concrete transforms)"""
    inv = {v: k for k, v in names.items()}

    def ev(e):
        if e.is_Integer or e.is_Rational:
            return mp.mpf(int(e.p)) / int(e.q)
        if e is sp.I:
            return mp.mpc(0, 1)
        if e is sp.pi:
            return mp.pi
        if e is sp.E:
            return mp.e
        if e.is_Symbol:
            if e == ssym:
                return sval
            if e.name in pt.syms:
                return mp.mpf(pt.syms[e.name].numerator) / pt.syms[e.name].denominator
            raise Uneval('free symbol ' + e.name)
        if e.is_Add:
            return mp.fsum([ev(a) for a in e.args])
        if e.is_Mul:
            return mp.fprod([ev(a) for a in e.args])
        if e.is_Pow:
            return ev(e.args[0]) ** ev(e.args[1])
        if isinstance(e, sp.exp):
            return mp.exp(ev(e.args[0]))
        if isinstance(e, sp.sin):
            return mp.sin(ev(e.args[0]))
        if isinstance(e, sp.cos):
            return mp.cos(ev(e.args[0]))
        if isinstance(e, sp.Abs):
            return abs(ev(e.args[0]))
        if isinstance(e, AppliedUndef):
            name = e.func.__name__
            if name[0].isupper():
                return Vconc(pt.fn_index(name), ev(e.args[0]))
            if e.args[0].has(tsym):
                raise Uneval('time function in result')
            return vconc(pt.fn_index(name), mp.re(ev(e.args[0])))
        if isinstance(e, sp.Subs):
            return mp.mpf(0)      # v^(m)(0-) = 0 for the concrete causal functions, m <= 3
        raise Uneval(type(e).__name__)
    return ev(R)


def run_oracle(R, ast, pt, names):
    o = Oracle(ast)
    g = o.growth()
    pts = [g + 1, g + mp.mpf(5) / 2, g + 4, mp.mpc(g + mp.mpf(3) / 2, 2), mp.mpc(g + 3, -1)]
    rows = []
    bad = 0
    for sv in pts:
        want = o.value(sv)
        got = lcapy_float(R, pt, sv, names)
        err = abs(want - got) / max(mp.mpf(1), abs(want))
        rows.append([mp.nstr(sv, 8), mp.nstr(want, 15), mp.nstr(got, 15), mp.nstr(err, 5)])
        if err > mp.mpf(10) ** -6:
            bad += 1
        elif err > mp.mpf(10) ** -9:
            rows[-1].append('marginal')
    return {'rows': rows, 'bad': bad, 'verdict': 'mismatch' if bad >= 2 else ('ok' if bad == 0 else 'unclear')}


# ---------------------------------------------------------------------------------- one case
def transform(text, zic):
    e = lexpr(text)
    buf = io.StringIO()
    with contextlib.redirect_stdout(buf):
        r = e.laplace(zero_initial_conditions=zic)
    return e, r


def run(case):
    out = {}
    LL.laplace_transformer.clear_cache()
    try:
        for ptxt, pz in case.get('pre', []):
            try:
                transform(ptxt, pz)
            except (ValueError, NotImplementedError, TypeError, AttributeError):
                pass
        e = lexpr(case['expr'])
        x = e.expr
        names = {}
        try:
            sym_ast = reify(x, names)
        except Unreifiable as u:
            return {'status': 'unreifiable', 'why': str(u)}
        pts = [Point(p, names) for p in case['points']]
        try:
            out['ast'] = [ast_at(sym_ast, pt) for pt in pts]
        except Unreifiable as u:
            return {'status': 'unreifiable', 'why': str(u)}
        out['names'] = names
        del TRACE[:]
        STATE['int0minus_failed'] = False
        buf = io.StringIO()
        try:
            with contextlib.redirect_stdout(buf):
                r = e.laplace(zero_initial_conditions=bool(case.get('zic', False)))
        except Timeout:
            raise
        except Exception as ex:
            out.update(status='error', error=type(ex).__name__ + ': ' + str(ex)[:160], trace=list(TRACE))
            return out
        out['trace'] = list(TRACE)
        R = r.expr
        out['result'] = str(R)
        if tsym in R.free_symbols:
            out['status'] = 'has_t'
            return out
        if R.has(sp.Integral) or R.has(sp.Piecewise) or R.has(sp.Heaviside) or R.has(sp.DiracDelta) or R.has(sp.zoo) or R.has(sp.nan):
            out['status'] = 'no_closed_form'
            return out
        out['status'] = 'ok'
        vals = []
        for pt in pts:
            per = {}
            for dd in pt.Ds:
                pt.D = dd
                try:
                    per[str(dd)] = pt.ev(R).js()
                    break
                except OffLattice as ol:
                    per[str(dd)] = {'offlattice': str(ol)}
                except Uneval as un:
                    per[str(dd)] = {'uneval': str(un)}
                    break
                except ZeroDivisionError:
                    per[str(dd)] = {'uneval': 'division by zero at the evaluation point'}
                    break
            # finer lattices are also valid: give the value on every finer one that was asked for
            got = [d for d in pt.Ds if isinstance(per.get(str(d)), list)]
            if got:
                for dd in pt.Ds:
                    if dd > got[0]:
                        pt.D = dd
                        try:
                            per[str(dd)] = pt.ev(R).js()
                        except (OffLattice, Uneval, ZeroDivisionError):
                            pass
            pt.D = pt.Ds[0]
            vals.append(per)
        out['values'] = vals
        if case.get('oracle', True):
            try:
                out['oracle'] = run_oracle(R, out['ast'][0], pts[0], names)
            except Uneval as un:
                out['oracle'] = {'verdict': 'skipped', 'why': str(un)}
            except (ZeroDivisionError, ValueError, TypeError, OverflowError) as ex:
                out['oracle'] = {'verdict': 'skipped', 'why': type(ex).__name__ + ': ' + str(ex)[:80]}
            except mp.libmp.NoConvergence as ex:
                out['oracle'] = {'verdict': 'skipped', 'why': 'no convergence'}
        return out
    except Timeout:
        return {'status': 'timeout'}


def main():
    cases = json.load(sys.stdin)
    res = []
    for c in cases:
        signal.alarm(int(c.get('timeout', 40)))
        t0 = time.time()
        try:
            r = run(c)
        except Timeout:
            r = {'status': 'timeout'}
        except Exception as ex:
            r = {'status': 'crash', 'error': type(ex).__name__ + ': ' + str(ex)[:200]}
        finally:
            signal.alarm(0)
        r['secs'] = round(time.time() - t0, 2)
        res.append(r)
    json.dump(res, sys.stdout)


main()
