#!/bin/bash
# usage: tools/regress.sh "C01 C02 ..." "0 1 2" [tier] -- runs the checks on the unchanged /repo, 3 at a time; prints one line per run
ids=${1:-"C01 C02 C03 C04 C05 C06 C07 C08 C09 C10 C11 C12 C13 C14 C15 C16 C17 C18 C19 C20"}
seeds=${2:-"0"}
tier=${3:-quick}
cd /verif
for s in $seeds; do for p in $ids; do echo "$s $p"; done; done | xargs -P 4 -L 1 bash -c 'r=$(VERIF_SEED=$0 ./check $1 --tier '$tier' 2>&1 | grep -E "^(OK|VIOLATION)" | cut -c1-160 | tr "\n" ";"); echo "seed=$0 $1 $r"'
