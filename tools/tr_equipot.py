#!/usr/bin/env python3
"""Fail-closed translation of the rule "which components imply a wire" from
NetlistMixin.equipotential_nodes (lcapy/netlistmixin.py).

The loop body must have exactly the shape

    if elt.nosim: continue
    if elt.type == 'W':               enodes.add_wire(*elt.node_names)
    elif elt.type.startswith(P):      enodes.add_wire(elt.node_names[i], elt.node_names[j]) [; warn(...)]
    ...
    else:
        for connections in elt.equipotential_nodes:
            enodes.add_wires([elt.name + '.' + n for n in connections])

and is returned as a list of rules ('eq' | 'prefix', text, 'all' | (i, j)); anything else raises Untranslatable.
The check (checks/c01.py) builds the wire list of a circuit from these rules, so that the model of node
merging (coq/theory/WireMerge.v) is fed by what the source says now."""
import ast


class Untranslatable(Exception):
    pass


def _is_attr(node, obj, attr):
    return isinstance(node, ast.Attribute) and isinstance(node.value, ast.Name) and node.value.id == obj and node.attr == attr


def _idx(node):
    """elt.node_names[k] -> k"""
    if isinstance(node, ast.Subscript) and _is_attr(node.value, 'elt', 'node_names'):
        sl = node.slice
        if isinstance(sl, ast.Constant) and isinstance(sl.value, int):
            return sl.value
    raise Untranslatable('wire end is not elt.node_names[<int>]: ' + ast.dump(node)[:120])


def _cond(test):
    if isinstance(test, ast.Compare) and len(test.ops) == 1 and isinstance(test.ops[0], ast.Eq) and \
            _is_attr(test.left, 'elt', 'type') and isinstance(test.comparators[0], ast.Constant) and \
            isinstance(test.comparators[0].value, str):
        return ('eq', test.comparators[0].value)
    if isinstance(test, ast.Call) and isinstance(test.func, ast.Attribute) and test.func.attr == 'startswith' and \
            _is_attr(test.func.value, 'elt', 'type') and len(test.args) == 1 and not test.keywords and \
            isinstance(test.args[0], ast.Constant) and isinstance(test.args[0].value, str):
        return ('prefix', test.args[0].value)
    raise Untranslatable('unsupported condition: ' + ast.dump(test)[:160])


def _action(body):
    calls = [st for st in body if isinstance(st, ast.Expr) and isinstance(st.value, ast.Call)]
    if len(calls) != len(body):
        raise Untranslatable('branch contains something other than calls')
    wires = []
    for st in calls:
        c = st.value
        if isinstance(c.func, ast.Name) and c.func.id == 'warn':
            continue
        if not (isinstance(c.func, ast.Attribute) and _is_attr(c.func, 'enodes', 'add_wire')) or c.keywords:
            raise Untranslatable('branch calls something other than enodes.add_wire / warn')
        if len(c.args) == 1 and isinstance(c.args[0], ast.Starred) and _is_attr(c.args[0].value, 'elt', 'node_names'):
            wires.append('all')
        elif len(c.args) == 2:
            wires.append((_idx(c.args[0]), _idx(c.args[1])))
        else:
            raise Untranslatable('unsupported add_wire arguments')
    if len(wires) != 1:
        raise Untranslatable('a branch must add exactly one wire')
    return wires[0]


def translate(path):
    src = open(path).read()
    tree = ast.parse(src)
    fn = None
    for node in ast.walk(tree):
        if isinstance(node, ast.FunctionDef) and node.name == 'equipotential_nodes':
            if fn is not None:
                raise Untranslatable('two definitions of equipotential_nodes')
            fn = node
    if fn is None:
        raise Untranslatable('equipotential_nodes not found')
    loops = [st for st in fn.body if isinstance(st, ast.For)]
    if len(loops) != 2:
        raise Untranslatable('expected two for loops in equipotential_nodes, found %d' % len(loops))
    loop = loops[0]
    body = loop.body
    if len(body) != 2:
        raise Untranslatable('loop body must be: nosim guard + one if chain')
    g = body[0]
    if not (isinstance(g, ast.If) and _is_attr(g.test, 'elt', 'nosim') and len(g.body) == 1 and
            isinstance(g.body[0], ast.Continue) and not g.orelse):
        raise Untranslatable('first statement is not `if elt.nosim: continue`')
    rules = []
    node = body[1]
    while True:
        if not isinstance(node, ast.If):
            raise Untranslatable('if chain expected')
        kind, text = _cond(node.test)
        rules.append((kind, text, _action(node.body)))
        if len(node.orelse) == 1 and isinstance(node.orelse[0], ast.If):
            node = node.orelse[0]
            continue
        els = node.orelse
        break
    # the else branch: internal equipotential nodes of the component class
    ok = (len(els) == 1 and isinstance(els[0], ast.For) and _is_attr(els[0].iter, 'elt', 'equipotential_nodes') and
          len(els[0].body) == 1 and isinstance(els[0].body[0], ast.Expr) and isinstance(els[0].body[0].value, ast.Call) and
          _is_attr(els[0].body[0].value.func, 'enodes', 'add_wires'))
    if not ok:
        raise Untranslatable('else branch is not the loop over elt.equipotential_nodes')
    if not rules or rules[0] != ('eq', 'W', 'all'):
        raise Untranslatable('first rule is not: type == W joins all its nodes')
    return rules


def wires_of(rules, etype, nodes):
    """list of (node name, node name) the rules add for one component, or None when no rule applies"""
    for kind, text, act in rules:
        if (kind == 'eq' and etype == text) or (kind == 'prefix' and etype.startswith(text)):
            if act == 'all':
                if len(nodes) != 2:
                    raise Untranslatable('add_wire(*node_names) with %d nodes' % len(nodes))
                return [(nodes[0], nodes[1])]
            i, j = act
            return [(nodes[i], nodes[j])]
    return None


if __name__ == '__main__':
    import sys
    print(translate(sys.argv[1] if len(sys.argv) > 1 else '/repo/lcapy/netlistmixin.py'))
