"""Fail-closed translator: lcapy/twoport.py parameter-matrix classes -> Coq.

Reads the *source text* of /repo/lcapy/twoport.py with `ast` (never imports or
runs it) and lowers every parameter-conversion property and derived-quantity
property of AMatrix, BMatrix, GMatrix, HMatrix, SMatrix, TMatrix, YMatrix,
ZMatrix (with the TwoPortMatrix / TwoPortMixin fall-backs resolved along the
MRO) to field expressions over the class's own four entries and Z0.

Recognised subset (anything else raises Untranslatable with file:line):
  statements : docstring | `if <cond>: warn(...)` (no effect on the value)
             | `name = <expr>` | memo idiom `if not hasattr(self,'_Bparams'):
               self._Bparams = <expr>` ... `return self._Bparams` | `return <expr>`
  expressions: self | self._Xij | self.Xij | self.Xparams | <mat>.Xparams
             | <mat>.<derived> | <mat>.inv() | <mat>.det() | .expr | .simplify()
             | .as_expr() | XMatrix(((a,b),(c,d))) | XMatrix(<mat>)
             | LaplaceDomain{Impedance,Admittance,TransferFunction}(e) | expr(e)
             | LaplaceDomainImpedance('Z_0') | int literals | + - * / ** unary-
             | <mat> / scalar | <mat> * <mat>
Value-preserving wrappers (.simplify(), .expr, expr(), quantity constructors)
are erased; that erasure is validated by the correspondence check, which
evaluates the real properties and the emitted Coq at the same rational points.
"""
import ast
import hashlib
import sys

KINDS = ['A', 'B', 'G', 'H', 'S', 'T', 'Y', 'Z']
PARAMS = [k + 'params' for k in KINDS]
DERIVED = ['Z1oc', 'Z1sc', 'Z2oc', 'Z2sc', 'Vgain12', 'Vgain21', 'Igain12', 'Igain21',
           'forward_transadmittance', 'reverse_transadmittance',
           'forward_transimpedance', 'reverse_transimpedance']
SCALAR_WRAPPERS = {'LaplaceDomainImpedance', 'LaplaceDomainAdmittance',
                   'LaplaceDomainTransferFunction', 'LaplaceDomainExpression', 'expr'}


class Untranslatable(Exception):
    pass


def fail(node, why, fname='lcapy/twoport.py'):
    raise Untranslatable('%s:%s: %s: %s' % (fname, getattr(node, 'lineno', '?'), why,
                                            ast.dump(node)[:200]))


class Translator:
    def __init__(self, path):
        self.path = path
        self.src = open(path).read()
        self.sha = hashlib.sha256(self.src.encode()).hexdigest()
        tree = ast.parse(self.src)
        self.classes = {}
        for n in tree.body:
            if isinstance(n, ast.ClassDef):
                self.classes[n.name] = n
        self.methods = {}   # (classname, meth) -> FunctionDef
        for cname in [k + 'Matrix' for k in KINDS] + ['TwoPortMatrix', 'TwoPortMixin']:
            if cname not in self.classes:
                raise Untranslatable('class %s not found in %s' % (cname, path))
            for n in self.classes[cname].body:
                if isinstance(n, ast.FunctionDef):
                    self.methods[(cname, n.name)] = n
        for k in KINDS:
            bases = [ast.unparse(b) for b in self.classes[k + 'Matrix'].bases]
            if bases != ['TwoPortMatrix']:
                raise Untranslatable('unexpected bases of %sMatrix: %s' % (k, bases))
        bases = [ast.unparse(b) for b in self.classes['TwoPortMatrix'].bases]
        if bases != ['Matrix', 'TwoPortMixin']:
            raise Untranslatable('unexpected bases of TwoPortMatrix: %s' % bases)
        self.defs = {}      # (kind, prop) -> (type, ir, lineno, owner)
        self.order = []
        self.inprogress = set()

    # ---- resolution -------------------------------------------------------
    def resolve(self, kind, meth):
        for cname in (kind + 'Matrix', 'TwoPortMatrix', 'TwoPortMixin'):
            if (cname, meth) in self.methods:
                return cname, self.methods[(cname, meth)]
        return None, None

    def is_property(self, fn):
        return any(isinstance(d, ast.Name) and d.id == 'property' for d in fn.decorator_list)

    def get(self, kind, prop):
        key = (kind, prop)
        if key in self.defs:
            return self.defs[key]
        if key in self.inprogress:
            raise Untranslatable('cyclic definition of %sMatrix.%s (would not terminate)' % key)
        owner, fn = self.resolve(kind, prop)
        if fn is None:
            raise Untranslatable('%sMatrix has no attribute %s' % key)
        self.inprogress.add(key)
        typ, ir = self.lower_fn(kind, fn, prop)
        self.inprogress.discard(key)
        if prop in PARAMS:
            if typ[0] != 'M':
                fail(fn, '%s.%s does not return a matrix' % key)
            if typ[1] not in (None, prop[0]):
                fail(fn, '%s.%s returns a %s matrix' % (kind, prop, typ[1]))
            typ = ('M', prop[0])
        self.defs[key] = (typ, ir, fn.lineno, owner)
        self.order.append(key)
        return self.defs[key]

    # ---- lowering ---------------------------------------------------------
    def lower_fn(self, kind, fn, prop):
        if prop in PARAMS + DERIVED and not self.is_property(fn):
            fail(fn, 'expected a @property')
        env = {}
        body = list(fn.body)
        memo = None
        result = None
        for st in body:
            if result is not None:
                fail(st, 'statement after return')
            if isinstance(st, ast.Expr) and isinstance(st.value, ast.Constant) and isinstance(st.value.value, str):
                continue
            if isinstance(st, ast.If):
                # warn-only guard
                if (len(st.body) == 1 and not st.orelse and isinstance(st.body[0], ast.Expr)
                        and isinstance(st.body[0].value, ast.Call)
                        and isinstance(st.body[0].value.func, ast.Name)
                        and st.body[0].value.func.id == 'warn'):
                    continue
                # memo idiom
                t = ast.unparse(st.test)
                if t.startswith("not hasattr(self, '_") and not st.orelse:
                    attr = t[len("not hasattr(self, '"):-2]
                    menv = dict(env)
                    val = None
                    for s2 in st.body:
                        if isinstance(s2, ast.Expr) and isinstance(s2.value, ast.Constant):
                            continue
                        if isinstance(s2, ast.If) and len(s2.body) == 1 and isinstance(s2.body[0], ast.Expr) \
                                and isinstance(s2.body[0].value, ast.Call) \
                                and getattr(s2.body[0].value.func, 'id', None) == 'warn' and not s2.orelse:
                            continue
                        if isinstance(s2, ast.Assign) and len(s2.targets) == 1:
                            tg = s2.targets[0]
                            if isinstance(tg, ast.Name):
                                menv[tg.id] = self.lower(kind, s2.value, menv)
                                continue
                            if isinstance(tg, ast.Attribute) and ast.unparse(tg) == 'self.' + attr:
                                val = self.lower(kind, s2.value, menv)
                                continue
                        fail(s2, 'unsupported statement in memo block')
                    if val is None:
                        fail(st, 'memo block does not assign self.' + attr)
                    memo = (attr, val)
                    continue
                fail(st, 'unsupported if')
            if isinstance(st, ast.Assign) and len(st.targets) == 1 and isinstance(st.targets[0], ast.Name):
                env[st.targets[0].id] = self.lower(kind, st.value, env)
                continue
            if isinstance(st, ast.Return):
                if memo is not None and ast.unparse(st.value) == 'self.' + memo[0]:
                    result = memo[1]
                else:
                    if memo is not None:
                        fail(st, 'memo idiom without matching return')
                    result = self.lower(kind, st.value, env)
                continue
            fail(st, 'unsupported statement')
        if result is None:
            fail(fn, 'no return')
        return result

    def lower(self, kind, e, env):
        """returns (type, ir); type = ('S',) or ('M', kind-or-None)"""
        S = ('S',)
        if isinstance(e, ast.Constant):
            if isinstance(e.value, int) and not isinstance(e.value, bool):
                return S, ('num', e.value)
            fail(e, 'unsupported constant')
        if isinstance(e, ast.Name):
            if e.id == 'self':
                return ('M', kind), ('self',)
            if e.id in env:
                return env[e.id]
            fail(e, 'unknown name')
        if isinstance(e, ast.UnaryOp) and isinstance(e.op, ast.USub):
            t, x = self.lower(kind, e.operand, env)
            if t != S:
                fail(e, 'negated matrix')
            return S, ('neg', x)
        if isinstance(e, ast.BinOp):
            tl, l = self.lower(kind, e.left, env)
            if isinstance(e.op, ast.Pow):
                if tl != S or not (isinstance(e.right, ast.Constant) and isinstance(e.right.value, int)
                                   and e.right.value >= 0):
                    fail(e, 'unsupported power')
                return S, ('pow', l, e.right.value)
            tr, r = self.lower(kind, e.right, env)
            if tl == S and tr == S:
                op = {ast.Add: 'add', ast.Sub: 'sub', ast.Mult: 'mul', ast.Div: 'div'}.get(type(e.op))
                if op is None:
                    fail(e, 'unsupported operator')
                return S, (op, l, r)
            if tl[0] == 'M' and tr == S and isinstance(e.op, ast.Div):
                return tl, ('mdivs', l, r)
            if tl[0] == 'M' and tr[0] == 'M' and isinstance(e.op, ast.Mult):
                k = tl[1] if tl[1] == tr[1] else None
                return ('M', k), ('mmul', l, r)
            fail(e, 'unsupported mixed operation')
        if isinstance(e, ast.Attribute):
            name = e.attr
            # entries: self._A12 / self.A12 (on any matrix value)
            nm = name[1:] if name.startswith('_') else name
            if len(nm) == 3 and nm[0] in KINDS and nm[1] in '12' and nm[2] in '12':
                t, m = self.lower(kind, e.value, env)
                if t[0] != 'M' or t[1] is None:
                    fail(e, 'entry of untyped value')
                m2 = self.call(t[1], nm[0] + 'params', m)
                return S, ('ent', m2, int(nm[1]), int(nm[2]))
            if name in PARAMS:
                t, m = self.lower(kind, e.value, env)
                if t[0] != 'M' or t[1] is None:
                    fail(e, 'conversion of untyped value')
                return ('M', name[0]), self.call(t[1], name, m)
            if name in DERIVED:
                t, m = self.lower(kind, e.value, env)
                if t[0] != 'M' or t[1] is None:
                    fail(e, 'derived quantity of untyped value')
                self.get(t[1], name)
                return S, ('calls', t[1], name, m)
            if name == 'expr':
                return self.lower(kind, e.value, env)
            fail(e, 'unsupported attribute')
        if isinstance(e, ast.Call):
            f = e.func
            if isinstance(f, ast.Attribute):
                if f.attr in ('simplify', 'as_expr') and not e.args and not e.keywords:
                    return self.lower(kind, f.value, env)
                if f.attr == 'inv' and not e.args and not e.keywords:
                    t, m = self.lower(kind, f.value, env)
                    if t[0] != 'M':
                        fail(e, 'inv of scalar')
                    return ('M', None), ('inv', m)
                if f.attr == 'det' and not e.args and not e.keywords:
                    t, m = self.lower(kind, f.value, env)
                    if t[0] != 'M':
                        fail(e, 'det of scalar')
                    return S, ('det', m)
                fail(e, 'unsupported method call')
            if isinstance(f, ast.Name):
                if f.id in SCALAR_WRAPPERS and len(e.args) == 1 and not e.keywords:
                    a = e.args[0]
                    if isinstance(a, ast.Constant) and a.value == 'Z_0':
                        return S, ('z0',)
                    t, x = self.lower(kind, a, env)
                    if t != S:
                        fail(e, 'scalar wrapper of matrix')
                    return S, x
                if f.id.endswith('Matrix') and f.id[:-6] in KINDS and len(e.args) == 1 and not e.keywords:
                    k = f.id[0]
                    a = e.args[0]
                    if isinstance(a, ast.Tuple):
                        if len(a.elts) != 2 or not all(isinstance(r, ast.Tuple) and len(r.elts) == 2 for r in a.elts):
                            fail(e, 'matrix literal is not 2x2')
                        ents = []
                        for r in a.elts:
                            for c in r.elts:
                                t, x = self.lower(kind, c, env)
                                if t != S:
                                    fail(c, 'matrix entry is a matrix')
                                ents.append(x)
                        return ('M', k), ('lit',) + tuple(ents)
                    t, m = self.lower(kind, a, env)
                    if t[0] != 'M':
                        fail(e, 'matrix constructor of scalar')
                    return ('M', k), m
            fail(e, 'unsupported call')
        fail(e, 'unsupported expression')

    def call(self, k, prop, m):
        self.get(k, prop)
        if k == prop[0]:
            # XMatrix.Xparams is `return self`; keep the call so an edit shows up
            pass
        return ('callm', k, prop, m)

    # ---- Coq emission -----------------------------------------------------
    def coq(self, ir, selfname='m'):
        t = ir[0]
        c = lambda x: self.coq(x, selfname)
        if t == 'num':
            n = ir[1]
            if n == 0:
                return '0'
            if n == 1:
                return '1'
            if n == 2:
                return '(1+1)'
            if 0 < n <= 16:
                return '(' + '+'.join(['1'] * n) + ')'
            raise Untranslatable('integer literal %d too large' % n)
        if t == 'z0':
            return 'Z0'
        if t == 'self':
            return selfname
        if t == 'ent':
            return '(m%d%d %s)' % (ir[2], ir[3], c(ir[1]))
        if t == 'det':
            return '(det %s)' % c(ir[1])
        if t in ('add', 'sub', 'mul', 'div'):
            return '(%s %s %s)' % (c(ir[1]), {'add': '+', 'sub': '-', 'mul': '*', 'div': '/'}[t], c(ir[2]))
        if t == 'neg':
            return '(fopp %s)' % c(ir[1])
        if t == 'pow':
            if ir[2] == 0:
                return '1'
            return '(' + ' * '.join([c(ir[1])] * ir[2]) + ')'
        if t == 'lit':
            return '(Mat %s %s %s %s)' % tuple(c(x) for x in ir[1:])
        if t == 'inv':
            return '(minv %s)' % c(ir[1])
        if t == 'mdivs':
            return '(mdivs %s %s)' % (c(ir[1]), c(ir[2]))
        if t == 'mmul':
            return '(mmul %s %s)' % (c(ir[1]), c(ir[2]))
        if t == 'callm' or t == 'calls':
            return '(%s_%s Z0 %s)' % (ir[1], ir[2], c(ir[3]))
        raise Untranslatable('internal: unknown IR ' + t)

    # ---- sympy evaluation (hypothesis proposal only; untrusted) -----------
    def sym(self, ir, m, Z0, dens):
        import sympy as sp
        t = ir[0]
        s = lambda x: self.sym(x, m, Z0, dens)
        if t == 'num':
            return sp.Integer(ir[1])
        if t == 'z0':
            return Z0
        if t == 'self':
            return m
        if t == 'ent':
            return s(ir[1])[(ir[2] - 1) * 2 + (ir[3] - 1)]
        if t == 'det':
            a = s(ir[1])
            return a[0] * a[3] - a[1] * a[2]
        if t == 'add':
            return s(ir[1]) + s(ir[2])
        if t == 'sub':
            return s(ir[1]) - s(ir[2])
        if t == 'mul':
            return s(ir[1]) * s(ir[2])
        if t == 'div':
            d = s(ir[2])
            dens.append(d)
            return s(ir[1]) / d
        if t == 'neg':
            return -s(ir[1])
        if t == 'pow':
            return s(ir[1]) ** ir[2]
        if t == 'lit':
            return tuple(s(x) for x in ir[1:])
        if t == 'inv':
            a = s(ir[1])
            d = a[0] * a[3] - a[1] * a[2]
            dens.append(d)
            return (a[3] / d, -a[1] / d, -a[2] / d, a[0] / d)
        if t == 'mdivs':
            a = s(ir[1])
            d = s(ir[2])
            dens.append(d)
            return tuple(x / d for x in a)
        if t == 'mmul':
            a = s(ir[1])
            b = s(ir[2])
            return (a[0] * b[0] + a[1] * b[2], a[0] * b[1] + a[1] * b[3],
                    a[2] * b[0] + a[3] * b[2], a[2] * b[1] + a[3] * b[3])
        if t in ('callm', 'calls'):
            a = s(ir[3])
            return self.sym(self.defs[(ir[1], ir[2])][1], a, Z0, dens)
        raise Untranslatable('internal: unknown IR ' + t)

    def atoms(self, irs_with_self, extra=()):
        """irreducible polynomial factors of all numerators/denominators of the
        denominators met when evaluating the given IRs at a generic matrix"""
        import sympy as sp
        syms = sp.symbols('x11 x12 x21 x22 Z0')
        m = syms[:4]
        Z0 = syms[4]
        dens = []
        vals = []
        for ir, selfval in irs_with_self:
            sv = m if selfval is None else selfval
            vals.append(self.sym(ir, sv, Z0, dens))
        dens.extend(extra)
        facs = []
        for d in dens:
            d = sp.together(sp.sympify(d))
            n, dd = sp.fraction(d)
            for p in (n, dd):
                p = sp.expand(p)
                if p == 0:
                    facs.append(sp.Integer(0))
                    continue
                c, fl = sp.factor_list(p)
                for f, _ in fl:
                    f = sp.expand(f)
                    if f.free_symbols:
                        if sp.LC(sp.Poly(f, *syms), order='lex') < 0 if False else False:
                            f = -f
                        if f not in facs and -f not in facs:
                            facs.append(f)
        return facs, vals, syms


def poly_to_coq(p, names):
    """sympy polynomial with integer coefficients -> Coq field expression"""
    import sympy as sp
    p = sp.expand(p)
    if p == 0:
        return '0'
    terms = []
    for term in sp.Add.make_args(p):
        c, rest = term.as_coeff_Mul()
        if not c.is_Integer:
            raise Untranslatable('non-integer coefficient in hypothesis polynomial %s' % p)
        c = int(c)
        fs = []
        for f in sp.Mul.make_args(rest):
            if f == 1:
                continue
            b, e = f.as_base_exp()
            fs.extend([names[str(b)]] * int(e))
        ac = abs(c)
        if ac != 1 or not fs:
            fs.insert(0, '1' if ac == 1 else '(' + '+'.join(['1'] * ac) + ')')
        terms.append((c < 0, ' * '.join(fs)))
    out = ''
    for i, (neg, t) in enumerate(terms):
        if i == 0:
            out = ('fopp (' + t + ')') if neg else t
        else:
            out += (' - ' if neg else ' + ') + t
    return '(' + out + ')'


def main(repo, outdir):
    tr = Translator(repo + '/lcapy/twoport.py')
    for k in KINDS:
        for p in PARAMS + DERIVED:
            tr.get(k, p)
    return tr


if __name__ == '__main__':
    tr = main(sys.argv[1], None)
    for key in tr.order:
        typ, ir, line, owner = tr.defs[key]
        print(key, typ, owner, line, tr.coq(ir))
