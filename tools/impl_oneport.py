"""Runs the REAL lcapy one-port / two-port network classes (from /repo) on the
JSON cases given on stdin and prints exact rational results (JSON).

case modes
  oneport : {"mode":"oneport","tree":T,"s0":"p/q","subs":{sym:"p/q"},"want":[...]}
            T = [cls, [args...]] for a leaf (args are strings: rationals or expressions in s),
                ["Ser",[T,...]] / ["Par",[T,...]]
            want subset of: alg (Z,Y,Voc,Isc by the network algebra), net (cct.impedance/admittance/Voc/Isc),
                            netlist (parsed components), simp (simplify(): structure + its alg values)
  twoport : {"mode":"twoport","tp":P,"s0":..., "want":[alg, net, netlist]}
            P = [cls,[P or T ...]]   (Series/Shunt/SeriesPair/LSection/... take one-port trees, Chain/Par2/... two-ports)
  ctor    : {"mode":"ctor","kind":"A","meth":"Zseries","args":[...],"s0":...}  section constructors of the matrix classes
All values are evaluated at s = s0 (and the symbol substitutions) with exact
rational arithmetic; a value that is not rational there is reported as null,
complex infinity as "zoo".  Superposition results are taken through .laplace()
(dc 4 -> 4/s, ac -> its unilateral transform) so that the two routes are
compared as signals on t >= 0.
"""
import sys, json, warnings, io, contextlib, signal
warnings.filterwarnings('ignore')
import sympy as sp
from lcapy import oneport as OP, twoport as TP
from lcapy import Circuit
from lcapy.sym import ssym


class CaseTimeout(Exception):
    pass


TIMED_OUT = [False]


def _alarm(signum, frame):
    # lcapy contains bare `except:` clauses that can swallow this exception and carry on with a fall-back
    # value: remember that the budget was exceeded (the whole case is then discarded) and keep interrupting
    TIMED_OUT[0] = True
    signal.alarm(2)
    raise CaseTimeout()


def rat(x, point):
    """exact rational value at the point: 'p/q' | 'zoo' | None"""
    x = getattr(x, 'sympy', x)
    x = sp.sympify(x)
    if x == sp.zoo:
        return 'zoo'
    sub = {}
    for sy in x.free_symbols:
        if sy.name in point:
            sub[sy] = point[sy.name]
    x = x.subs(sub)
    if x == sp.zoo or x.has(sp.zoo):
        return 'zoo'
    if x.has(sp.nan):
        return None
    if not x.is_number:
        x = sp.cancel(sp.together(x))
    if x.is_Rational:
        return '%d/%d' % (x.p, x.q)
    x = sp.nsimplify(sp.simplify(x))
    if x.is_Rational:
        return '%d/%d' % (x.p, x.q)
    return None


def crat(x, point):
    """exact Gaussian-rational value: ['p/q', 'p/q'] (re, im) or None"""
    x = sp.sympify(getattr(x, 'sympy', x))
    sub = {sy: point[sy.name] for sy in x.free_symbols if sy.name in point}
    x = sp.simplify(x.subs(sub))
    if x.has(sp.zoo) or x.has(sp.nan):
        return None
    re_, im_ = sp.nsimplify(sp.re(x)), sp.nsimplify(sp.im(x))
    if re_.is_Rational and im_.is_Rational:
        return ['%d/%d' % (re_.p, re_.q), '%d/%d' % (im_.p, im_.q)]
    return None


def sup(x, point):
    """Superposition / expression -> rational value of its Laplace transform at the point"""
    if hasattr(x, 'laplace'):
        x = x.laplace()
    return rat(x, point)


def build(T):
    cls, args = T
    if cls in ('Ser', 'Par'):
        return getattr(OP, cls)(*[build(a) for a in args])
    k = getattr(OP, cls)
    return k(*[None if a is None else a for a in args])


def tree_repr(net):
    cn = net.__class__.__name__
    if cn in ('Ser', 'Par'):
        return [cn, [tree_repr(a) for a in net.args]]
    return [cn, [str(getattr(a, 'sympy', a)) for a in net.args]]


def leaf_args_value(net, point):
    cn = net.__class__.__name__
    if cn in ('Ser', 'Par'):
        return [cn, [leaf_args_value(a, point) for a in net.args]]
    return [cn, [rat(sp.sympify(str(getattr(a, 'sympy', a))), point) if not isinstance(a, str) or True else a for a in net.args]]


def parse_netlist(text):
    out = []
    for line in text.split('\n'):
        line = line.split(';')[0].strip()
        if not line:
            continue
        out.append(line)
    return out


def four(f, point):
    r = {}
    for nm, g in f.items():
        try:
            r[nm] = g()
        except CaseTimeout:
            raise
        except Exception as e:
            r[nm] = {'error': type(e).__name__ + ': ' + str(e)[:120]}
    return r


def run_oneport(case):
    point = {'s': sp.Rational(case['s0'])}
    for k, v in case.get('subs', {}).items():
        point[k] = sp.Rational(v)
    want = case.get('want', ['alg', 'net', 'netlist', 'simp'])
    buf = io.StringIO()
    res = {}
    with contextlib.redirect_stdout(buf):
        net = build(case['tree'])
        if 'alg' in want:
            res['alg'] = four({'Z': lambda: rat(net.Z, point), 'Y': lambda: rat(net.Y, point),
                               'Voc': lambda: sup(net.Voc, point), 'Isc': lambda: sup(net.Isc, point)}, point)
        if 'ac' in case:
            # phasor-domain immittances at j omega, and the Laplace transforms of Voc / Isc at a second point
            # (the harness recovers the phasor a + j b of a cos(wt) - b sin(wt) from two exact values)
            from lcapy import j as jj
            w_ = sp.Rational(case['ac']['omega'])
            p1 = dict(point, s=sp.Rational(case['ac']['s1']))
            res['ac'] = four({'Z': lambda: crat(net.Z(jj * w_), point), 'Y': lambda: crat(net.Y(jj * w_), point),
                              'Voc2': lambda: sup(net.Voc, p1), 'Isc2': lambda: sup(net.Isc, p1)}, point)
        if 'netlist' in want:
            try:
                res['netlist'] = parse_netlist(net.netlist())
            except Exception as e:
                res['netlist'] = {'error': type(e).__name__ + ': ' + str(e)[:120]}
        if 'net' in want:
            def cct():
                return build(case['tree']).cct
            res['net'] = four({'Z': lambda: rat(cct().impedance(1, 0), point), 'Y': lambda: rat(cct().admittance(1, 0), point),
                               'Voc': lambda: sup(cct().Voc(1, 0), point), 'Isc': lambda: sup(cct().Isc(1, 0), point)}, point)
        if 'simp' in want:
            try:
                sn = build(case['tree']).simplify()
                res['simp'] = {'tree': leaf_args_value(sn, point), 'repr': str(sn)[:200]}
                res['simp']['alg'] = four({'Z': lambda: rat(sn.Z, point), 'Y': lambda: rat(sn.Y, point),
                                           'Voc': lambda: sup(sn.Voc, point), 'Isc': lambda: sup(sn.Isc, point)}, point)
            except CaseTimeout:
                raise
            except Exception as e:
                res['simp'] = {'error': type(e).__name__ + ': ' + str(e)[:120]}
    return res


TWO_OF_ONE = {'Series', 'SeriesAlt', 'SeriesPair', 'Shunt', 'LSection', 'LSectionAlt', 'TSection', 'PiSection', 'CSection',
              'HSection', 'BoxSection', 'Ladder', 'LadderAlt', 'TwinTSection', 'BridgedTSection'}


def build2(P):
    cls, args = P
    k = getattr(TP, cls)
    if cls in TWO_OF_ONE:
        return k(*[build(a) for a in args])
    if cls in ('Transformer', 'IdealTransformer', 'IdealGyrator'):
        return k(*args)
    return k(*[build2(a) for a in args])


def mat(m, point):
    return [rat(m[0, 0], point), rat(m[0, 1], point), rat(m[1, 0], point), rat(m[1, 1], point)]


def run_twoport(case):
    point = {'s': sp.Rational(case['s0'])}
    want = case.get('want', ['alg', 'net', 'netlist'])
    res = {}
    buf = io.StringIO()
    with contextlib.redirect_stdout(buf):
        tp = build2(case['tp'])
        res['cls'] = type(tp).__name__
        if 'alg' in want:
            res['alg'] = {}
            for kd in case.get('kinds', 'ABZYHG'):
                try:
                    res['alg'][kd] = mat(getattr(tp, kd + 'params'), point)
                except CaseTimeout:
                    raise
                except Exception as e:
                    res['alg'][kd] = {'error': type(e).__name__ + ': ' + str(e)[:120]}
            try:
                res['alg']['src'] = [rat(tp.V2b, point), rat(tp.I2b, point)]
            except Exception as e:
                res['alg']['src'] = {'error': type(e).__name__}
        nl = None
        if 'netlist' in want or 'net' in want:
            try:
                nl = tp.netlist()
                res['netlist'] = parse_netlist(nl)
            except CaseTimeout:
                raise
            except Exception as e:
                res['netlist'] = {'error': type(e).__name__ + ': ' + str(e)[:120]}
        if 'net' in want and nl is not None:
            res['net'] = {}
            for kd in case.get('netkinds', 'ABZYHG'):
                try:
                    c = Circuit()
                    for line in nl.split('\n'):
                        c.add(line)
                    res['net'][kd] = mat(getattr(c, kd + 'params')(1, 0, 3, 2), point)
                except CaseTimeout:
                    raise
                except Exception as e:
                    res['net'][kd] = {'error': type(e).__name__ + ': ' + str(e)[:120]}
    return res


def run_ctor(case):
    point = {'s': sp.Rational(case['s0'])}
    from lcapy import LaplaceDomainImpedance, LaplaceDomainAdmittance
    k = getattr(TP, case['kind'] + 'Matrix')
    args = []
    for a, ty in zip(case['args'], case['types']):
        v = sp.Rational(a)
        args.append(LaplaceDomainImpedance(v) if ty == 'Z' else LaplaceDomainAdmittance(v) if ty == 'Y' else v)
    m = getattr(k, case['meth'])(*args)
    return {'mat': mat(m, point), 'cls': type(m).__name__}


SRC_PROPS = ['V2b', 'I2b', 'V1a', 'I1a', 'I1g', 'V2g', 'V1h', 'I2h', 'I1y', 'I2y', 'V1z', 'V2z']


def src_values(tp, point):
    out = {}
    for q in SRC_PROPS:
        try:
            out[q] = rat(getattr(tp, q), point)
        except CaseTimeout:
            raise
        except Exception as e:
            out[q] = {'error': type(e).__name__ + ': ' + str(e)[:80]}
    return out


def run_twoport_src(case):
    """two-port built from one-ports WITH sources: the source vectors of the algebra, and the same
    quantities measured on the emitted netlist (ports 1-0 and 3-2 open / shorted as the definitions say)"""
    point = {'s': sp.Rational(case['s0'])}
    res = {}
    buf = io.StringIO()
    with contextlib.redirect_stdout(buf):
        tp = build2(case['tp'])
        res['alg'] = src_values(tp, point)
        try:
            res['alg']['B'] = mat(tp.Bparams, point)
        except Exception as e:
            res['alg']['B'] = {'error': type(e).__name__}
        if 'net' in case.get('want', ['net']):
            nl = tp.netlist()

            def mk(extra=()):
                c = Circuit()
                for line in nl.split('\n'):
                    c.add(line)
                for line in extra:
                    c.add(line)
                return c
            meas = {'V1z': lambda: mk().Voc(1, 0), 'V2z': lambda: mk().Voc(3, 2),
                    'I1y': lambda: -mk(['W 3 2']).Isc(1, 0), 'I2y': lambda: -mk(['W 1 0']).Isc(3, 2),
                    'V1h': lambda: mk(['W 3 2']).Voc(1, 0), 'I2h': lambda: -mk().Isc(3, 2),
                    'I1g': lambda: -mk().Isc(1, 0), 'V2g': lambda: mk(['W 1 0']).Voc(3, 2)}
            res['net'] = {}
            for q, f in meas.items():
                if q not in case.get('netq', list(meas)):
                    continue
                try:
                    res['net'][q] = sup(f(), point)
                except CaseTimeout:
                    raise
                except Exception as e:
                    res['net'][q] = {'error': type(e).__name__ + ': ' + str(e)[:80]}
            # NetlistOpsMixin.twoport(model=X) on the emitted netlist: matrix and own source pair of the returned model
            own = {'B': ('V2b', 'I2b'), 'A': ('V1a', 'I1a'), 'G': ('I1g', 'V2g'), 'H': ('V1h', 'I2h'), 'Y': ('I1y', 'I2y'), 'Z': ('V1z', 'V2z')}
            res['tpmodel'] = {}
            for X in case.get('tpmodels', ''):
                try:
                    mdl = mk().twoport(1, 0, 3, 2, model=X)
                    res['tpmodel'][X] = {'cls': type(mdl).__name__, 'M': mat(getattr(mdl, X + 'params'), point),
                                         'src': [rat(getattr(mdl, own[X][0]), point), rat(getattr(mdl, own[X][1]), point)]}
                except CaseTimeout:
                    raise
                except Exception as e:
                    res['tpmodel'][X] = {'error': type(e).__name__ + ': ' + str(e)[:80]}
    return res


def run_srcunit(case):
    """a two-port model class built from a numeric matrix and two sources: every source property it offers"""
    point = {'s': sp.Rational(case['s0'])}
    X = case['kind']
    m = [sp.Rational(x) for x in case['m']]
    M = getattr(TP, X + 'Matrix')(((m[0], m[1]), (m[2], m[3])))
    own = {'B': ('V2b', 'I2b'), 'A': ('V1a', 'I1a'), 'G': ('I1g', 'V2g'), 'H': ('V1h', 'I2h'), 'Y': ('I1y', 'I2y'), 'Z': ('V1z', 'V2z')}[X]
    kw = {own[0]: sp.Rational(case['src'][0]), own[1]: sp.Rational(case['src'][1])}
    tp = getattr(TP, 'TwoPort%sModel' % X)(M, **kw)
    return {'alg': src_values(tp, point), 'cls': type(tp).__name__}


def run(case):
    m = case.get('mode', 'oneport')
    if m == 'twoport_src':
        return run_twoport_src(case)
    if m == 'srcunit':
        return run_srcunit(case)
    if m == 'oneport':
        return run_oneport(case)
    if m == 'twoport':
        return run_twoport(case)
    if m == 'ctor':
        return run_ctor(case)
    raise ValueError('unknown mode')


def main():
    signal.signal(signal.SIGALRM, _alarm)
    cases = json.load(sys.stdin)
    out = []
    for c in cases:
        try:
            TIMED_OUT[0] = False
            signal.alarm(int(c.get('timeout', 60)))
            try:
                r_ = run(c)
            finally:
                signal.alarm(0)
            if TIMED_OUT[0]:
                raise CaseTimeout()
            out.append(r_)
        except CaseTimeout:
            signal.alarm(0)
            out.append({'error': 'timeout: case exceeded its time budget'})
        except Exception as e:
            import traceback
            out.append({'error': type(e).__name__ + ': ' + str(e)[:300], 'tb': traceback.format_exc()[-500:]})
    json.dump(out, sys.stdout)


main()
