"""Exact arithmetic helpers for the C10 harness: Gaussian rationals, dense
polynomials (lowest power first), the algebraic Laplace transform of a parsed
exp-poly normal form, Coq literals.  No floats."""
from fractions import Fraction


class G:
    """Gaussian rational re + im*i with Fraction parts"""
    __slots__ = ('re', 'im')

    def __init__(self, re=0, im=0):
        self.re = Fraction(re)
        self.im = Fraction(im)

    @staticmethod
    def of(x):
        if isinstance(x, G):
            return x
        if isinstance(x, (list, tuple)):
            return G(Fraction(x[0]), Fraction(x[1]))
        return G(Fraction(x), 0)

    def __add__(self, o):
        o = G.of(o)
        return G(self.re + o.re, self.im + o.im)
    __radd__ = __add__

    def __neg__(self):
        return G(-self.re, -self.im)

    def __sub__(self, o):
        return self + (-G.of(o))

    def __rsub__(self, o):
        return G.of(o) - self

    def __mul__(self, o):
        o = G.of(o)
        return G(self.re * o.re - self.im * o.im, self.re * o.im + self.im * o.re)
    __rmul__ = __mul__

    def inv(self):
        n = self.re * self.re + self.im * self.im
        if n == 0:
            raise ZeroDivisionError('G')
        return G(self.re / n, -self.im / n)

    def __truediv__(self, o):
        return self * G.of(o).inv()

    def __rtruediv__(self, o):
        return G.of(o) * self.inv()

    def __pow__(self, n):
        r = G(1)
        for _ in range(n):
            r = r * self
        return r

    def conj(self):
        return G(self.re, -self.im)

    def __eq__(self, o):
        o = G.of(o)
        return self.re == o.re and self.im == o.im

    def __hash__(self):
        return hash((self.re, self.im))

    def is_zero(self):
        return self.re == 0 and self.im == 0

    def is_real(self):
        return self.im == 0

    def js(self):
        return [fstr(self.re), fstr(self.im)]

    def __repr__(self):
        return 'G(%s,%s)' % (self.re, self.im)


def fstr(x):
    x = Fraction(x)
    return '%d/%d' % (x.numerator, x.denominator)


def padd(p, q):
    n = max(len(p), len(q))
    return [(p[i] if i < len(p) else G(0)) + (q[i] if i < len(q) else G(0)) for i in range(n)]


def pmul(p, q):
    if not p or not q:
        return []
    out = [G(0)] * (len(p) + len(q) - 1)
    for i, a in enumerate(p):
        for k, b in enumerate(q):
            out[i + k] = out[i + k] + a * b
    return out


def pscale(c, p):
    return [G.of(c) * a for a in p]


def peval(p, x):
    r = G(0)
    for a in reversed(p):
        r = r * x + a
    return r


def pnorm(p):
    p = list(p)
    while p and p[-1].is_zero():
        p.pop()
    return p


def from_roots(roots, lead=1):
    """roots: [(G, mult)] -> lead * prod (x - p)^m, lowest first"""
    p = [G.of(lead)]
    for r, m in roots:
        for _ in range(m):
            p = pmul(p, [-G.of(r), G(1)])
    return p


def laplace_normal_form(obs, T, s0):
    """algebraic L of the parsed normal form restricted to delay T, at the point s0"""
    v = G(0)
    for (Tt, n, p, c, step) in obs['reg']:
        if Fraction(Tt) == T:
            v = v + G.of(c) / ((s0 - G.of(p)) ** (n + 1))
    for (Tt, k, c) in obs['sing']:
        if Fraction(Tt) == T:
            v = v + G.of(c) * (s0 ** k)
    return v


# ---- Coq literals ------------------------------------------------------------
def qc(x):
    x = Fraction(x)
    return '(qc (%d) %d)' % (x.numerator, x.denominator)


def qi(g):
    g = G.of(g)
    return '(qi (%d) %d (%d) %d)' % (g.re.numerator, g.re.denominator, g.im.numerator, g.im.denominator)


def qilist(l):
    return '[' + '; '.join(qi(x) for x in l) + ']'


def isqrt_fraction(x):
    """exact square root of a non-negative Fraction, or None"""
    from math import isqrt
    x = Fraction(x)
    if x < 0:
        return None
    a, b = isqrt(x.numerator), isqrt(x.denominator)
    if a * a == x.numerator and b * b == x.denominator:
        return Fraction(a, b)
    return None


def gsqrt_rational(x):
    """principal square root of a RATIONAL number inside Q(i), or None"""
    x = Fraction(x)
    if x >= 0:
        r = isqrt_fraction(x)
        return None if r is None else G(r)
    r = isqrt_fraction(-x)
    return None if r is None else G(0, r)
