"""Fail-closed `ast` translator for the literal closed forms of
  * lcapy/ztransform.py : ZTransformer.term   (table entries + the four rule statements)
  * lcapy/dft.py        : DFTTransformer.termXq (constant and unit-impulse entries)
into Coq definitions over the abstract field (LT.FieldSec).

Recognised subset (anything else raises Untranslatable with the source line):
  expressions   + - * / unary-  ** (base a name, exponent an integer expression)
                integer constants, the names listed per entry,
                sym.sin(e) / sym.cos(e) with e in {cc, bb, bb - cc}  -> opaque field variables
  statements    `result = <expr>` inside the if/elif chain of `term`, identified by the
                exact (ast.unparse) text of the branch test;
                `X = self.term(expr, n, z)` and the rule statements, compared textually.
The translator never guesses: a branch whose test text changed, a missing
assignment or an unknown node aborts the translation."""
import ast
import hashlib
import os


class Untranslatable(Exception):
    pass


def fail(node, msg):
    raise Untranslatable('%s (line %s): %s' % (msg, getattr(node, 'lineno', '?'), ast.unparse(node)[:120] if node is not None else ''))


TRIG = {('sin', 'cc'): 'sin_c', ('cos', 'cc'): 'cos_c', ('sin', 'bb'): 'sin_b', ('cos', 'bb'): 'cos_b',
        ('sin', 'bb - cc'): 'sin_bmc', ('cos', 'bb - cc'): 'cos_bmc'}


class ExprTr:
    """expression translator; fvars: names of field variables, nvars: names of nat variables"""

    def __init__(self, fvars, nvars, alias=None, zexp=False, atoms=None, intfold=True):
        self.intfold = intfold     # fold all-integer sub-expressions into one (ofnat ...)
        self.atoms = atoms or {}   # source text of opaque sub-expressions -> field variable
        self.fvars = set(fvars)
        self.nvars = set(nvars)
        self.alias = alias or {}
        self.used = set()
        self.zexp = zexp          # exponents are integers (may be negative): use zpw

    def zint(self, e):
        """integer-valued expression -> Coq Z term"""
        if isinstance(e, ast.Constant) and isinstance(e.value, int):
            return '(%d)' % e.value
        if isinstance(e, ast.Name) and e.id in self.nvars:
            self.used.add(e.id)
            return '(Z.of_nat %s)' % e.id
        if isinstance(e, ast.BinOp) and isinstance(e.op, (ast.Add, ast.Sub, ast.Mult)):
            op = {ast.Add: '+', ast.Sub: '-', ast.Mult: '*'}[type(e.op)]
            return '(%s %s %s)' % (self.zint(e.left), op, self.zint(e.right))
        fail(e, 'unsupported integer expression')

    def nat(self, e):
        """integer-valued expression -> (coq nat term, python lambda source)"""
        if isinstance(e, ast.Constant) and isinstance(e.value, int) and e.value >= 0:
            return '%d' % e.value
        if isinstance(e, ast.Name) and e.id in self.nvars:
            self.used.add(e.id)
            return e.id
        if isinstance(e, ast.BinOp) and isinstance(e.op, (ast.Add, ast.Sub, ast.Mult)):
            op = {ast.Add: '+', ast.Sub: '-', ast.Mult: '*'}[type(e.op)]
            return '(%s %s %s)%%nat' % (self.nat(e.left), op, self.nat(e.right))
        fail(e, 'unsupported integer expression')

    def fld(self, e):
        if ast.unparse(e) in self.atoms:
            self.used.add(self.atoms[ast.unparse(e)])
            return self.atoms[ast.unparse(e)]
        if isinstance(e, ast.Constant) and isinstance(e.value, int):
            v = e.value
            if v == 0:
                return '0'
            s = '1' if abs(v) == 1 else '(' + ' + '.join(['1'] * abs(v)) + ')'
            return s if v > 0 else '(- %s)' % s
        if isinstance(e, ast.Name):
            nm = self.alias.get(e.id, e.id)
            if nm in self.fvars:
                self.used.add(nm)
                return nm
            if nm in self.nvars:
                self.used.add(nm)
                return '(ofnat %s)' % nm
            fail(e, 'unknown name')
        if isinstance(e, ast.UnaryOp) and isinstance(e.op, ast.USub):
            return '(- %s)' % self.fld(e.operand)
        if isinstance(e, ast.BinOp):
            if isinstance(e.op, ast.Pow):
                base = self.fld(e.left)
                if isinstance(e.right, ast.UnaryOp):
                    fail(e, 'negative exponent')
                if self.zexp:
                    return '(zpw %s %s%%Z)' % (base, self.zint(e.right))
                return '(pw %s %s)' % (base, self.nat(e.right))
            if isinstance(e.op, (ast.Add, ast.Sub, ast.Mult, ast.Div)):
                # an all-integer sub-expression used as a field element
                if self.is_int(e):
                    return '(ofnat %s)' % self.nat(e)
                op = {ast.Add: '+', ast.Sub: '-', ast.Mult: '*', ast.Div: '/'}[type(e.op)]
                return '(%s %s %s)' % (self.fld(e.left), op, self.fld(e.right))
        if isinstance(e, ast.Call) and isinstance(e.func, ast.Attribute) and isinstance(e.func.value, ast.Name) \
                and e.func.value.id == 'sym' and e.func.attr == 'factorial' and len(e.args) == 1:
            return '(ofnat (fact %s))' % self.nat(e.args[0])
        if isinstance(e, ast.Call) and isinstance(e.func, ast.Attribute) and isinstance(e.func.value, ast.Name) \
                and e.func.value.id == 'sym' and e.func.attr in ('sin', 'cos') and len(e.args) == 1:
            key = (e.func.attr, ast.unparse(e.args[0]))
            if key in TRIG:
                self.used.add(TRIG[key])
                return TRIG[key]
        fail(e, 'unsupported expression')

    def is_int(self, e):
        if not self.intfold:
            return False
        if isinstance(e, ast.Constant):
            return False      # lone constants are field constants
        if isinstance(e, ast.Name):
            return e.id in self.nvars
        if isinstance(e, ast.BinOp) and isinstance(e.op, (ast.Add, ast.Sub, ast.Mult)):
            return (self.is_int(e.left) or isinstance(e.left, ast.Constant)) and \
                   (self.is_int(e.right) or isinstance(e.right, ast.Constant)) and \
                   (self.is_int(e.left) or self.is_int(e.right))
        return False


def find_class_method(tree, cls, meth):
    for node in tree.body:
        if isinstance(node, ast.ClassDef) and node.name == cls:
            for f in node.body:
                if isinstance(f, ast.FunctionDef) and f.name == meth:
                    return f
    raise Untranslatable('%s.%s not found' % (cls, meth))


def chain(ifnode):
    """flatten an if/elif/... chain into [(test, body)], else-body"""
    out = []
    cur = ifnode
    while True:
        out.append((cur.test, cur.body))
        if len(cur.orelse) == 1 and isinstance(cur.orelse[0], ast.If):
            cur = cur.orelse[0]
        else:
            return out, cur.orelse


def assigns(body, name):
    """all `name = value` assignments directly in body (not nested), in order"""
    return [s for s in body if isinstance(s, ast.Assign) and len(s.targets) == 1 and
            isinstance(s.targets[0], ast.Name) and s.targets[0].id == name]


def nested_assigns(body, name):
    out = []
    for s in body:
        for n in ast.walk(s):
            if isinstance(n, ast.Assign) and len(n.targets) == 1 and isinstance(n.targets[0], ast.Name) and n.targets[0].id == name:
                out.append(n)
    return out


# tests of the dispatch chain of ZTransformer.term, in source order
ZT_TESTS = [
    ('impulse', 'expr.is_Function and expr.func == UnitImpulse'),
    ('one', 'expr == 1'),
    ('step', 'expr.is_Function and expr.func in (sym.Heaviside, UnitStep, sym.sign)'),
    ('sin', 'expr.is_Function and expr.func == sym.sin and args[0].as_poly(n).is_linear'),
    ('cos', 'expr.is_Function and expr.func == sym.cos and args[0].as_poly(n).is_linear'),
    ('rule_n', "is_multiplied_with(expr, n, 'n', xn_fac)"),
    ('rule_geo', "is_multiplied_with(expr, n, 'a**n', xn_fac)"),
    ('rule_exp', "is_multiplied_with(expr, n, 'exp(n)', xn_fac)"),
    ('rule_step', "is_multiplied_with(expr, n, 'UnitStep', xn_fac)"),
]
# rule statements, compared textually (model H implements exactly these)
ZT_RULES = {
    'rule_n': ['expr = expr / xn_fac[0]', 'X = self.term(expr, n, z)', 'result = sym.simplify(-z * sym.diff(X, z))'],
    'rule_geo': ['expr /= xn_fac[0]', 'ref = xn_fac[0].args', 'lam = ref[0]', 'bb = ref[1].coeff(n, 1)', 'cc = ref[1].coeff(n, 0)',
                 'X = self.term(expr, n, z)', 'result = lam ** cc * sym.simplify(X.subs(z, z / lam ** bb))'],
    'rule_exp': ['expr /= xn_fac[0]', 'ref = xn_fac[0].args', 'bb = ref[0].coeff(n, 1)', 'cc = ref[0].coeff(n, 0)',
                 'X = self.term(expr, n, z)', 'result = sym.exp(cc) * sym.simplify(X.subs(z, z / sym.exp(bb)))'],
    'rule_step': ['expr /= xn_fac[0]', 'delay = n - xn_fac[0].args[0]', 'X = self.term(expr, n, z)', 'sum_X = 0',
                  'for ii in range(delay):\n    sum_X -= expr.subs(n, ii) * invz ** ii', 'result = X + sum_X'],
}


class ZTable:
    def __init__(self, repo):
        self.path = os.path.join(repo, 'lcapy', 'ztransform.py')
        src = open(self.path).read()
        self.sha = hashlib.sha256(src.encode()).hexdigest()
        tree = ast.parse(src)
        fn = find_class_method(tree, 'ZTransformer', 'term')
        self.entries = {}      # name -> (params, coq body, lineno)
        # invz = z ** -1
        inv = assigns(fn.body, 'invz')
        if len(inv) != 1 or ast.unparse(inv[0].value) != 'z ** (-1)':
            fail(inv[0] if inv else fn, 'expected invz = z ** -1')
        ifs = [s for s in fn.body if isinstance(s, ast.If) and ast.unparse(s.test) == ZT_TESTS[0][1]]
        if len(ifs) != 1:
            fail(fn, 'dispatch chain of ZTransformer.term not found')
        ch, orelse = chain(ifs[0])
        if orelse:
            fail(ifs[0], 'unexpected else branch')
        if [ast.unparse(t) for t, _ in ch] != [t for _, t in ZT_TESTS]:
            got = [ast.unparse(t) for t, _ in ch]
            for g, (nm, w) in zip(got, ZT_TESTS):
                if g != w:
                    raise Untranslatable('dispatch test of branch %s changed: %s' % (nm, g))
            raise Untranslatable('dispatch chain has %d branches, expected %d' % (len(got), len(ZT_TESTS)))
        bodies = dict((nm, body) for (nm, _), (_, body) in zip(ZT_TESTS, ch))
        # the fallback must only trigger when no rule fired
        fb = [s for s in fn.body if isinstance(s, ast.If) and ast.unparse(s.test) == 'result is None']
        if len(fb) != 1:
            fail(fn, 'fallback `if result is None` not found')
        ret = fn.body[-1]
        if not isinstance(ret, ast.Return) or ast.unparse(ret.value) != 'const * result':
            fail(ret, 'expected `return const * result`')

        # --- table entries --------------------------------------------------
        tr = lambda fv, nv: ExprTr(fv, nv)
        # impulse: result = 1 (args[0] is n) ; delay = n - args[0] ; result = invz ** delay
        b = bodies['impulse']
        want = ['if args[0] is n:\n    result = 1', 'delay = n - args[0]', 'if not delay.has(n):\n    result = invz ** delay']
        if [ast.unparse(s) for s in b] != want:
            fail(b[0], 'impulse branch changed')
        t = tr(['invz'], ['delay'])
        self.entries['zt_impulse'] = (['(invz : K)', '(delay : nat)'], t.fld(b[2].body[0].value), b[2].lineno)
        # one
        b = bodies['one']
        if len(b) != 1 or not assigns(b, 'result'):
            fail(b[0], 'branch `expr == 1` changed')
        t = tr(['invz'], [])
        self.entries['zt_one'] = (['(invz : K)'], t.fld(b[0].value), b[0].lineno)
        # step
        b = bodies['step']
        if len(b) != 1 or not isinstance(b[0], ast.If) or ast.unparse(b[0].test) != 'args[0] is n':
            fail(b[0], 'step branch changed')
        s0 = assigns(b[0].body, 'result')
        if len(s0) != 1 or len(b[0].body) != 1:
            fail(b[0], 'step branch changed')
        t = tr(['invz'], [])
        self.entries['zt_step0'] = (['(invz : K)'], t.fld(s0[0].value), s0[0].lineno)
        el = b[0].orelse
        want = ['delay = n - args[0]', 'if not delay.has(n):\n    result = invz ** delay * 1 / (1 - invz)']
        if [ast.unparse(s) for s in el][0] != want[0] or len(el) != 2 or not isinstance(el[1], ast.If) \
                or ast.unparse(el[1].test) != 'not delay.has(n)' or len(el[1].body) != 1:
            fail(el[0], 'delayed step branch changed')
        t = tr(['invz'], ['delay'])
        self.entries['zt_step'] = (['(invz : K)', '(delay : nat)'], t.fld(el[1].body[0].value), el[1].lineno)
        # sin / cos
        for nm in ('sin', 'cos'):
            b = bodies[nm]
            heads = [ast.unparse(s) for s in b]
            if len(b) != 4 or heads[0] != 'bb = args[0].coeff(n, 1)' or heads[1] != 'cc = args[0].coeff(n, 0)' \
                    or heads[3] != 'result = sym.simplify(result)':
                fail(b[0], '%s branch changed' % nm)
            t = tr(['invz'] + sorted(set(TRIG.values())), [])
            body = t.fld(b[2].value)
            params = ['(invz : K)'] + ['(%s : K)' % v for v in sorted(t.used - {'invz'})]
            self.entries['zt_' + nm] = (params, body, b[2].lineno)
            setattr(self, nm + '_vars', sorted(t.used - {'invz'}))
        # rules
        for nm, want in ZT_RULES.items():
            got = [ast.unparse(s) for s in bodies[nm]]
            if got != want:
                for g, w in zip(got + [''] * len(want), want):
                    if g != w:
                        raise Untranslatable('rule %s changed (line %d): %r, expected %r' % (nm, bodies[nm][0].lineno, g, w))
                raise Untranslatable('rule %s has extra statements' % nm)

    def coq(self):
        out = ['(* GENERATED from %s (sha256 %s) by tools/tr_ztable.py.  Do not edit. *)' % (self.path, self.sha),
               'Require Import LT.FieldSec LT.SeqFilter LT.SeqDFT LT.SeqZ.', 'Local Open Scope F_scope.',
               'Section ZTableGen.', 'Variable K : fld.', 'Notation pw := (@pw K). Notation ofnat := (@ofnat K).']
        for nm, (params, body, line) in self.entries.items():
            out.append('(* ztransform.py line %d *)' % line)
            out.append('Definition %s %s : K := %s.' % (nm, ' '.join(params), body))
        out.append('End ZTableGen.')
        for nm in self.entries:
            out.append('Arguments %s {K}.' % nm)
        return '\n'.join(out) + '\n'


class DFTTable:
    """constant and unit-impulse entries of DFTTransformer.termXq"""

    def __init__(self, repo):
        self.path = os.path.join(repo, 'lcapy', 'dft.py')
        src = open(self.path).read()
        self.sha = hashlib.sha256(src.encode()).hexdigest()
        tree = ast.parse(src)
        fn = find_class_method(tree, 'DFTTransformer', 'termXq')
        if [a.arg for a in fn.args.args] != ['self', 'expr', 'n', 'k', 'q', 'lower', 'upper']:
            fail(fn, 'signature of termXq changed')
        ifs = [s for s in fn.body if isinstance(s, ast.If) and ast.unparse(s.test) == 'not expr.has(n)']
        if len(ifs) != 1:
            fail(fn, 'constant branch of termXq not found')
        ch, _ = chain(ifs[0])
        self.entries = {}
        b = ch[0][1]
        rq = assigns(b, 'result_q')
        r1 = assigns(b, 'result_1')
        res = assigns(b, 'result')
        if len(rq) != 1 or len(r1) != 1 or len(res) != 1 or ast.unparse(res[0].value) != 'QkTransform(result_q, 0, result_1, result_q)':
            fail(b[0], 'constant branch changed')
        t = ExprTr(['const', 'expr', 'q'], ['lower', 'upper'])
        self.entries['dft_const_q'] = (['(const expr q : K)', '(lower upper : nat)'], t.fld(rq[0].value), rq[0].lineno)
        t = ExprTr(['const', 'expr', 'q'], ['lower', 'upper'])
        self.entries['dft_const_1'] = (['(const expr : K)', '(lower upper : nat)'], t.fld(r1[0].value), r1[0].lineno)
        # delta
        if len(ch) < 2 or not ast.unparse(ch[1][0]).startswith('expr.is_Function and expr.func == UnitImpulse'):
            fail(ch[1][0] if len(ch) > 1 else fn, 'unit impulse branch not found')
        b = ch[1][1]
        rqs = [a for a in nested_assigns(b, 'result_q')]
        if len(rqs) != 1:
            fail(b[0], 'unit impulse branch changed')
        t = ExprTr(['const', 'q'], ['nn0'])
        self.entries['dft_delta_q'] = (['(const q : K)', '(nn0 : nat)'], t.fld(rqs[0].value), rqs[0].lineno)
        # --- n**p: closed forms (q^lower A_l - q^(upper+1) B_u) / (1 - q)^(p+1) for p = 1, 2, 3 ----------
        npb = [s_ for s_ in fn.body if isinstance(s_, ast.If) and ast.unparse(s_.test) == 'expr == n or (expr.is_Pow and args[1].is_integer and args[1].is_positive and (args[0] == n))']
        if len(npb) != 1:
            fail(fn, 'n**p branch of termXq not found')
        body = npb[0].body
        pch = [s_ for s_ in body if isinstance(s_, ast.If) and ast.unparse(s_.test) == 'p == 1']
        if len(pch) != 1:
            fail(body[0], 'n**p branch: `if p == 1` chain not found')
        chn, _ = chain(pch[0])
        if [ast.unparse(t_) for t_, _ in chn] != ['p == 1', 'p == 2', 'p == 3']:
            fail(pch[0], 'n**p branch: chain of hand-made cases changed')
        for (t_, bd), pv in zip(chn, (1, 2, 3)):
            al, bu = assigns(bd, 'A_l'), assigns(bd, 'B_u')
            if len(al) != 1 or len(bu) != 1 or len(bd) != 2:
                fail(bd[0], 'n**p branch, p = %d: expected A_l and B_u' % pv)
            tr_ = ExprTr(['q'], ['lower', 'upper'], intfold=False)
            self.entries['dft_np%d_A' % pv] = (['(q : K)', '(lower : nat)'], tr_.fld(al[0].value), al[0].lineno)
            tr_ = ExprTr(['q'], ['lower', 'upper'], intfold=False)
            self.entries['dft_np%d_B' % pv] = (['(q : K)', '(upper : nat)'], tr_.fld(bu[0].value), bu[0].lineno)
        rqs = assigns(body, 'result_q')
        if len(rqs) != 2 or ast.unparse(rqs[0].value) != '(q ** lower - q ** (upper + 1)) / (1 - q)':
            fail(body[0], 'n**p branch: assignments of result_q changed')
        tr_ = ExprTr(['const', 'q', 'A_l', 'B_u'], ['lower', 'upper', 'p'], intfold=False)
        self.entries['dft_np_q'] = (['(const q A_l B_u : K)', '(lower upper p : nat)'], tr_.fld(rqs[1].value), rqs[1].lineno)
        if [ast.unparse(s_) for s_ in body[-2:]] != ['result = QkTransform(result_q, 0, result_1, result_q)', 'return result']:
            fail(body[-1], 'n**p branch: construction of the result changed')
        # --- "* n" (q d/dq) and "* a**n" (q -> q lam**bb) rules, compared textually ---------------------
        RULES = {
            "is_multiplied_with(expr, n, 'n', xn_fac)": ['expr = expr / xn_fac[-1]', 'result = self.termXq(expr, n, k, q, lower, upper)',
                                                         'result.Xq = q * sym.diff(result.Xq, q)'],
            "is_multiplied_with(expr, n, 'a**n', xn_fac)": ['expr /= xn_fac[-1]', 'expr = sym.simplify(expr)', 'ref = xn_fac[-1].args', 'lam = ref[0]',
                                                            'bb = ref[1].coeff(n, 1)', 'cc = ref[1].coeff(n, 0)',
                                                            'result = self.termXq(expr, n, k, q, lower, upper)', 'result.subs(q, q * lam ** bb)',
                                                            'k0 = sym.arg(lam ** bb) * self.N / 2 / pi',
                                                            'if abs(lam ** bb) == 1 and k0.is_integer and result.has_special:\n    result.shift_k(k0)\nelse:\n    result.rm_cases()',
                                                            'result.multiply(const * lam ** cc)', 'return result'],
        }
        for test, want in RULES.items():
            br = [n_ for n_ in ast.walk(fn) if isinstance(n_, ast.If) and ast.unparse(n_.test) == test]
            if len(br) != 1:
                fail(fn, 'rule branch `%s` of termXq not found' % test)
            got = [ast.unparse(s_) for s_ in br[0].body][:len(want)]
            if got != want:
                for g_, w_ in zip(got + [''] * len(want), want):
                    if g_ != w_:
                        raise Untranslatable('rule branch `%s` changed (line %d): %r, expected %r' % (test, br[0].lineno, g_, w_))
        # --- sinusoid branches: which exponential half goes to which bin -------------
        allifs = [n_ for n_ in ast.walk(fn) if isinstance(n_, ast.If)]
        self.tones = {}

        def sign_of_exp(call, var):
            """`rq.subs(q, q * sym.exp(sym.I * var))` -> True, with -sym.I -> False"""
            txt = ast.unparse(call)
            for sg, pat in ((True, 'q * sym.exp(sym.I * %s)' % var), (False, 'q * sym.exp(-sym.I * %s)' % var)):
                if txt.endswith('.subs(q, %s)' % pat):
                    return sg
            fail(call, 'unexpected substitution of q')

        ATOMS = {'sym.exp(sym.I * cc)': 'E', 'sym.exp(-sym.I * cc)': 'Ei', 'sym.I': 'J'}
        for nm in ('sin', 'cos'):
            br = [n_ for n_ in allifs if ast.unparse(n_.test) == "is_multiplied_with(expr, n, '%s(n)', xn_fac)" % nm]
            if len(br) != 1:
                fail(fn, '%s branch of termXq not found' % nm)
            body = br[0].body
            txt = [ast.unparse(s_) for s_ in body]
            need = ['bb = ref[0].coeff(n, 1)', 'cc = ref[0].coeff(n, 0)', 'result = self.termXq(expr, n, k, q, lower, upper)',
                    'rq1 = deepcopy(result)', 'rq2 = deepcopy(result)', 'k0 = bb * self.N / 2 / pi', 'rq1.add(rq2)', 'return rq1']
            for t_ in need:
                if txt.count(t_) != 1:
                    fail(body[0], '%s branch: expected exactly one `%s`' % (nm, t_))
            subs_ = [s_ for s_ in body if isinstance(s_, ast.Expr) and '.subs(q,' in ast.unparse(s_)]
            if len(subs_) != 2 or not ast.unparse(subs_[0]).startswith('rq1.') or not ast.unparse(subs_[1]).startswith('rq2.'):
                fail(body[0], '%s branch: substitutions of q changed' % nm)
            s1, s2 = sign_of_exp(subs_[0], 'bb'), sign_of_exp(subs_[1], 'bb')
            ifs_ = [s_ for s_ in body if isinstance(s_, ast.If)]
            ifs_ = [s_ for s_ in ifs_ if ast.unparse(s_.test) == 'k0.is_integer and result.has_special']
            if len(ifs_) != 1 or [ast.unparse(x) for x in ifs_[0].orelse] != ['rq1.rm_cases()', 'rq2.rm_cases()']:
                fail(body[0], '%s branch: special-case handling changed' % nm)
            sh = [ast.unparse(x) for x in ifs_[0].body]
            SH = {'rq1.shift_k(k0)': (1, True), 'rq1.shift_k(-k0)': (1, False), 'rq2.shift_k(k0)': (2, True), 'rq2.shift_k(-k0)': (2, False)}
            if len(sh) != 2 or any(x not in SH for x in sh) or sorted(SH[x][0] for x in sh) != [1, 2]:
                fail(ifs_[0], '%s branch: shift_k calls changed' % nm)
            t = dict((SH[x][0], SH[x][1]) for x in sh)
            muls = [s_ for s_ in body if isinstance(s_, ast.Expr) and '.multiply(' in ast.unparse(s_)]
            if len(muls) != 2 or not ast.unparse(muls[0]).startswith('rq1.multiply(') or not ast.unparse(muls[1]).startswith('rq2.multiply('):
                fail(body[0], '%s branch: multiply calls changed' % nm)
            for j, m_ in enumerate(muls, 1):
                tr_ = ExprTr(['const'], [], atoms=ATOMS)
                self.entries['dft_%s_c%d' % (nm, j)] = (['(const E Ei J : K)'], tr_.fld(m_.value.args[0]), m_.lineno)
            self.tones[nm] = {'s1': s1, 's2': s2, 't1': t[1], 't2': t[2], 'line': ifs_[0].lineno}
        # complex exponential exp(j (a n + b)) with |.| = 1
        br = [n_ for n_ in allifs if ast.unparse(n_.test) ==
              "is_multiplied_with(expr, n, 'exp(n)', xn_fac) and abs(xn_fac[-1] / sym.exp(args[0].coeff(n, 0))) == 1"]
        if len(br) != 1:
            fail(fn, 'complex exponential branch of termXq not found')
        body = br[0].body
        txt = [ast.unparse(s_) for s_ in body]
        for t_ in ['aa = sym.expand(ref[0]).coeff(n, 1) / sym.I', 'bb = sym.expand(ref[0]).coeff(n, 0)',
                   'result = self.termXq(expr, n, k, q, lower, upper)', 'result.subs(q, q * sym.exp(sym.I * aa))',
                   'k0 = aa * self.N / 2 / pi', 'result.multiply(const * sym.exp(bb))', 'return result']:
            if txt.count(t_) != 1:
                fail(body[0], 'complex exponential branch: expected exactly one `%s`' % t_)
        ifs_ = [s_ for s_ in body if isinstance(s_, ast.If) and ast.unparse(s_.test) == 'k0.is_integer and result.has_special']
        if len(ifs_) != 1 or [ast.unparse(x) for x in ifs_[0].orelse] != ['result.rm_cases()'] or len(ifs_[0].body) != 1 \
                or ast.unparse(ifs_[0].body[0]) not in ('result.shift_k(k0)', 'result.shift_k(-k0)'):
            fail(body[0], 'complex exponential branch: special-case handling changed')
        self.tones['cexp'] = {'s1': True, 't1': ast.unparse(ifs_[0].body[0]) == 'result.shift_k(k0)', 'line': ifs_[0].lineno}
        # the call that fixes lower = 0, upper = N - 1 and q = exp(-j 2 pi k / N)
        term = find_class_method(tree, 'DFTTransformer', 'term')
        calls = [ast.unparse(s) for s in ast.walk(term) if isinstance(s, ast.Assign) and ast.unparse(s.targets[0]) == 'res']
        if 'res = self.termXq(expr, n, k, q, 0, self.N - 1)' not in calls:
            fail(term, 'call of termXq changed')
        mk = [ast.unparse(s) for s in ast.walk(term) if isinstance(s, ast.Expr) and ast.unparse(s).startswith('res.make_transform')]
        if mk != ["res.make_transform(self.N, self.is_inverse, q, sym.exp(-sym.I * 2 * pi / self.N * k), k, kwargs.get('piecewise', None))"]:
            fail(term, 'make_transform call changed')

    def coq(self):
        out = ['(* GENERATED from %s (sha256 %s) by tools/tr_ztable.py.  Do not edit. *)' % (self.path, self.sha),
               'Require Import LT.FieldSec LT.SeqFilter LT.SeqDFT.', 'Local Open Scope F_scope.',
               'Section DFTTableGen.', 'Variable K : fld.', 'Notation pw := (@pw K). Notation ofnat := (@ofnat K).']
        for nm, (params, body, line) in self.entries.items():
            out.append('(* dft.py line %d *)' % line)
            out.append('Definition %s %s : K := %s.' % (nm, ' '.join(params), body))
        out.append('End DFTTableGen.')
        for nm in self.entries:
            out.append('Arguments %s {K}.' % nm)
        # which exponential half (True: exp(+j b n)) each copy carries and to which bin (True: +k0) its special case is shifted
        B = lambda v: 'true' if v else 'false'
        for nm, d in self.tones.items():
            out.append('(* dft.py line %d *)' % d['line'])
            for key in ('s1', 's2', 't1', 't2'):
                if key in d:
                    out.append('Definition dft_%s_%s : bool := %s.' % (nm, key, B(d[key])))
        return '\n'.join(out) + '\n'


class IZTable:
    """repeated-pole formulas of InverseZTransformer.ratfun (lcapy/inverse_ztransform.py):
    the term added to `sum_p` for a real pole and the `prefac` of a conjugate pair,
    together with the statements that maintain `bino` (compared textually)"""

    def __init__(self, repo):
        self.path = os.path.join(repo, 'lcapy', 'inverse_ztransform.py')
        src = open(self.path).read()
        self.sha = hashlib.sha256(src.encode()).hexdigest()
        tree = ast.parse(src)
        fn = find_class_method(tree, 'InverseZTransformer', 'ratfun')
        self.entries = {}
        loops = [n_ for n_ in ast.walk(fn) if isinstance(n_, ast.For) and ast.unparse(n_.target) == 'i']
        real = [l for l in loops if ast.unparse(l.iter) == 'range(1, o + 1)']
        pair = [l for l in loops if ast.unparse(l.iter) == 'range(1, o1 + 1)']
        if len(real) != 1 or len(pair) != 1:
            fail(fn, 'repeated-pole loops of ratfun not found')
        # --- real pole of order o
        want = ['m = o - i', 'derivative = all_derivatives[m]', 'derivative = sym.expand(derivative.subs(z, p))',
                'r = sym.simplify(derivative) / sym.factorial(m)']
        body = real[0].body
        if [ast.unparse(s_) for s_ in body[:4]] != want or len(body) != 5 or not isinstance(body[4], ast.If) \
                or ast.unparse(body[4].test) != 'p == 0':
            fail(body[0], 'real repeated-pole loop changed')
        if [ast.unparse(s_) for s_ in body[4].body] != ['cresult += r * UnitImpulse(n - i + 1)']:
            fail(body[4], 'pole at zero branch changed')
        el = body[4].orelse
        if len(el) != 2 or not isinstance(el[0], ast.AugAssign) or not isinstance(el[0].op, ast.Add) \
                or ast.unparse(el[0].target) != 'sum_p' or ast.unparse(el[1]) != 'bino *= n - i + 1':
            fail(el[0] if el else body[4], 'accumulation of sum_p / update of bino changed')
        t = ExprTr(['r', 'bino', 'p'], ['i'], zexp=True)
        self.entries['izt_real_term'] = (['(r bino p : K)', '(i : nat)'], t.fld(el[0].value), el[0].lineno)
        self.check_context(fn, real[0], ['bino = 1', 'sum_p = 0'], 'uresult += sym.simplify(sum_p * p ** n)')
        # --- conjugate pair of order o1
        body = pair[0].body
        heads = [ast.unparse(s_) for s_ in body]
        want = ['m = o1 - i', 'derivative = all_derivatives_1[m]', 'r1 = derivative.subs(z, p1) / sym.factorial(m)', None,
                'r1 = r1.rewrite(sym.exp).simplify()', 'sum_b += prefac * r1 * sym.exp(sym.I * omega_0 * (1 - i))', 'bino *= n - i + 1']
        if len(heads) != len(want) or any(w_ is not None and h_ != w_ for h_, w_ in zip(heads, want)):
            fail(body[0], 'conjugate-pair loop changed')
        pf = body[3]
        if not isinstance(pf, ast.Assign) or ast.unparse(pf.targets[0]) != 'prefac':
            fail(pf, 'expected prefac = ...')
        t = ExprTr(['bino', 'lam'], ['i'], zexp=True)
        self.entries['izt_pair_prefac'] = (['(bino lam : K)', '(i : nat)'], t.fld(pf.value), pf.lineno)
        self.check_context(fn, pair[0], ['bino = 1', 'sum_b = 0'], None)
        tail = [ast.unparse(s_) for s_ in ast.walk(fn) if isinstance(s_, ast.AugAssign) and 'bb * sym.sin' in ast.unparse(s_)]
        if tail != ['uresult += 2 * (aa * sym.cos(omega_0 * n) - bb * sym.sin(omega_0 * n)) * lam ** n']:
            fail(fn, 'assembly of the conjugate-pair result changed')
        aa = [ast.unparse(s_) for s_ in ast.walk(fn) if isinstance(s_, ast.Assign) and ast.unparse(s_.targets[0]) in ('aa', 'bb')]
        if aa != ['aa = sym.simplify(sym.re(sum_b))', 'bb = sym.simplify(sym.im(sum_b))']:
            fail(fn, 'aa / bb of the conjugate-pair result changed')
        # simple poles
        simple = [ast.unparse(s_) for s_ in ast.walk(fn) if isinstance(s_, ast.AugAssign) and ast.unparse(s_.value) == 'r * p ** n']
        if simple != ['uresult += r * p ** n']:
            fail(fn, 'simple pole term changed')

    @staticmethod
    def check_context(fn, loop, inits, after):
        """the statements `inits` precede the loop in its block and `after` follows it"""
        for node in ast.walk(fn):
            for fld_ in ('body', 'orelse'):
                blk = getattr(node, fld_, None)
                if isinstance(blk, list) and loop in blk:
                    k = blk.index(loop)
                    before = [ast.unparse(s_) for s_ in blk[:k]]
                    for it in inits:
                        if it not in before:
                            fail(loop, 'initialisation `%s` not found before the loop' % it)
                    if after is not None and (k + 1 >= len(blk) or ast.unparse(blk[k + 1]) != after):
                        fail(loop, 'statement after the loop changed, expected `%s`' % after)
                    return
        fail(loop, 'loop context not found')

    def coq(self):
        out = ['(* GENERATED from %s (sha256 %s) by tools/tr_ztable.py.  Do not edit. *)' % (self.path, self.sha),
               'Require Import LT.FieldSec LT.SeqFilter LT.SeqDFT LT.SeqZ.', 'Local Open Scope F_scope.',
               'Section IZTableGen.', 'Variable K : fld.', 'Notation pw := (@pw K). Notation ofnat := (@ofnat K). Notation zpw := (@zpw K).']
        for nm, (params, body, line) in self.entries.items():
            out.append('(* inverse_ztransform.py line %d *)' % line)
            out.append('Definition %s %s : K := %s.' % (nm, ' '.join(params), body))
        out.append('End IZTableGen.')
        for nm in self.entries:
            out.append('Arguments %s {K}.' % nm)
        return '\n'.join(out) + '\n'


if __name__ == '__main__':
    import sys
    repo = sys.argv[1] if len(sys.argv) > 1 else '/repo'
    print(ZTable(repo).coq())
    print(DFTTable(repo).coq())
    print(IZTable(repo).coq())
