"""Fail-closed translator: the canonical-form constructors of
lcapy/statespacebase.py  ->  Coq definitions over coefficient lists.

Reads the *source text* (never imports or runs it) of
  StateSpaceBase.from_ba_CCF / from_ba_OCF / from_ba_DCF,
  StateSpaceBase.from_transfer_function_coeffs (the dispatch on `form`),
  StateSpaceBase.from_ba (the arguments it forwards),
and checks that StateSpace (statespace.py) and DTStateSpace (dtstatespace.py)
inherit these constructors unchanged.

Recognised subset of a from_ba_* body (anything else raises Untranslatable):
  docstrings, comments, `from .sexpr import tf`
  b = list(b) ; a = list(a) ; Nb = len(b) ; Na = len(a) ; a0 = a[0]
  if a0 != 1: a = [ax / a0 for ax in a] ; b = [bx / a0 for bx in b]     -> norm_list
  if Na > Nb: b = [0] * (Na - Nb) + b                                    -> padto
  if Nb > Na: raise ...                                                   -> domain guard
  H = tf(b, a) ; poles = H._ratfun.poles() ; for p in poles: if p.n != 1: raise ...
                                                                          -> oracle (sympy) inputs pole/res
  Nx = len(a) - 1 ; Nu = 1 ; Ny = 1
  M = Matrix.zeros(r, c) | Matrix.ones(r, c)
  M[i, j] = e | M[k] = e (vector-shaped M)
  if Na == Nb: M[i, j] = e  else: M[i, j] = e'
  for n in range(R): M[f(n), g(n)] = e(n)        f, g in {n, n + c, c, -1}
  for n, p in enumerate(poles): <assignments>     (range = Nx, needs `unique poles' oracle)
  return cls(A, B, C, D)
entry expressions e: int | sym.S.One | name (a0) | a[idx] | b[idx] | -e | e+e | e-e | e*e | e/e
                     | p.expr -> pole n | H._ratfun.residue(p.expr, poles) -> res n
index expressions idx: int | n | Nx | idx + idx | idx - idx   (emitted over nat; a
  separate generated lemma shows that no list index goes negative inside its loop,
  so Python's negative-index wrap-around cannot occur).
"""
import ast
import hashlib
import os


class Untranslatable(Exception):
    pass


FNAME = 'lcapy/statespacebase.py'


def fail(node, why, fname=FNAME):
    raise Untranslatable('%s:%s: %s: %s' % (fname, getattr(node, 'lineno', '?'), why,
                                            ast.unparse(node)[:160] if isinstance(node, ast.AST) else str(node)))


def is_doc(st):
    return isinstance(st, ast.Expr) and isinstance(st.value, ast.Constant) and isinstance(st.value.value, str)


def src(n):
    return ast.unparse(n)


class Form:
    def __init__(self, name):
        self.name = name
        self.line = None
        self.prep = []        # list of ('norm', var) | ('pad',) in program order
        self.guards = []      # domain guards: 'Nb<=Na'
        self.uses_poles = False
        self.unique_poles = False
        self.mats = {}        # name -> dict(rows, cols, init, writes=[...])
        self.order = []
        self.ret = None
        self.idx_obl = []     # (range expr coq or None, index expr Z-coq) to be shown >= 0
        self.have = set()


class SSTranslator:
    def __init__(self, repo):
        self.repo = repo
        self.path = os.path.join(repo, 'lcapy', 'statespacebase.py')
        self.src = open(self.path).read()
        self.sha = hashlib.sha256(self.src.encode()).hexdigest()
        tree = ast.parse(self.src)
        cls = [n for n in tree.body if isinstance(n, ast.ClassDef) and n.name == 'StateSpaceBase']
        if not cls:
            raise Untranslatable('class StateSpaceBase not found in ' + self.path)
        self.cls = cls[0]
        self.methods = {n.name: n for n in self.cls.body if isinstance(n, ast.FunctionDef)}
        self.forms = {}
        self.dispatch = None
        self.from_ba_args = None
        self.tfc_params = None
        self.check_subclasses()

    # -- subclasses must inherit the constructors --------------------------
    def check_subclasses(self):
        for fn, cn in (('statespace.py', 'StateSpace'), ('dtstatespace.py', 'DTStateSpace')):
            p = os.path.join(self.repo, 'lcapy', fn)
            tree = ast.parse(open(p).read())
            cl = [n for n in tree.body if isinstance(n, ast.ClassDef) and n.name == cn]
            if not cl:
                raise Untranslatable('class %s not found in lcapy/%s' % (cn, fn))
            bases = [src(b) for b in cl[0].bases]
            if bases != ['StateSpaceBase']:
                fail(cl[0], 'unexpected bases of %s: %s' % (cn, bases), 'lcapy/' + fn)
            for n in cl[0].body:
                if isinstance(n, ast.FunctionDef) and (n.name.startswith('from_ba') or n.name in ('from_transfer_function_coeffs', '__init__')):
                    fail(n, '%s overrides %s' % (cn, n.name), 'lcapy/' + fn)

    # -- helpers --------------------------------------------------------------
    def classmethod_def(self, name):
        if name not in self.methods:
            raise Untranslatable('%s: StateSpaceBase.%s not found' % (FNAME, name))
        fn = self.methods[name]
        decos = [src(d) for d in fn.decorator_list]
        if decos != ['classmethod']:
            fail(fn, 'expected a classmethod')
        return fn

    # -- index expressions (nat) ---------------------------------------------
    def idx(self, e, loopvar):
        """returns (coq nat expr, coq Z expr)"""
        if isinstance(e, ast.Constant) and isinstance(e.value, int) and e.value >= 0:
            return '%d' % e.value, '%d' % e.value
        if isinstance(e, ast.Name):
            if e.id == loopvar:
                return 'n', '(Z.of_nat n)'
            if e.id in ('Nx', 'Na', 'Nb'):
                return e.id, '(Z.of_nat %s)' % e.id
            fail(e, 'unknown name in index')
        if isinstance(e, ast.BinOp) and isinstance(e.op, (ast.Add, ast.Sub)):
            l, lz = self.idx(e.left, loopvar)
            r, rz = self.idx(e.right, loopvar)
            op = '+' if isinstance(e.op, ast.Add) else '-'
            return '(%s %s %s)' % (l, op, r), '(%s %s %s)' % (lz, op, rz)
        fail(e, 'unsupported index expression')

    # -- entry expressions ------------------------------------------------------
    def expr(self, e, form, loopvar, polevar, rng):
        if isinstance(e, ast.Constant) and isinstance(e.value, int):
            v = e.value
            if v == 0:
                return '0'
            if v == 1:
                return '1'
            fail(e, 'integer literal other than 0/1')
        if src(e) == 'sym.S.One':
            return '1'
        if src(e) == 'sym.S.Zero':
            return '0'
        if isinstance(e, ast.Name):
            if e.id == 'a0' and 'a0' in form.have:
                return 'a0'
            fail(e, 'unknown name')
        if isinstance(e, ast.Subscript) and isinstance(e.value, ast.Name) and e.value.id in ('a', 'b'):
            i, iz = self.idx(e.slice, loopvar)
            form.idx_obl.append((rng, iz))
            return '(nthK %s %s)' % (e.value.id, i)
        if isinstance(e, ast.UnaryOp) and isinstance(e.op, ast.USub):
            return '(- %s)' % self.expr(e.operand, form, loopvar, polevar, rng)
        if isinstance(e, ast.BinOp) and isinstance(e.op, (ast.Add, ast.Sub, ast.Mult, ast.Div)):
            op = {ast.Add: '+', ast.Sub: '-', ast.Mult: '*', ast.Div: '/'}[type(e.op)]
            return '(%s %s %s)' % (self.expr(e.left, form, loopvar, polevar, rng), op,
                                   self.expr(e.right, form, loopvar, polevar, rng))
        if polevar and src(e) == '%s.expr' % polevar:
            return '(pole n)'
        if polevar and src(e) == 'H._ratfun.residue(%s.expr, poles)' % polevar and form.uses_poles:
            return '(res n)'
        fail(e, 'unsupported entry expression')

    def subscript(self, tgt, form, loopvar):
        """M[i, j] / M[k] -> (matname, rowspec, colspec); spec = ('n', c) | ('c', k) | ('last',)"""
        if not (isinstance(tgt, ast.Subscript) and isinstance(tgt.value, ast.Name) and tgt.value.id in form.mats):
            fail(tgt, 'assignment target is not an entry of a declared matrix')
        m = form.mats[tgt.value.id]
        sl = tgt.slice

        def spec(e, dim):
            if isinstance(e, ast.UnaryOp) and isinstance(e.op, ast.USub) and isinstance(e.operand, ast.Constant) and e.operand.value == 1:
                return ('c', '(%s - 1)' % dim)
            if isinstance(e, ast.Constant) and isinstance(e.value, int) and e.value >= 0:
                return ('c', '%d' % e.value)
            if isinstance(e, ast.Name) and e.id == loopvar and loopvar:
                return ('n', '0')
            if (isinstance(e, ast.BinOp) and isinstance(e.op, ast.Add) and isinstance(e.left, ast.Name) and loopvar
                    and e.left.id == loopvar and isinstance(e.right, ast.Constant) and isinstance(e.right.value, int) and e.right.value >= 0):
                return ('n', '%d' % e.right.value)
            fail(e, 'unsupported matrix index')
        if isinstance(sl, ast.Tuple):
            if len(sl.elts) != 2:
                fail(tgt, 'matrix index is not a pair')
            return tgt.value.id, spec(sl.elts[0], m['rows']), spec(sl.elts[1], m['cols'])
        # flat index into a vector-shaped matrix
        if m['rows'] == '1':
            return tgt.value.id, ('c', '0'), spec(sl, m['cols'])
        if m['cols'] == '1':
            return tgt.value.id, spec(sl, m['rows']), ('c', '0')
        fail(tgt, 'flat index into a matrix that is not vector-shaped')

    def write(self, st, form, loopvar=None, polevar=None, rng=None):
        if not (isinstance(st, ast.Assign) and len(st.targets) == 1):
            fail(st, 'unsupported statement in matrix fill')
        name, rs, cs = self.subscript(st.targets[0], form, loopvar)
        val = self.expr(st.value, form, loopvar, polevar, rng)
        if loopvar is None:
            if rs[0] != 'c' or cs[0] != 'c':
                fail(st, 'loop variable outside a loop')
            w = 'W1 %s %s %s' % (rs[1], cs[1], val)
        else:
            f = '(fun n : nat => %s)' % val
            if rs[0] == 'n' and cs[0] == 'n':
                w = 'WD %s %s %s %s' % (rng, rs[1], cs[1], f)
            elif rs[0] == 'c' and cs[0] == 'n':
                w = 'WR %s %s %s %s' % (rng, rs[1], cs[1], f)
            elif rs[0] == 'n' and cs[0] == 'c':
                w = 'WC %s %s %s %s' % (rng, rs[1], cs[1], f)
            else:
                fail(st, 'constant target inside a loop (last iteration wins) is not supported')
        return name, w

    # -- one constructor ------------------------------------------------------------
    def translate_form(self, which):
        fn = self.classmethod_def('from_ba_' + which)
        if [a.arg for a in fn.args.args] != ['cls', 'b', 'a'] or fn.args.vararg or fn.args.kwarg or fn.args.defaults:
            fail(fn, 'unexpected signature')
        f = Form(which)
        f.line = fn.lineno
        body = [s for s in fn.body if not is_doc(s)]
        i = 0

        def nxt():
            nonlocal i
            s = body[i]
            i += 1
            return s
        while i < len(body):
            st = nxt()
            t = src(st)
            if t == 'from .sexpr import tf':
                continue
            if t in ('b = list(b)', 'a = list(a)'):
                f.have.add('list_' + t[0])
                continue
            if t == 'Nb = len(b)':
                if f.prep:
                    fail(st, 'Nb taken after the lists were modified')
                f.have.add('Nb')
                continue
            if t == 'Na = len(a)':
                if f.prep:
                    fail(st, 'Na taken after the lists were modified')
                f.have.add('Na')
                continue
            if t == 'a0 = a[0]':
                if any(p[0] == 'norm' for p in f.prep):
                    fail(st, 'a0 read after normalisation')
                f.have.add('a0')
                continue
            if isinstance(st, ast.If) and src(st.test) == 'a0 != 1' and not st.orelse and 'a0' in f.have:
                for s2 in st.body:
                    t2 = src(s2)
                    ok = False
                    for v in ('a', 'b'):
                        if (isinstance(s2, ast.Assign) and src(s2.targets[0]) == v and isinstance(s2.value, ast.ListComp)
                                and len(s2.value.generators) == 1 and not s2.value.generators[0].ifs
                                and src(s2.value.generators[0].iter) == v and isinstance(s2.value.generators[0].target, ast.Name)
                                and src(s2.value.elt) == '%s / a0' % s2.value.generators[0].target.id):
                            f.prep.append(('norm', v))
                            ok = True
                    if not ok:
                        fail(s2, 'unsupported statement under `if a0 != 1`')
                continue
            if isinstance(st, ast.If) and src(st.test) == 'Na > Nb' and not st.orelse and {'Na', 'Nb'} <= f.have:
                if len(st.body) != 1 or src(st.body[0]) != 'b = [0] * (Na - Nb) + b':
                    fail(st, 'unsupported padding statement')
                f.prep.append(('pad',))
                continue
            if isinstance(st, ast.If) and src(st.test) == 'Nb > Na' and not st.orelse and {'Na', 'Nb'} <= f.have:
                if len(st.body) != 1 or not isinstance(st.body[0], ast.Raise):
                    fail(st, 'expected a raise under `if Nb > Na`')
                f.guards.append('Nb<=Na')
                continue
            if t == 'H = tf(b, a)':
                if f.prep:
                    fail(st, 'tf(b, a) taken after the lists were modified')
                f.uses_poles = True
                continue
            if t == 'poles = H._ratfun.poles()' and f.uses_poles:
                f.have.add('poles')
                continue
            if (isinstance(st, ast.For) and src(st.iter) == 'poles' and 'poles' in f.have and isinstance(st.target, ast.Name)
                    and len(st.body) == 1 and isinstance(st.body[0], ast.If) and src(st.body[0].test) == '%s.n != 1' % st.target.id
                    and len(st.body[0].body) == 1 and isinstance(st.body[0].body[0], ast.Raise) and not st.body[0].orelse and not st.orelse):
                f.unique_poles = True
                continue
            if t == 'Nx = len(a) - 1':
                f.have.add('Nx')
                continue
            if t in ('Nu = 1', 'Ny = 1'):
                continue
            if (isinstance(st, ast.Assign) and len(st.targets) == 1 and isinstance(st.targets[0], ast.Name)
                    and isinstance(st.value, ast.Call) and src(st.value.func) in ('Matrix.zeros', 'Matrix.ones')
                    and len(st.value.args) == 2 and not st.value.keywords):
                dims = []
                for d in st.value.args:
                    if isinstance(d, ast.Name) and d.id == 'Nx' and 'Nx' in f.have:
                        dims.append('Nx')
                    elif isinstance(d, ast.Constant) and d.value == 1:
                        dims.append('1')
                    else:
                        fail(d, 'unsupported matrix dimension')
                nm = st.targets[0].id
                f.mats[nm] = {'rows': dims[0], 'cols': dims[1], 'init': '0' if src(st.value.func).endswith('zeros') else '1', 'writes': []}
                f.order.append(nm)
                continue
            if isinstance(st, ast.Assign) and len(st.targets) == 1 and isinstance(st.targets[0], ast.Subscript):
                nm, w = self.write(st, f)
                f.mats[nm]['writes'].append(w)
                continue
            if isinstance(st, ast.If) and src(st.test) == 'Na == Nb' and {'Na', 'Nb'} <= f.have and len(st.body) == 1 and len(st.orelse) == 1:
                nm1, w1 = self.write(st.body[0], f)
                nm2, w2 = self.write(st.orelse[0], f)
                if nm1 != nm2 or w1.split()[:3] != w2.split()[:3] or not w1.startswith('W1 '):
                    fail(st, 'branches of `if Na == Nb` assign different entries')
                p1 = w1.split(' ', 3)
                p2 = w2.split(' ', 3)
                f.mats[nm1]['writes'].append('W1 %s %s (if (Na =? Nb)%%nat then %s else %s)' % (p1[1], p1[2], p1[3], p2[3]))
                continue
            if (isinstance(st, ast.For) and not st.orelse and isinstance(st.iter, ast.Call) and src(st.iter.func) == 'range'
                    and len(st.iter.args) == 1 and isinstance(st.target, ast.Name)):
                rng, _ = self.idx(st.iter.args[0], None)
                for s2 in st.body:
                    nm, w = self.write(s2, f, loopvar=st.target.id, rng=rng)
                    f.mats[nm]['writes'].append(w)
                continue
            if (isinstance(st, ast.For) and not st.orelse and src(st.iter) == 'enumerate(poles)' and 'poles' in f.have
                    and isinstance(st.target, ast.Tuple) and len(st.target.elts) == 2 and all(isinstance(x, ast.Name) for x in st.target.elts)):
                if not f.unique_poles:
                    fail(st, 'poles used without the multiplicity check')
                lv, pv = st.target.elts[0].id, st.target.elts[1].id
                for s2 in st.body:
                    nm, w = self.write(s2, f, loopvar=lv, polevar=pv, rng='Nx')
                    f.mats[nm]['writes'].append(w)
                f.have.add('pole_loop')
                continue
            if isinstance(st, ast.Return):
                if i != len(body):
                    fail(st, 'statements after return')
                v = st.value
                if not (isinstance(v, ast.Call) and src(v.func) == 'cls' and len(v.args) == 4 and not v.keywords
                        and all(isinstance(x, ast.Name) and x.id in f.mats for x in v.args)):
                    fail(st, 'unsupported return value')
                f.ret = [x.id for x in v.args]
                continue
            fail(st, 'unsupported statement in from_ba_' + which)
        if f.ret is None:
            raise Untranslatable('%s: from_ba_%s has no return' % (FNAME, which))
        need = {'list_a', 'list_b', 'Na', 'Nb', 'Nx'}
        if not need <= f.have:
            raise Untranslatable('%s: from_ba_%s misses %s' % (FNAME, which, sorted(need - f.have)))
        A, B, C, D = [f.mats[x] for x in f.ret]
        shapes = [(A['rows'], A['cols']), (B['rows'], B['cols']), (C['rows'], C['cols']), (D['rows'], D['cols'])]
        if shapes != [('Nx', 'Nx'), ('Nx', '1'), ('1', 'Nx'), ('1', '1')]:
            raise Untranslatable('%s: from_ba_%s returns matrices of shapes %s' % (FNAME, which, shapes))
        self.forms[which] = f
        return f

    # -- dispatch and from_ba ------------------------------------------------------
    def translate_dispatch(self):
        fn = self.classmethod_def('from_transfer_function_coeffs')
        params = [a.arg for a in fn.args.args]
        if params[0] != 'cls':
            fail(fn, 'first parameter is not cls')
        self.tfc_params = params[1:]
        body = [s for s in fn.body if not is_doc(s)]
        table = []
        if len(body) != 1 or not isinstance(body[0], ast.If):
            fail(fn, 'expected a single if/elif chain')
        st = body[0]
        while True:
            t = st.test
            if not (isinstance(t, ast.Compare) and src(t.left) == 'form' and len(t.ops) == 1 and isinstance(t.ops[0], ast.Eq)
                    and isinstance(t.comparators[0], ast.Constant) and isinstance(t.comparators[0].value, str)):
                fail(t, 'unsupported dispatch test')
            if len(st.body) != 1 or not isinstance(st.body[0], ast.Return) or not isinstance(st.body[0].value, ast.Call):
                fail(st, 'unsupported dispatch branch')
            call = st.body[0].value
            if not (isinstance(call.func, ast.Attribute) and src(call.func.value) == 'cls') or call.keywords:
                fail(call, 'unsupported dispatch call')
            table.append((t.comparators[0].value, call.func.attr, [src(a) for a in call.args]))
            if len(st.orelse) == 1 and isinstance(st.orelse[0], ast.If):
                st = st.orelse[0]
                continue
            if len(st.orelse) == 1 and isinstance(st.orelse[0], ast.Raise):
                break
            fail(st, 'dispatch chain does not end in a raise')
        self.dispatch = table
        fb = self.classmethod_def('from_ba')
        fb_params = [a.arg for a in fb.args.args][1:]
        bb = [s for s in fb.body if not is_doc(s)]
        if len(bb) != 1 or not isinstance(bb[0], ast.Return) or not isinstance(bb[0].value, ast.Call):
            fail(fb, 'unsupported body of from_ba')
        call = bb[0].value
        if not (isinstance(call.func, ast.Attribute) and src(call.func.value) == 'cls' and call.func.attr == 'from_transfer_function_coeffs') or call.keywords:
            fail(call, 'from_ba does not forward to cls.from_transfer_function_coeffs')
        self.from_ba_params = fb_params
        self.from_ba_args = [src(a) for a in call.args]

    def translate_all(self):
        # fail closed: no raw IndexError / KeyError / ... escapes from walking the syntax tree
        try:
            for w in ('CCF', 'OCF', 'DCF'):
                self.translate_form(w)
            self.translate_dispatch()
        except Untranslatable:
            raise
        except (IndexError, KeyError, AttributeError, TypeError, ValueError, AssertionError) as e:
            raise Untranslatable('%s: source is outside the recognised shape (%s: %s)' % (FNAME, type(e).__name__, str(e)[:120]))
        return self


# ---- Coq emission -------------------------------------------------------------------
def emit_form(f):
    nm = f.name.lower()
    out = ['(* StateSpaceBase.from_ba_%s, line %d *)' % (f.name, f.line)]
    if 'Nb<=Na' in f.guards:
        dom = '(length b_in <=? length a_in)%nat'
    else:
        dom = 'true'
    out.append('Definition %s_dom (a_in b_in : list K) : bool := %s.' % (nm, dom))
    lets = ['let a := a_in in', 'let b := b_in in', 'let Nb := length b in', 'let Na := length a in']
    if 'a0' in f.have:
        lets.append('let a0 := nthK a 0 in')
    # simultaneous normalisation: both right-hand sides read a0, which was bound before
    for p in f.prep:
        if p[0] == 'norm':
            lets.append('let %s := norm_list a0 %s in' % (p[1], p[1]))
        else:
            lets.append('let b := padto Na b in')
    lets.append('let Nx := (length a - 1)%nat in')
    A, B, C, D = [f.mats[x] for x in f.ret]

    def ent(m):
        return '(entry %s [%s])' % (m['init'], '; '.join(m['writes']))
    out.append('Definition %s (a_in b_in : list K) (pole res : nat -> K) : real K :=\n  %s\n  MkReal Nx %s\n    (fun i => %s i 0%%nat)\n    (fun j => %s 0%%nat j)\n    (%s 0%%nat 0%%nat).' % (
        nm, '\n  '.join(lets), ent(A), ent(B), ent(C), ent(D)))
    return '\n'.join(out)


def emit(tr):
    out = ['(* GENERATED from %s (sha256 %s) by tools/tr_statespace.py.  Do not edit. *)' % (FNAME, tr.sha),
           'Require Import LT.FieldSec LT.FormulCanon.', 'From Coq Require Import Arith ZArith Lia.',
           'Local Open Scope F_scope.', '', 'Section Gen.', 'Variable K : fld.', '']
    for w in ('CCF', 'OCF', 'DCF'):
        out.append(emit_form(tr.forms[w]))
        out.append('')
    out.append('End Gen.')
    for w in ('ccf', 'ocf', 'dcf'):
        out.append('Arguments %s {K}. Arguments %s_dom {K}.' % (w, w))
    out.append('')
    # list indices never go negative inside their loops (so nat subtraction = Python arithmetic)
    k = 0
    names = []
    for w in ('CCF', 'OCF', 'DCF'):
        for rng, iz in tr.forms[w].idx_obl:
            k += 1
            nm = 'idx_nonneg_%s_%d' % (w.lower(), k)
            names.append(nm)
            if rng is None:
                out.append('Lemma %s : forall Nx Na Nb : nat, (1 <= Nx)%%nat -> (0 <= %s)%%Z.\nProof. intros; lia. Qed.' % (nm, iz))
            else:
                out.append('Lemma %s : forall Nx Na Nb n : nat, (n < %s)%%nat -> (0 <= %s)%%Z.\nProof. intros; lia. Qed.' % (nm, rng, iz))
    out.append('')
    out.append('(* from_transfer_function_coeffs: form -> constructor, forwarded arguments *)')
    out.append('From Coq Require Import String.\nLocal Open Scope string_scope.')
    out.append('Definition dispatch_table : list (string * string * list string) :=\n  [%s].' % ';\n   '.join(
        '("%s", "%s", [%s])' % (a, b, '; '.join('"%s"' % x for x in c)) for a, b, c in tr.dispatch))
    out.append('Definition tfc_params : list string := [%s].' % '; '.join('"%s"' % x for x in tr.tfc_params))
    out.append('Definition from_ba_params : list string := [%s].' % '; '.join('"%s"' % x for x in tr.from_ba_params))
    out.append('Definition from_ba_args : list string := [%s].' % '; '.join('"%s"' % x for x in tr.from_ba_args))
    return '\n'.join(out) + '\n', names


if __name__ == '__main__':
    import sys
    t = SSTranslator(sys.argv[1] if len(sys.argv) > 1 else '/repo').translate_all()
    print(emit(t)[0])
