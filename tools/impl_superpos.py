"""C03 worker: runs the REAL lcapy (from /repo) on superposition cases and
returns exact rational / Gaussian-rational data (JSON).

Two case types:

 {"type": "circuit", "netlist": [...], "s0": "p/q", "w0": "p/q", "sources": {name: spec}, "scale": {"src":..,"k":"p/q","line":..},
  "timeout": sec}
    full circuit: per analysis kind everything the Coq MNA model needs
    (tools/impl_circuit.py dump_sub, reused), the public-API Superposition of every
    element voltage/current and node voltage (stored parts, decomposition, dc / ac /
    transient / noise parts, laplace(), time()), the source Superpositions;
    cct.kill_except(g) for every independent source g (and 'ICs'): netlist, per-kind
    Vdict/Idict, public-API Superpositions;  one source scaled.

 {"type": "container", "quantity": "voltage", "terms": [spec...], "groups": [[i..],[i..]], "s0":.., "w0":..}
    builds Superposition objects from the terms (each group by add(), the
    groups combined with +) and dumps the same container data.

Exact evaluation ("images"):
  * an expression without t: symbols s -> s0, omega -> w0, value as 'p/q' or ['p/q','p/q'] (re, im);
  * a time-domain expression: expanded into  sum c_m * m  over monomials m (products of
    Heaviside(t), DiracDelta(t), exp(a t), cos(w t), sin(w t), t**n) with rational c_m;
    its t-image is  sum c_m * rho(m)  with rho(1) = 1 and rho(m) a fixed rational derived
    from a hash of m (a Q-linear functional, injective with overwhelming probability; equal
    expressions ALWAYS have equal images); its s-image is computed with an own Laplace
    table (not lcapy's).  Expressions outside this form give null (comparison skipped).
"""
import sys, os, json, warnings, hashlib
warnings.filterwarnings('ignore')
import sympy as sp

# reuse the circuit dumper of C01 (same file, without running its main)
_src = open(os.path.join(os.path.dirname(os.path.abspath(__file__)), 'impl_circuit.py')).read()
_src = _src.rsplit('\nmain()', 1)[0]
IC = {'__name__': 'impl_circuit_for_c03'}
exec(compile(_src, 'impl_circuit.py', 'exec'), IC)

from lcapy import Circuit, state
from lcapy.sym import ssym, tsym, omegasym, eps as EPS

T = tsym


def fr(x):
    x = sp.Rational(x)
    return '%d/%d' % (x.p, x.q)


# ---- canonical monomial form of time-domain expressions ---------------------------
def rho(m):
    if m == 1:
        return sp.Integer(1)
    h = int(hashlib.sha256(str(m).encode()).hexdigest()[:12], 16)
    return sp.Rational(2 + h % 9973, 1 + (h // 9973) % 89)


SYMVALS = {}      # values of the netlist symbols of the current case (name -> Rational)


def tform(e):
    """dict monomial -> rational coefficient, or None"""
    e = sp.sympify(e)
    if SYMVALS:
        e = e.subs({sy: SYMVALS[sy.name] for sy in e.free_symbols if sy.name in SYMVALS})
    try:
        e = sp.expand(e)
    except Exception:
        return None
    d = {}
    for term in sp.Add.make_args(e):
        c, m = term.as_independent(T, as_Add=False)
        if not c.is_Rational:
            return None
        if not monomial_ok(m):
            return None
        d[m] = d.get(m, 0) + c
    return {m: c for m, c in d.items() if c != 0}


def factors(m):
    return list(sp.Mul.make_args(m)) if m != 1 else []


def lin_coeff(arg):
    """arg == a*t with rational a -> a, else None"""
    a = sp.expand(arg).coeff(T, 1)
    if sp.expand(arg - a * T) != 0 or not a.is_Rational:
        return None
    return a


def monomial_ok(m):
    return parse_monomial(m) is not None


def parse_monomial(m):
    """-> dict(n=power of t, a=exp rate, trig=None|('cos',w)|('sin',w), H=bool, delta=bool) or None"""
    r = {'n': 0, 'a': sp.Integer(0), 'trig': None, 'H': False, 'delta': False}
    for f in factors(m):
        if f == T:
            r['n'] += 1
        elif f.is_Pow and f.base == T and f.exp.is_Integer and f.exp > 0:
            r['n'] += int(f.exp)
        elif f.func == sp.Heaviside and f.args[0] == T:
            r['H'] = True
        elif f.func == sp.DiracDelta and f.args == (T,):
            r['delta'] = True
        elif f.func == sp.exp:
            a = lin_coeff(f.args[0])
            if a is None:
                return None
            r['a'] += a
        elif f.func in (sp.cos, sp.sin):
            w = lin_coeff(f.args[0])
            if w is None or r['trig'] is not None or w <= 0:
                return None
            r['trig'] = ('cos' if f.func == sp.cos else 'sin', w)
        else:
            return None
    return r


def timg(e):
    d = tform(e)
    if d is None:
        return None
    return sum((c * rho(m) for m, c in d.items()), sp.Integer(0))


def my_laplace(e, s0):
    """own unilateral Laplace transform (table) of a canonical time expression at s = s0"""
    d = tform(e)
    if d is None:
        return None
    tot = sp.Integer(0)
    for m, c in d.items():
        p = parse_monomial(m)
        if p['delta']:
            if p['n'] or p['a'] != 0 or p['trig']:
                return None
            tot += c
            continue
        w = p['trig'][1] if p['trig'] else 0
        d0 = s0 - p['a']
        z = gpow((Fq(int(d0.p), int(d0.q)), Fq(-int(sp.Rational(w).p), int(sp.Rational(w).q))), -(p['n'] + 1))
        f = Fq(int(sp.factorial(p['n'])))
        v = f * (z[1] if (p['trig'] and p['trig'][0] == 'sin') else z[0])
        v = sp.Rational(v.numerator, v.denominator)
        tot += c * v
    return tot


def classify(m):
    """independent statement of the contract of coeff(t,0)/is_ac: constant -> dc,
    a bare cos/sin(w t) -> ac w, anything else -> transient"""
    if m == 1:
        return ('dc',)
    p = parse_monomial(m)
    if p['trig'] and p['n'] == 0 and p['a'] == 0 and not p['H'] and not p['delta']:
        return ('ac', p['trig'][1])
    return ('x',)


# ---- exact evaluation ------------------------------------------------------------------
from fractions import Fraction as Fq


class NotExact(Exception):
    pass


def gmul(x, y):
    return (x[0] * y[0] - x[1] * y[1], x[0] * y[1] + x[1] * y[0])


def ginv(x):
    n = x[0] * x[0] + x[1] * x[1]
    if n == 0:
        raise NotExact('division by zero')
    return (x[0] / n, -x[1] / n)


def gpow(x, n):
    if n < 0:
        return gpow(ginv(x), -n)
    r = (Fq(1), Fq(0))
    while n:
        if n & 1:
            r = gmul(r, x)
        x = gmul(x, x)
        n >>= 1
    return r


def isqrt_frac(q):
    import math
    if q < 0:
        return None
    a, b = math.isqrt(q.numerator), math.isqrt(q.denominator)
    if a * a == q.numerator and b * b == q.denominator:
        return Fq(a, b)
    return None


def geval(x, point):
    """exact value of a sympy expression built from rationals, I, the symbols of
    `point`, + * and integer powers (and square roots of rational squares)"""
    if x.is_Rational:
        return (Fq(int(x.p), int(x.q)), Fq(0))
    if x is sp.I:
        return (Fq(0), Fq(1))
    if x.is_Symbol:
        if x.name in point:
            v = point[x.name]
            return (Fq(int(v.p), int(v.q)), Fq(0))
        raise NotExact('free symbol ' + x.name)
    if x.is_Add:
        re_, im_ = Fq(0), Fq(0)
        for a in x.args:
            v = geval(a, point)
            re_ += v[0]
            im_ += v[1]
        return (re_, im_)
    if x.is_Mul:
        r = (Fq(1), Fq(0))
        for a in x.args:
            r = gmul(r, geval(a, point))
        return r
    if x.is_Pow:
        b, e = x.args
        if e.is_Integer:
            return gpow(geval(b, point), int(e))
        if e.is_Rational and e.q == 2:
            v = geval(b, point)
            if v[1] == 0:
                r = isqrt_frac(v[0])
                if r is not None:
                    return gpow((r, Fq(0)), int(e.p))
        raise NotExact('power ' + str(e))
    if x.is_Float:
        q = sp.nsimplify(x)
        if q.is_Rational:
            return (Fq(int(q.p), int(q.q)), Fq(0))
    if x.func == sp.Abs:
        v = geval(x.args[0], point)
        if v[1] == 0:
            return (abs(v[0]), Fq(0))
    raise NotExact(str(x.func))


def cval(x, point):
    """value of an expression without t at the point -> (re, im) sympy Rationals or None"""
    try:
        x = sp.sympify(getattr(x, 'sympy', x))
        if x.has(EPS):
            x = sp.limit(x, EPS, 0)
        v = geval(x, point)
        return (sp.Rational(v[0].numerator, v[0].denominator), sp.Rational(v[1].numerator, v[1].denominator))
    except NotExact:
        pass
    except Exception:
        return None
    try:
        sub = {}
        for sy in x.free_symbols:
            if sy.name in point:
                sub[sy] = point[sy.name]
        x = sp.simplify(x.subs(sub))
        v = geval(x, point)
        return (sp.Rational(v[0].numerator, v[0].denominator), sp.Rational(v[1].numerator, v[1].denominator))
    except Exception:
        return None


def enc(v):
    """(re, im) -> 'p/q' | ['p/q','p/q'] | None"""
    if v is None:
        return None
    if v[1] == 0:
        return fr(v[0])
    return [fr(v[0]), fr(v[1])]


def val(x, point):
    """generic: time-domain expressions by t-image, others at the point"""
    try:
        xs = sp.sympify(getattr(x, 'sympy', x))
    except Exception:
        return None
    if xs.has(T):
        ti = timg(xs)
        return None if ti is None else fr(ti)
    return enc(cval(xs, point))


def val_eps(x, point):
    try:
        xs = sp.sympify(getattr(x, 'sympy', x))
        if xs.has(EPS):
            xs = xs.subs(EPS, point['__eps__'])
    except Exception:
        return None
    return val(xs, point)


IC['rat'] = val
IC['rat_eps'] = val_eps


# ---- container dump ---------------------------------------------------------------------
def keystr(k):
    if isinstance(k, str):
        return k
    try:
        k = sp.sympify(getattr(k, 'sympy', k))
        return 'w:' + fr(k)
    except Exception:
        return 'w:?' + str(k)


def part_images(k, v, point, want_ilt=False):
    """images of one stored value of a Superposition: dict(t=.., s=.., re=.., im=.., terms=[...])"""
    ks = keystr(k)
    out = {'key': ks}
    x = sp.sympify(v.sympy)
    s0 = point['s']
    if ks in ('t', 'x', 'dc'):
        ti, si = timg(x), my_laplace(x, s0)
        out['t'] = None if ti is None else fr(ti)
        out['s'] = None if si is None else fr(si)
        d = tform(x)
        if d is not None:
            terms = []
            for m, c in d.items():
                cl = classify(m)
                li = my_laplace(c * m, s0)
                terms.append({'cls': cl[0], 'w': fr(cl[1]) if len(cl) > 1 else None, 't': fr(c * rho(m)),
                              's': None if li is None else fr(li),
                              'ph': (None if cl[0] != 'ac' else
                                     ([fr(c), '0/1'] if parse_monomial(m)['trig'][0] == 'cos' else ['0/1', fr(-c)]))})
            out['terms'] = terms
    elif ks == 's':
        cv = cval(x, point)
        out['s'] = enc(cv)
        out['t'] = None
        if want_ilt:
            try:
                y = v.inverse_laplace()
                ti = timg(sp.sympify(y.sympy))
                out['t'] = None if ti is None else fr(ti)
            except Exception:
                out['t'] = None
    elif ks.startswith('w:'):
        cv = cval(x, point)
        out['ph'] = None if cv is None else [fr(cv[0]), fr(cv[1])]
        w = sp.Rational(ks[2:]) if '?' not in ks else None
        if cv is not None and w is not None:
            a, b = cv
            out['t'] = fr(a * rho(sp.cos(w * T)) - b * rho(sp.sin(w * T)))
            out['s'] = fr((a * s0 - b * w) / (s0 ** 2 + w ** 2))
        else:
            out['t'] = out['s'] = None
    elif ks.startswith('n'):
        cv = cval(x, point)
        out['amp'] = None if cv is None else [fr(cv[0]), fr(cv[1])]
    else:
        out['unknown'] = True
    return out


def sup_dump(V, point, cheap_ilt, mode='full'):
    """everything observable about one Superposition (mode 'lite': stored parts,
    decomposition and laplace() only)"""
    out = {}
    has_s = 's' in V
    want = cheap_ilt and has_s and mode == 'full'
    out['parts'] = [part_images(k, v, point, want) for k, v in V.items()]
    try:
        dec = V.decompose()
        out['dec'] = [part_images(k, v, point, want) for k, v in dec.items()]
    except Exception as e:
        out['dec_error'] = type(e).__name__
    if mode == 'lite':
        try:
            y = V.laplace()
            out['laplace'] = enc(cval(y.sympy, point))
        except Exception as e:
            out['laplace_error'] = type(e).__name__
        return out
    try:
        out['kinds_tr'] = [keystr(k) for k in V.kinds(True)]
    except Exception as e:
        out['kinds_error'] = type(e).__name__
    s0 = point['s']
    # parts through the public properties
    try:
        x = sp.sympify(V.dc.sympy)
        out['dc'] = val(x, point)
    except Exception as e:
        out['dc_error'] = type(e).__name__
    try:
        ac = V.ac
        out['ac'] = {keystr(k): enc(cval(v.sympy, point)) for k, v in ac.items()}
    except Exception as e:
        out['ac_error'] = type(e).__name__
    try:
        y = V.laplace()
        out['laplace'] = enc(cval(y.sympy, point))
    except Exception as e:
        out['laplace_error'] = type(e).__name__
    if (not has_s) or cheap_ilt:
        try:
            y = sp.sympify(V.time().sympy)
            ti, si = timg(y), my_laplace(y, s0)
            out['time_t'] = None if ti is None else fr(ti)
            out['time_s'] = None if si is None else fr(si)
            out['time_str'] = str(y)[:200]
        except Exception as e:
            out['time_error'] = type(e).__name__
        try:
            y = sp.sympify(V.transient.sympy)
            ti, si = timg(y), my_laplace(y, s0)
            out['transient_t'] = None if ti is None else fr(ti)
            out['transient_s'] = None if si is None else fr(si)
        except Exception as e:
            out['transient_error'] = type(e).__name__
    try:
        n = V.n
        cv = cval(sp.sympify(n.sympy) ** 2, point)
        out['n2'] = enc(cv)
    except Exception as e:
        out['n_error'] = type(e).__name__
    return out


# ---- circuits ---------------------------------------------------------------------------
def make(lines):
    c = Circuit()
    for l in lines:
        c.add(l)
    return c


def api_dump(c, point, cheap, names=None, nodes=None, mode='full'):
    """public API: node voltages cct[n].V and branch currents cct[name].I"""
    out = {'I': {}, 'N': {}}
    for name in (names if names is not None else list(c.elements)):
        if name not in c.elements:
            continue
        e = c.elements[name]
        if e.nosim or e.ignore:
            continue
        if e.type in ('R', 'C', 'L', 'V', 'I', 'E', 'H', 'TF', 'AM', 'Y', 'Z'):
            try:
                out['I'][name] = sup_dump(c[name].I, point, cheap, mode)
            except Exception as ex:
                out['I'][name] = {'error': type(ex).__name__ + ': ' + str(ex)[:80]}
    for n in (nodes if nodes is not None else list(c.nodes)):
        if str(n) not in c.nodes:
            continue
        try:
            out['N'][str(n)] = sup_dump(c[str(n)].V, point, cheap, mode)
        except Exception as ex:
            out['N'][str(n)] = {'error': type(ex).__name__ + ': ' + str(ex)[:80]}
    return out


def tbuckets(x, point):
    """constant part, phasor per angular frequency and Laplace image of the rest of a time-domain
    expression (own classification and table), or None"""
    try:
        xs = sp.sympify(getattr(x, 'sympy', x))
    except Exception:
        return None
    d = tform(xs)
    if d is None:
        return None
    dc, ac, tr = sp.Integer(0), {}, sp.Integer(0)
    for m, c in d.items():
        cl = classify(m)
        if cl[0] == 'dc':
            dc += c
        elif cl[0] == 'ac':
            w = fr(cl[1])
            re_, im_ = ac.get(w, (sp.Integer(0), sp.Integer(0)))
            if parse_monomial(m)['trig'][0] == 'cos':
                re_ += c
            else:
                im_ -= c
            ac[w] = (re_, im_)
        else:
            li = my_laplace(c * m, point['s'])
            if li is None:
                return None
            tr += li
    return {'dc': fr(dc), 'ac': {w: [fr(v[0]), fr(v[1])] for w, v in ac.items()}, 'tr': fr(tr)}


def sub_results(c, point):
    """per analysis kind the reported node voltages and currents (SubNetlist level)"""
    out = {}
    for kind, sn in c.sub.items():
        d = {}
        try:
            sn.mna._solve()
            d['Vdict'] = {str(k): val(v, point) for k, v in sn.mna._Vdict.items()}
            d['Idict'] = {str(k): val(v, point) for k, v in sn.mna._Idict.items()}
            d['node_index'] = {str(n): int(sn.mna._node_index(n)) for n in sn.nodes}
            if str(kind) == 'time':
                # a time-domain analysis holds every signal kind at once: split the results for the comparison
                # with the per-kind systems of the full circuit
                d['Vbk'] = {str(k): tbuckets(v, point) for k, v in sn.mna._Vdict.items()}
                d['Ibk'] = {str(k): tbuckets(v, point) for k, v in sn.mna._Idict.items()}
        except Exception as e:
            d['solve_error'] = type(e).__name__ + ': ' + str(e)[:120]
        out[keystr(kind)] = d
    return out


def nonzero_ics(c):
    """names of the components that carry a non-zero initial condition"""
    out = []
    for name in c.analysis.ics:
        cpt = c.elements[name].cpt
        try:
            ic = cpt.v0 if hasattr(cpt, 'v0') else cpt.i0
            if sp.sympify(getattr(ic, 'sympy', ic)) == 0:
                continue
        except Exception:
            pass
        out.append(name)
    return out


def run_circuit(case):
    point = {'s': sp.Rational(case.get('s0', '2')), 'omega': sp.Rational(case.get('w0', '3/2')),
             '__eps__': sp.Rational(case.get('eps', '0'))}
    SYMVALS.clear()
    for k_, v_ in case.get('subs', {}).items():
        SYMVALS[k_] = sp.Rational(v_)
        point[k_] = sp.Rational(v_)
    state.current_sign_convention = 'passive'
    IC['TP_SRC_BY_CLASS'].clear()
    IC['TP_SRC_BY_CLASS'].update(case.get('tp_src', {}))
    c = make(case['netlist'])
    res = {}
    srcs = list(c.independent_sources)
    res['sources'] = srcs
    res['is_ivp'] = bool(c.is_IVP)
    res['is_time_domain'] = bool(c.is_time_domain)
    res['ics'] = list(c.analysis.ics)
    nreact = len(c.analysis.reactances)
    res['nreact'] = nreact
    cheap = nreact <= 1
    res['groups'] = {keystr(k): list(v) for k, v in c._analysis_groups().items()} if hasattr(c, '_analysis_groups') else {}
    res['groups_tr'] = {keystr(k): list(v) for k, v in c.independent_source_groups(True).items()}
    # MNA level, per kind
    kinds = {}
    for kind, sn in c.sub.items():
        kinds[keystr(kind)] = IC['dump_sub'](sn, point, [])
    res['kinds'] = kinds
    names = [n for n in c.elements]
    nodes = [str(n) for n in c.nodes]
    res['api'] = api_dump(c, point, cheap)
    # the source values as Superpositions
    ss = {}
    for sname in srcs:
        cpt = c.elements[sname].cpt
        sup = cpt.Voc if cpt.is_voltage_source else cpt.Isc
        ss[sname] = sup_dump(sup, point, True)
        ss[sname]['is_v'] = bool(cpt.is_voltage_source)
    res['source_sup'] = ss
    # kill all but one group
    killed = {}
    groups = srcs + (['ICs'] if res['is_ivp'] else [])
    for g in groups:
        try:
            k = c.kill_except(g)
            d = {'netlist': str(k).split('\n'), 'is_ivp': bool(k.is_IVP), 'is_time_domain': bool(k.is_time_domain),
                 'ics': nonzero_ics(k)}
            d['sub'] = sub_results(k, point)
            d['api'] = api_dump(k, point, cheap, names, nodes, 'lite')
            killed[g] = d
        except Exception as e:
            import traceback
            killed[g] = {'error': type(e).__name__ + ': ' + str(e)[:200], 'tb': traceback.format_exc()[-400:]}
    res['killed'] = killed
    if case.get('equiv'):
        # the same circuit with one source value written in an equivalent form
        eq = case['equiv']
        try:
            lines = [eq['line'] if l.split()[0] == eq['src'] else l for l in case['netlist']]
            c3 = make(lines)
            res['equiv'] = {'src': eq['src'], 'line': eq['line'], 'api': api_dump(c3, point, cheap, names, nodes, 'lite')}
        except Exception as e:
            res['equiv'] = {'error': type(e).__name__ + ': ' + str(e)[:200]}
    if case.get('scale'):
        sc = case['scale']
        try:
            lines = [sc['line'] if l.split()[0] == sc['src'] else l for l in case['netlist']]
            c2 = make(lines)
            res['scaled'] = {'src': sc['src'], 'k': sc['k'], 'api': api_dump(c2, point, cheap, names, nodes, 'lite')}
        except Exception as e:
            res['scaled'] = {'error': type(e).__name__ + ': ' + str(e)[:200]}
    return res


# ---- direct container cases ---------------------------------------------------------------
def term_expr(spec):
    """lcapy expression for a term spec; returns (expr object, independent images)"""
    from lcapy import expr, t, s, voltage, current
    from lcapy.phasor import PhasorDomainExpression
    from lcapy.cexpr import ConstantDomainExpression
    from lcapy.sexpr import LaplaceDomainExpression
    from lcapy.texpr import TimeDomainExpression
    from lcapy.noiseomegaexpr import AngularFourierNoiseDomainExpression
    k = spec['k']
    c = sp.Rational(spec['c'])
    if k == 'const':
        return TimeDomainExpression(c)
    if k == 'cos':
        return TimeDomainExpression(c * sp.cos(sp.Rational(spec['w']) * T))
    if k == 'sin':
        return TimeDomainExpression(c * sp.sin(sp.Rational(spec['w']) * T))
    if k == 'step':
        return TimeDomainExpression(c * sp.Heaviside(T))
    if k == 'exp':
        return TimeDomainExpression(c * sp.exp(-sp.Rational(spec['a']) * T) * sp.Heaviside(T))
    if k == 'ramp':
        return TimeDomainExpression(c * T * sp.Heaviside(T))
    if k == 'tsum':
        tot = 0
        for sub in spec['terms']:
            tot = tot + sp.sympify(term_expr(sub).sympy)
        return TimeDomainExpression(tot)
    if k == 'sdom':
        return LaplaceDomainExpression(c / (ssym + sp.Rational(spec['a'])), causal=True)
    if k == 'phasor':
        return PhasorDomainExpression(c + sp.I * sp.Rational(spec.get('ci', '0')), omega=sp.Rational(spec['w']))
    if k == 'noise':
        return AngularFourierNoiseDomainExpression(c, nid=spec['nid'])
    raise ValueError('unknown term kind ' + k)


def spec_images(spec, point):
    """independent images of a term spec (own tables; lcapy is not involved)"""
    s0 = point['s']
    k = spec['k']
    if k == 'tsum':
        out = []
        for sub in spec['terms']:
            out += spec_images(sub, point)
        return out
    c = sp.Rational(spec['c'])
    if k == 'noise':
        return [{'key': spec['nid'], 'amp': [fr(c), '0/1']}]
    if k == 'sdom':
        return [{'key': 's', 'cls': 'x', 'w': None, 't': '0/1', 's': fr(c / (s0 + sp.Rational(spec['a']))), 'ph': None}]
    if k == 'phasor':
        a, b = c, sp.Rational(spec.get('ci', '0'))
        w = sp.Rational(spec['w'])
        return [{'key': 'w:' + fr(w), 'cls': 'ac', 'w': fr(w), 't': fr(a * rho(sp.cos(w * T)) - b * rho(sp.sin(w * T))),
                 's': fr((a * s0 - b * w) / (s0 ** 2 + w ** 2)), 'ph': [fr(a), fr(b)]}]
    if k == 'const':
        e, cls, w, ph = c, 'dc', None, None
    elif k == 'cos':
        w = sp.Rational(spec['w'])
        e, cls, ph = c * sp.cos(w * T), 'ac', [fr(c), '0/1']
    elif k == 'sin':
        w = sp.Rational(spec['w'])
        e, cls, ph = c * sp.sin(w * T), 'ac', ['0/1', fr(-c)]
    elif k == 'step':
        e, cls, w, ph = c * sp.Heaviside(T), 'x', None, None
    elif k == 'exp':
        e, cls, w, ph = c * sp.exp(-sp.Rational(spec['a']) * T) * sp.Heaviside(T), 'x', None, None
    elif k == 'ramp':
        e, cls, w, ph = c * T * sp.Heaviside(T), 'x', None, None
    else:
        raise ValueError('unknown term kind ' + k)
    return [{'key': 't', 'cls': cls, 'w': None if w is None else fr(w), 't': fr(timg(e)), 's': fr(my_laplace(e, s0)), 'ph': ph}]


def run_container(case):
    SYMVALS.clear()
    from lcapy.superpositionvoltage import SuperpositionVoltage
    from lcapy.superpositioncurrent import SuperpositionCurrent
    point = {'s': sp.Rational(case.get('s0', '2')), 'omega': sp.Rational(case.get('w0', '3/2'))}
    cls = SuperpositionVoltage if case.get('quantity', 'voltage') == 'voltage' else SuperpositionCurrent
    q = 'voltage' if cls is SuperpositionVoltage else 'current'
    terms = case['terms']
    res = {'spec_images': [spec_images(t_, point) for t_ in terms]}
    parts = []
    for g in case['groups']:
        S = cls()
        for i in g:
            S.add(term_expr(terms[i]).as_quantity(q))
        parts.append(S)
    res['groups_before'] = [sup_dump(S, point, True) for S in parts]
    tot = parts[0]
    for S in parts[1:]:
        tot = tot + S
    res['total'] = sup_dump(tot, point, True)
    res['groups'] = [sup_dump(S, point, True, 'lite') for S in parts]
    # subtraction: total - last group == sum of the others
    if len(parts) > 1:
        try:
            diff = tot - parts[-1]
            res['minus_last'] = sup_dump(diff, point, True, 'lite')
        except Exception as e:
            res['minus_last'] = {'error': type(e).__name__ + ': ' + str(e)[:100]}
    return res


def run_noise(case):
    """NoiseExpression arithmetic: list of (nid, amplitude) folded with + (and -)"""
    from lcapy.noiseomegaexpr import AngularFourierNoiseDomainExpression as N
    point = {'omega': sp.Rational(case.get('w0', '3/2')), 's': sp.Rational(2)}
    items = case['items']
    out = {}
    a, b = items[0], items[1]
    x = N(sp.Rational(a['c']), nid=a['nid'])
    y = N(sp.Rational(b['c']), nid=b['nid'])
    z = x + y
    out['add_sq'] = enc(cval(sp.sympify(z.sympy) ** 2, point))
    out['add_nid_same_as_x'] = (z.nid == x.nid)
    z = x - y
    out['sub_sq'] = enc(cval(sp.sympify(z.sympy) ** 2, point))
    return out


def run(case):
    ty = case.get('type', 'circuit')
    if ty == 'circuit':
        return run_circuit(case)
    if ty == 'container':
        return run_container(case)
    if ty == 'noise':
        return run_noise(case)
    raise ValueError('unknown case type')


class CaseTimeout(BaseException):
    pass


def _alarm(signum, frame):
    raise CaseTimeout()


def main():
    import signal
    signal.signal(signal.SIGALRM, _alarm)
    cases = json.load(sys.stdin)
    out = []
    for c in cases:
        try:
            signal.alarm(int(c.get('timeout', 60)))
            try:
                out.append(run(c))
            finally:
                signal.alarm(0)
        except CaseTimeout:
            out.append({'error': 'timeout: case exceeded its time budget'})
        except Exception as e:
            import traceback
            out.append({'error': type(e).__name__ + ': ' + str(e)[:300], 'tb': traceback.format_exc()[-800:]})
    json.dump(out, sys.stdout)


if __name__ == '__main__':
    main()
