#!/bin/bash
# usage: tools/seed_verify.sh <seed dir name under seeded/, e.g. C15-2>
# applies the recorded patch to a fresh scratch worktree of /repo HEAD, runs the check against it, removes the worktree
sd=$1
id=${sd%%-*}
wt=/tmp/wt_$sd
git -C /repo worktree remove --force $wt 2>/dev/null
git -C /repo worktree add -q --detach $wt HEAD || exit 2
if ! git -C $wt apply /verif/seeded/$sd/patch.diff; then echo "$sd PATCH-DOES-NOT-APPLY"; git -C /repo worktree remove --force $wt; exit 3; fi
cd /verif && r=$(VERIF_REPO=$wt ./check $id 2>&1 | grep -E "^(OK|VIOLATION)" | sed 's/VIOLATION property=[A-Z0-9]* replay=.*replays_scratch\///' | cut -c1-90 | tr "\n" ";")
echo "$sd $r"
git -C /repo worktree remove --force $wt
