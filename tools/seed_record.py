#!/usr/bin/env python3
"""usage: seed_record.py Cxx 'summary' 'needs' 'tests the sub-agent ran' 'result'"""
import sys, json, os, shutil
pid, summary, needs, tests, result = sys.argv[1:6]
src = sys.argv[6] if len(sys.argv) > 6 else '/tmp/seed_%s' % pid
suffix = sys.argv[7] if len(sys.argv) > 7 else ''
d = '/verif/seeded/%s%s' % (pid, suffix)
os.makedirs(d, exist_ok=True)
for f in ('patch.diff', 'demo_seed.py'):
    shutil.copy('%s/%s' % (src, f), d)
json.dump({'property': pid, 'summary': summary, 'needs': needs,
           'author': 'fresh sub-agent given only the property text and a scratch worktree',
           'confirmed': ['demo_seed.py exits non-zero with the patch and 0 without (re-run by the lead in the scratch worktree)', tests],
           'ran': 'VERIF_REPO=%s ./check %s --tier quick' % (src, pid), 'result': result},
          open(d + '/meta.json', 'w'), indent=1)
print('recorded', d)
